(* amqp_url::decode AS TRANSLATED FROM THE SOURCE on every run (Gen/SrcDecode.v, by
   tools/rs2sm.py from src/connection.rs) is the model's `decode` (Model/Url.v) C19's theorems
   are about: virtual host, credentials and query parameters of EVERY URL (as the url crate has
   split it) give the same options or the same error.  Stdlib only, no axioms. *)
From Coq Require Import String.
From Amq Require Import Lib.Base Lib.RsVal Lib.RsStr Gen.Consts Model.Url Gen.SrcDecode.
Open Scope string_scope.
Open Scope list_scope.
Open Scope N_scope.

Definition enc_ostr (o : option str) : val := match o with Some s => VC "Some" [VBytes s] | None => VC "None" [] end.
Definition enc_onum (o : option N) : val := match o with Some n => VC "Some" [VN n] | None => VC "None" [] end.
Definition enc_auth (a : uauth) : val :=
  match a with
  | UPlain u p => VC "Auth::Plain" [VR [("username", VBytes u); ("password", VBytes p)]]
  | UExternal => VC "Auth::External" []
  end.
Definition enc_opts (o : uopts) : val :=
  VR [("virtual_host", VBytes (v_vhost o)); ("auth", enc_auth (v_auth o)); ("heartbeat", VN (v_heartbeat o));
      ("channel_max", VN (v_channel_max o)); ("connection_timeout", enc_onum (v_timeout o))].
Definition enc_pair (kv : str * str) : val := VC "tuple" [VBytes (fst kv); VBytes (snd kv)].

(* the Url as the url crate presents it *)
Definition enc_url (u : surl) : val :=
  VR [("username", VBytes (u_user u)); ("password", enc_ostr (u_pass u));
      ("path_segments", match u_segments u with Some l => VC "Some" [VC "segments" (map VBytes l)] | None => VC "None" [] end);
      ("query_pairs", VC "pairs" (map enc_pair (u_query u)))].

Definition parse_res (max : N) (s : val) : val :=
  match s with
  | VBytes b => match parse_uint max b with Some n => VC "Ok" [VN n] | None => VC "Err" [VC "ParseIntError" []] end
  | _ => VStuck
  end.

(* the url crate's accessors, percent_decode, str::parse, ConnectionOptions's builder methods *)
Definition ext_model (name : string) (args : list val) : val :=
  match args with
  | [] => enc_opts default_opts                                  (* ConnectionOptions::default() *)
  | [x] =>
      if (name =? "percent_decode")%string then match x with VBytes s => VBytes (percent_decode s) | _ => VStuck end
      else if (name =? "parse::<u16>")%string then parse_res 65535 x
      else if (name =? "parse::<u64>")%string then parse_res 18446744073709551615 x
      else if (name =? "Duration::from_millis")%string then x
      else v_field name x                                        (* url.username() / password() / path_segments() / query_pairs() *)
  | [o; x] =>
      if (name =? "connection_timeout")%string then v_set name x o
      else v_set name x o                                        (* virtual_host / auth / heartbeat / channel_max *)
  | _ => VStuck
  end.

Definition enc_err (url : val) (e : uerr) : val :=
  match e with
  | UeExtraPath => VC "Error::ExtraUrlPathSegments" [url]
  | UeHeartbeat => VC "Error::UrlParseHeartbeat" [VC "ParseIntError" []]
  | UeChannelMax => VC "Error::UrlParseChannelMax" [VC "ParseIntError" []]
  | UeTimeout => VC "Error::UrlParseConnectionTimeout" [VC "ParseIntError" []]
  | UeAuthMechanism m => VC "Error::UrlInvalidAuthMechanism" [url; VBytes m]
  | UeParameter p => VC "Error::UrlUnsupportedParameter" [url; VBytes p]
  | _ => VStuck
  end.
Definition enc_result (url : val) (r : uopts + uerr) : val :=
  match r with inl o => VC "Ok" [enc_opts o] | inr e => VC "Err" [enc_err url e] end.

(* the fold over the query pairs: every copy of the loop the translation makes (one per path
   that reaches it) is the model's query_fold *)
Ltac loop_tac :=
  let q := fresh "q" in let IH := fresh "IH" in
  intros q; induction q as [|[k v] q IH]; intros; [reflexivity|];
  cbn [map enc_pair fst snd query_fold];
  match goal with |- ?f _ (_ :: _) = _ => unfold f; fold f end;
  cbn -[list_eqb parse_uint query_fold enc_opts];
  unfold bytes_eqb, k_heartbeat, k_channel_max, k_timeout, k_auth, s_external;
  repeat match goal with
         | |- context [list_eqb N.eqb ?a ?b] => destruct (list_eqb N.eqb a b)
         | |- context [parse_uint ?m ?s] => destruct (parse_uint m s)
         end;
  cbn -[query_fold enc_opts]; try reflexivity; try (rewrite <- IH; reflexivity).

Lemma ext_hb o n : ext_model "heartbeat" [enc_opts o; VN n] = enc_opts (set_hb o n).
Proof. reflexivity. Qed.
Lemma ext_cm o n : ext_model "channel_max" [enc_opts o; VN n] = enc_opts (set_cm o n).
Proof. reflexivity. Qed.
Lemma ext_to o n : ext_model "connection_timeout" [enc_opts o; VC "Some" [ext_model "Duration::from_millis" [VN n]]] = enc_opts (set_to o n).
Proof. reflexivity. Qed.
Lemma ext_auth o a : ext_model "auth" [enc_opts o; enc_auth a] = enc_opts (set_auth o a).
Proof. reflexivity. Qed.
Lemma ext_vhost o s : ext_model "virtual_host" [enc_opts o; VBytes s] = enc_opts (set_vhost o s).
Proof. reflexivity. Qed.
Lemma ext_parse16 s : ext_model "parse::<u16>" [VBytes s] = parse_res 65535 (VBytes s).
Proof. reflexivity. Qed.
Lemma ext_parse64 s : ext_model "parse::<u64>" [VBytes s] = parse_res 18446744073709551615 (VBytes s).
Proof. reflexivity. Qed.

Lemma ext_default : ext_model "ConnectionOptions::default" [] = enc_opts default_opts.
Proof. reflexivity. Qed.
Lemma ext_pd s : ext_model "percent_decode" [VBytes s] = VBytes (percent_decode s).
Proof. reflexivity. Qed.
Lemma ext_user u : ext_model "username" [enc_url u] = VBytes (u_user u).
Proof. reflexivity. Qed.
Lemma ext_pass u : ext_model "password" [enc_url u] = enc_ostr (u_pass u).
Proof. reflexivity. Qed.
Lemma ext_segs u : ext_model "path_segments" [enc_url u]
  = match u_segments u with Some l => VC "Some" [VC "segments" (map VBytes l)] | None => VC "None" [] end.
Proof. reflexivity. Qed.
Lemma ext_query u : ext_model "query_pairs" [enc_url u] = VC "pairs" (map enc_pair (u_query u)).
Proof. reflexivity. Qed.

Opaque ext_model.

Lemma loop1_is_fold url auth_l other_l username_l : forall q o,
  gen_decode_loop1 ext_model (map enc_pair q) auth_l (enc_opts o) other_l url username_l = enc_result url (query_fold o q).
Proof.
  induction q as [|[k v] q IH]; intro o; [reflexivity|].
  cbn [map enc_pair fst snd query_fold gen_decode_loop1].
  cbn [String.eqb Ascii.eqb Bool.eqb].
  unfold bytes_eqb, k_heartbeat, k_channel_max, k_timeout, k_auth, s_external.
  change (v_beq (VBytes k) (VBytes [104; 101; 97; 114; 116; 98; 101; 97; 116])) with (list_eqb N.eqb k [104; 101; 97; 114; 116; 98; 101; 97; 116]).
  destruct (list_eqb N.eqb k [104; 101; 97; 114; 116; 98; 101; 97; 116]).
  - rewrite ext_parse16. unfold parse_res. destruct (parse_uint 65535 v); cbn -[enc_opts query_fold]; [rewrite ext_hb; apply IH|reflexivity].
  - change (v_beq (VBytes k) (VBytes [99; 104; 97; 110; 110; 101; 108; 95; 109; 97; 120])) with (list_eqb N.eqb k [99; 104; 97; 110; 110; 101; 108; 95; 109; 97; 120]).
    destruct (list_eqb N.eqb k [99; 104; 97; 110; 110; 101; 108; 95; 109; 97; 120]).
    + rewrite ext_parse16. unfold parse_res. destruct (parse_uint 65535 v); cbn -[enc_opts query_fold]; [rewrite ext_cm; apply IH|reflexivity].
    + change (v_beq (VBytes k) (VBytes [99; 111; 110; 110; 101; 99; 116; 105; 111; 110; 95; 116; 105; 109; 101; 111; 117; 116]))
        with (list_eqb N.eqb k [99; 111; 110; 110; 101; 99; 116; 105; 111; 110; 95; 116; 105; 109; 101; 111; 117; 116]).
      destruct (list_eqb N.eqb k [99; 111; 110; 110; 101; 99; 116; 105; 111; 110; 95; 116; 105; 109; 101; 111; 117; 116]).
      * rewrite ext_parse64. unfold parse_res. destruct (parse_uint 18446744073709551615 v); cbn -[enc_opts query_fold]; [rewrite ext_to; apply IH|reflexivity].
      * change (v_beq (VBytes k) (VBytes [97; 117; 116; 104; 95; 109; 101; 99; 104; 97; 110; 105; 115; 109]))
          with (list_eqb N.eqb k [97; 117; 116; 104; 95; 109; 101; 99; 104; 97; 110; 105; 115; 109]).
        destruct (list_eqb N.eqb k [97; 117; 116; 104; 95; 109; 101; 99; 104; 97; 110; 105; 115; 109]); [|reflexivity].
        change (v_beq (VBytes v) (VBytes [101; 120; 116; 101; 114; 110; 97; 108])) with (list_eqb N.eqb v [101; 120; 116; 101; 114; 110; 97; 108]).
        destruct (list_eqb N.eqb v [101; 120; 116; 101; 114; 110; 97; 108]); [|reflexivity].
        change (VC "Auth::External" []) with (enc_auth UExternal). rewrite ext_auth. apply IH.
Qed.

Lemma loop2_is_fold url auth_l username_l : forall q o,
  gen_decode_loop2 ext_model (map enc_pair q) auth_l (enc_opts o) url username_l = enc_result url (query_fold o q).
Proof.
  induction q as [|[k v] q IH]; intro o; [reflexivity|].
  cbn [map enc_pair fst snd query_fold gen_decode_loop2].
  cbn [String.eqb Ascii.eqb Bool.eqb].
  unfold bytes_eqb, k_heartbeat, k_channel_max, k_timeout, k_auth, s_external.
  change (v_beq (VBytes k) (VBytes [104; 101; 97; 114; 116; 98; 101; 97; 116])) with (list_eqb N.eqb k [104; 101; 97; 114; 116; 98; 101; 97; 116]).
  destruct (list_eqb N.eqb k [104; 101; 97; 114; 116; 98; 101; 97; 116]).
  - rewrite ext_parse16. unfold parse_res. destruct (parse_uint 65535 v); cbn -[enc_opts query_fold]; [rewrite ext_hb; apply IH|reflexivity].
  - change (v_beq (VBytes k) (VBytes [99; 104; 97; 110; 110; 101; 108; 95; 109; 97; 120])) with (list_eqb N.eqb k [99; 104; 97; 110; 110; 101; 108; 95; 109; 97; 120]).
    destruct (list_eqb N.eqb k [99; 104; 97; 110; 110; 101; 108; 95; 109; 97; 120]).
    + rewrite ext_parse16. unfold parse_res. destruct (parse_uint 65535 v); cbn -[enc_opts query_fold]; [rewrite ext_cm; apply IH|reflexivity].
    + change (v_beq (VBytes k) (VBytes [99; 111; 110; 110; 101; 99; 116; 105; 111; 110; 95; 116; 105; 109; 101; 111; 117; 116]))
        with (list_eqb N.eqb k [99; 111; 110; 110; 101; 99; 116; 105; 111; 110; 95; 116; 105; 109; 101; 111; 117; 116]).
      destruct (list_eqb N.eqb k [99; 111; 110; 110; 101; 99; 116; 105; 111; 110; 95; 116; 105; 109; 101; 111; 117; 116]).
      * rewrite ext_parse64. unfold parse_res. destruct (parse_uint 18446744073709551615 v); cbn -[enc_opts query_fold]; [rewrite ext_to; apply IH|reflexivity].
      * change (v_beq (VBytes k) (VBytes [97; 117; 116; 104; 95; 109; 101; 99; 104; 97; 110; 105; 115; 109]))
          with (list_eqb N.eqb k [97; 117; 116; 104; 95; 109; 101; 99; 104; 97; 110; 105; 115; 109]).
        destruct (list_eqb N.eqb k [97; 117; 116; 104; 95; 109; 101; 99; 104; 97; 110; 105; 115; 109]); [|reflexivity].
        change (v_beq (VBytes v) (VBytes [101; 120; 116; 101; 114; 110; 97; 108])) with (list_eqb N.eqb v [101; 120; 116; 101; 114; 110; 97; 108]).
        destruct (list_eqb N.eqb v [101; 120; 116; 101; 114; 110; 97; 108]); [|reflexivity].
        change (VC "Auth::External" []) with (enc_auth UExternal). rewrite ext_auth. apply IH.
Qed.

Lemma loop3_is_fold url  : forall q o,
  gen_decode_loop3 ext_model (map enc_pair q) (enc_opts o) url = enc_result url (query_fold o q).
Proof.
  induction q as [|[k v] q IH]; intro o; [reflexivity|].
  cbn [map enc_pair fst snd query_fold gen_decode_loop3].
  cbn [String.eqb Ascii.eqb Bool.eqb].
  unfold bytes_eqb, k_heartbeat, k_channel_max, k_timeout, k_auth, s_external.
  change (v_beq (VBytes k) (VBytes [104; 101; 97; 114; 116; 98; 101; 97; 116])) with (list_eqb N.eqb k [104; 101; 97; 114; 116; 98; 101; 97; 116]).
  destruct (list_eqb N.eqb k [104; 101; 97; 114; 116; 98; 101; 97; 116]).
  - rewrite ext_parse16. unfold parse_res. destruct (parse_uint 65535 v); cbn -[enc_opts query_fold]; [rewrite ext_hb; apply IH|reflexivity].
  - change (v_beq (VBytes k) (VBytes [99; 104; 97; 110; 110; 101; 108; 95; 109; 97; 120])) with (list_eqb N.eqb k [99; 104; 97; 110; 110; 101; 108; 95; 109; 97; 120]).
    destruct (list_eqb N.eqb k [99; 104; 97; 110; 110; 101; 108; 95; 109; 97; 120]).
    + rewrite ext_parse16. unfold parse_res. destruct (parse_uint 65535 v); cbn -[enc_opts query_fold]; [rewrite ext_cm; apply IH|reflexivity].
    + change (v_beq (VBytes k) (VBytes [99; 111; 110; 110; 101; 99; 116; 105; 111; 110; 95; 116; 105; 109; 101; 111; 117; 116]))
        with (list_eqb N.eqb k [99; 111; 110; 110; 101; 99; 116; 105; 111; 110; 95; 116; 105; 109; 101; 111; 117; 116]).
      destruct (list_eqb N.eqb k [99; 111; 110; 110; 101; 99; 116; 105; 111; 110; 95; 116; 105; 109; 101; 111; 117; 116]).
      * rewrite ext_parse64. unfold parse_res. destruct (parse_uint 18446744073709551615 v); cbn -[enc_opts query_fold]; [rewrite ext_to; apply IH|reflexivity].
      * change (v_beq (VBytes k) (VBytes [97; 117; 116; 104; 95; 109; 101; 99; 104; 97; 110; 105; 115; 109]))
          with (list_eqb N.eqb k [97; 117; 116; 104; 95; 109; 101; 99; 104; 97; 110; 105; 115; 109]).
        destruct (list_eqb N.eqb k [97; 117; 116; 104; 95; 109; 101; 99; 104; 97; 110; 105; 115; 109]); [|reflexivity].
        change (v_beq (VBytes v) (VBytes [101; 120; 116; 101; 114; 110; 97; 108])) with (list_eqb N.eqb v [101; 120; 116; 101; 114; 110; 97; 108]).
        destruct (list_eqb N.eqb v [101; 120; 116; 101; 114; 110; 97; 108]); [|reflexivity].
        change (VC "Auth::External" []) with (enc_auth UExternal). rewrite ext_auth. apply IH.
Qed.

Lemma loop4_is_fold url auth_l other_l path_segments_l recv_97_l username_l vhost_l : forall q o,
  gen_decode_loop4 ext_model (map enc_pair q) auth_l (enc_opts o) other_l path_segments_l recv_97_l url username_l vhost_l = enc_result url (query_fold o q).
Proof.
  induction q as [|[k v] q IH]; intro o; [reflexivity|].
  cbn [map enc_pair fst snd query_fold gen_decode_loop4].
  cbn [String.eqb Ascii.eqb Bool.eqb].
  unfold bytes_eqb, k_heartbeat, k_channel_max, k_timeout, k_auth, s_external.
  change (v_beq (VBytes k) (VBytes [104; 101; 97; 114; 116; 98; 101; 97; 116])) with (list_eqb N.eqb k [104; 101; 97; 114; 116; 98; 101; 97; 116]).
  destruct (list_eqb N.eqb k [104; 101; 97; 114; 116; 98; 101; 97; 116]).
  - rewrite ext_parse16. unfold parse_res. destruct (parse_uint 65535 v); cbn -[enc_opts query_fold]; [rewrite ext_hb; apply IH|reflexivity].
  - change (v_beq (VBytes k) (VBytes [99; 104; 97; 110; 110; 101; 108; 95; 109; 97; 120])) with (list_eqb N.eqb k [99; 104; 97; 110; 110; 101; 108; 95; 109; 97; 120]).
    destruct (list_eqb N.eqb k [99; 104; 97; 110; 110; 101; 108; 95; 109; 97; 120]).
    + rewrite ext_parse16. unfold parse_res. destruct (parse_uint 65535 v); cbn -[enc_opts query_fold]; [rewrite ext_cm; apply IH|reflexivity].
    + change (v_beq (VBytes k) (VBytes [99; 111; 110; 110; 101; 99; 116; 105; 111; 110; 95; 116; 105; 109; 101; 111; 117; 116]))
        with (list_eqb N.eqb k [99; 111; 110; 110; 101; 99; 116; 105; 111; 110; 95; 116; 105; 109; 101; 111; 117; 116]).
      destruct (list_eqb N.eqb k [99; 111; 110; 110; 101; 99; 116; 105; 111; 110; 95; 116; 105; 109; 101; 111; 117; 116]).
      * rewrite ext_parse64. unfold parse_res. destruct (parse_uint 18446744073709551615 v); cbn -[enc_opts query_fold]; [rewrite ext_to; apply IH|reflexivity].
      * change (v_beq (VBytes k) (VBytes [97; 117; 116; 104; 95; 109; 101; 99; 104; 97; 110; 105; 115; 109]))
          with (list_eqb N.eqb k [97; 117; 116; 104; 95; 109; 101; 99; 104; 97; 110; 105; 115; 109]).
        destruct (list_eqb N.eqb k [97; 117; 116; 104; 95; 109; 101; 99; 104; 97; 110; 105; 115; 109]); [|reflexivity].
        change (v_beq (VBytes v) (VBytes [101; 120; 116; 101; 114; 110; 97; 108])) with (list_eqb N.eqb v [101; 120; 116; 101; 114; 110; 97; 108]).
        destruct (list_eqb N.eqb v [101; 120; 116; 101; 114; 110; 97; 108]); [|reflexivity].
        change (VC "Auth::External" []) with (enc_auth UExternal). rewrite ext_auth. apply IH.
Qed.

Lemma loop5_is_fold url auth_l path_segments_l recv_97_l username_l vhost_l : forall q o,
  gen_decode_loop5 ext_model (map enc_pair q) auth_l (enc_opts o) path_segments_l recv_97_l url username_l vhost_l = enc_result url (query_fold o q).
Proof.
  induction q as [|[k v] q IH]; intro o; [reflexivity|].
  cbn [map enc_pair fst snd query_fold gen_decode_loop5].
  cbn [String.eqb Ascii.eqb Bool.eqb].
  unfold bytes_eqb, k_heartbeat, k_channel_max, k_timeout, k_auth, s_external.
  change (v_beq (VBytes k) (VBytes [104; 101; 97; 114; 116; 98; 101; 97; 116])) with (list_eqb N.eqb k [104; 101; 97; 114; 116; 98; 101; 97; 116]).
  destruct (list_eqb N.eqb k [104; 101; 97; 114; 116; 98; 101; 97; 116]).
  - rewrite ext_parse16. unfold parse_res. destruct (parse_uint 65535 v); cbn -[enc_opts query_fold]; [rewrite ext_hb; apply IH|reflexivity].
  - change (v_beq (VBytes k) (VBytes [99; 104; 97; 110; 110; 101; 108; 95; 109; 97; 120])) with (list_eqb N.eqb k [99; 104; 97; 110; 110; 101; 108; 95; 109; 97; 120]).
    destruct (list_eqb N.eqb k [99; 104; 97; 110; 110; 101; 108; 95; 109; 97; 120]).
    + rewrite ext_parse16. unfold parse_res. destruct (parse_uint 65535 v); cbn -[enc_opts query_fold]; [rewrite ext_cm; apply IH|reflexivity].
    + change (v_beq (VBytes k) (VBytes [99; 111; 110; 110; 101; 99; 116; 105; 111; 110; 95; 116; 105; 109; 101; 111; 117; 116]))
        with (list_eqb N.eqb k [99; 111; 110; 110; 101; 99; 116; 105; 111; 110; 95; 116; 105; 109; 101; 111; 117; 116]).
      destruct (list_eqb N.eqb k [99; 111; 110; 110; 101; 99; 116; 105; 111; 110; 95; 116; 105; 109; 101; 111; 117; 116]).
      * rewrite ext_parse64. unfold parse_res. destruct (parse_uint 18446744073709551615 v); cbn -[enc_opts query_fold]; [rewrite ext_to; apply IH|reflexivity].
      * change (v_beq (VBytes k) (VBytes [97; 117; 116; 104; 95; 109; 101; 99; 104; 97; 110; 105; 115; 109]))
          with (list_eqb N.eqb k [97; 117; 116; 104; 95; 109; 101; 99; 104; 97; 110; 105; 115; 109]).
        destruct (list_eqb N.eqb k [97; 117; 116; 104; 95; 109; 101; 99; 104; 97; 110; 105; 115; 109]); [|reflexivity].
        change (v_beq (VBytes v) (VBytes [101; 120; 116; 101; 114; 110; 97; 108])) with (list_eqb N.eqb v [101; 120; 116; 101; 114; 110; 97; 108]).
        destruct (list_eqb N.eqb v [101; 120; 116; 101; 114; 110; 97; 108]); [|reflexivity].
        change (VC "Auth::External" []) with (enc_auth UExternal). rewrite ext_auth. apply IH.
Qed.

Lemma loop6_is_fold url path_segments_l recv_97_l vhost_l : forall q o,
  gen_decode_loop6 ext_model (map enc_pair q) (enc_opts o) path_segments_l recv_97_l url vhost_l = enc_result url (query_fold o q).
Proof.
  induction q as [|[k v] q IH]; intro o; [reflexivity|].
  cbn [map enc_pair fst snd query_fold gen_decode_loop6].
  cbn [String.eqb Ascii.eqb Bool.eqb].
  unfold bytes_eqb, k_heartbeat, k_channel_max, k_timeout, k_auth, s_external.
  change (v_beq (VBytes k) (VBytes [104; 101; 97; 114; 116; 98; 101; 97; 116])) with (list_eqb N.eqb k [104; 101; 97; 114; 116; 98; 101; 97; 116]).
  destruct (list_eqb N.eqb k [104; 101; 97; 114; 116; 98; 101; 97; 116]).
  - rewrite ext_parse16. unfold parse_res. destruct (parse_uint 65535 v); cbn -[enc_opts query_fold]; [rewrite ext_hb; apply IH|reflexivity].
  - change (v_beq (VBytes k) (VBytes [99; 104; 97; 110; 110; 101; 108; 95; 109; 97; 120])) with (list_eqb N.eqb k [99; 104; 97; 110; 110; 101; 108; 95; 109; 97; 120]).
    destruct (list_eqb N.eqb k [99; 104; 97; 110; 110; 101; 108; 95; 109; 97; 120]).
    + rewrite ext_parse16. unfold parse_res. destruct (parse_uint 65535 v); cbn -[enc_opts query_fold]; [rewrite ext_cm; apply IH|reflexivity].
    + change (v_beq (VBytes k) (VBytes [99; 111; 110; 110; 101; 99; 116; 105; 111; 110; 95; 116; 105; 109; 101; 111; 117; 116]))
        with (list_eqb N.eqb k [99; 111; 110; 110; 101; 99; 116; 105; 111; 110; 95; 116; 105; 109; 101; 111; 117; 116]).
      destruct (list_eqb N.eqb k [99; 111; 110; 110; 101; 99; 116; 105; 111; 110; 95; 116; 105; 109; 101; 111; 117; 116]).
      * rewrite ext_parse64. unfold parse_res. destruct (parse_uint 18446744073709551615 v); cbn -[enc_opts query_fold]; [rewrite ext_to; apply IH|reflexivity].
      * change (v_beq (VBytes k) (VBytes [97; 117; 116; 104; 95; 109; 101; 99; 104; 97; 110; 105; 115; 109]))
          with (list_eqb N.eqb k [97; 117; 116; 104; 95; 109; 101; 99; 104; 97; 110; 105; 115; 109]).
        destruct (list_eqb N.eqb k [97; 117; 116; 104; 95; 109; 101; 99; 104; 97; 110; 105; 115; 109]); [|reflexivity].
        change (v_beq (VBytes v) (VBytes [101; 120; 116; 101; 114; 110; 97; 108])) with (list_eqb N.eqb v [101; 120; 116; 101; 114; 110; 97; 108]).
        destruct (list_eqb N.eqb v [101; 120; 116; 101; 114; 110; 97; 108]); [|reflexivity].
        change (VC "Auth::External" []) with (enc_auth UExternal). rewrite ext_auth. apply IH.
Qed.

Lemma loop7_is_fold url auth_l other_l path_segments_l recv_97_l username_l vhost_l : forall q o,
  gen_decode_loop7 ext_model (map enc_pair q) auth_l (enc_opts o) other_l path_segments_l recv_97_l url username_l vhost_l = enc_result url (query_fold o q).
Proof.
  induction q as [|[k v] q IH]; intro o; [reflexivity|].
  cbn [map enc_pair fst snd query_fold gen_decode_loop7].
  cbn [String.eqb Ascii.eqb Bool.eqb].
  unfold bytes_eqb, k_heartbeat, k_channel_max, k_timeout, k_auth, s_external.
  change (v_beq (VBytes k) (VBytes [104; 101; 97; 114; 116; 98; 101; 97; 116])) with (list_eqb N.eqb k [104; 101; 97; 114; 116; 98; 101; 97; 116]).
  destruct (list_eqb N.eqb k [104; 101; 97; 114; 116; 98; 101; 97; 116]).
  - rewrite ext_parse16. unfold parse_res. destruct (parse_uint 65535 v); cbn -[enc_opts query_fold]; [rewrite ext_hb; apply IH|reflexivity].
  - change (v_beq (VBytes k) (VBytes [99; 104; 97; 110; 110; 101; 108; 95; 109; 97; 120])) with (list_eqb N.eqb k [99; 104; 97; 110; 110; 101; 108; 95; 109; 97; 120]).
    destruct (list_eqb N.eqb k [99; 104; 97; 110; 110; 101; 108; 95; 109; 97; 120]).
    + rewrite ext_parse16. unfold parse_res. destruct (parse_uint 65535 v); cbn -[enc_opts query_fold]; [rewrite ext_cm; apply IH|reflexivity].
    + change (v_beq (VBytes k) (VBytes [99; 111; 110; 110; 101; 99; 116; 105; 111; 110; 95; 116; 105; 109; 101; 111; 117; 116]))
        with (list_eqb N.eqb k [99; 111; 110; 110; 101; 99; 116; 105; 111; 110; 95; 116; 105; 109; 101; 111; 117; 116]).
      destruct (list_eqb N.eqb k [99; 111; 110; 110; 101; 99; 116; 105; 111; 110; 95; 116; 105; 109; 101; 111; 117; 116]).
      * rewrite ext_parse64. unfold parse_res. destruct (parse_uint 18446744073709551615 v); cbn -[enc_opts query_fold]; [rewrite ext_to; apply IH|reflexivity].
      * change (v_beq (VBytes k) (VBytes [97; 117; 116; 104; 95; 109; 101; 99; 104; 97; 110; 105; 115; 109]))
          with (list_eqb N.eqb k [97; 117; 116; 104; 95; 109; 101; 99; 104; 97; 110; 105; 115; 109]).
        destruct (list_eqb N.eqb k [97; 117; 116; 104; 95; 109; 101; 99; 104; 97; 110; 105; 115; 109]); [|reflexivity].
        change (v_beq (VBytes v) (VBytes [101; 120; 116; 101; 114; 110; 97; 108])) with (list_eqb N.eqb v [101; 120; 116; 101; 114; 110; 97; 108]).
        destruct (list_eqb N.eqb v [101; 120; 116; 101; 114; 110; 97; 108]); [|reflexivity].
        change (VC "Auth::External" []) with (enc_auth UExternal). rewrite ext_auth. apply IH.
Qed.

Lemma loop8_is_fold url auth_l path_segments_l recv_97_l username_l vhost_l : forall q o,
  gen_decode_loop8 ext_model (map enc_pair q) auth_l (enc_opts o) path_segments_l recv_97_l url username_l vhost_l = enc_result url (query_fold o q).
Proof.
  induction q as [|[k v] q IH]; intro o; [reflexivity|].
  cbn [map enc_pair fst snd query_fold gen_decode_loop8].
  cbn [String.eqb Ascii.eqb Bool.eqb].
  unfold bytes_eqb, k_heartbeat, k_channel_max, k_timeout, k_auth, s_external.
  change (v_beq (VBytes k) (VBytes [104; 101; 97; 114; 116; 98; 101; 97; 116])) with (list_eqb N.eqb k [104; 101; 97; 114; 116; 98; 101; 97; 116]).
  destruct (list_eqb N.eqb k [104; 101; 97; 114; 116; 98; 101; 97; 116]).
  - rewrite ext_parse16. unfold parse_res. destruct (parse_uint 65535 v); cbn -[enc_opts query_fold]; [rewrite ext_hb; apply IH|reflexivity].
  - change (v_beq (VBytes k) (VBytes [99; 104; 97; 110; 110; 101; 108; 95; 109; 97; 120])) with (list_eqb N.eqb k [99; 104; 97; 110; 110; 101; 108; 95; 109; 97; 120]).
    destruct (list_eqb N.eqb k [99; 104; 97; 110; 110; 101; 108; 95; 109; 97; 120]).
    + rewrite ext_parse16. unfold parse_res. destruct (parse_uint 65535 v); cbn -[enc_opts query_fold]; [rewrite ext_cm; apply IH|reflexivity].
    + change (v_beq (VBytes k) (VBytes [99; 111; 110; 110; 101; 99; 116; 105; 111; 110; 95; 116; 105; 109; 101; 111; 117; 116]))
        with (list_eqb N.eqb k [99; 111; 110; 110; 101; 99; 116; 105; 111; 110; 95; 116; 105; 109; 101; 111; 117; 116]).
      destruct (list_eqb N.eqb k [99; 111; 110; 110; 101; 99; 116; 105; 111; 110; 95; 116; 105; 109; 101; 111; 117; 116]).
      * rewrite ext_parse64. unfold parse_res. destruct (parse_uint 18446744073709551615 v); cbn -[enc_opts query_fold]; [rewrite ext_to; apply IH|reflexivity].
      * change (v_beq (VBytes k) (VBytes [97; 117; 116; 104; 95; 109; 101; 99; 104; 97; 110; 105; 115; 109]))
          with (list_eqb N.eqb k [97; 117; 116; 104; 95; 109; 101; 99; 104; 97; 110; 105; 115; 109]).
        destruct (list_eqb N.eqb k [97; 117; 116; 104; 95; 109; 101; 99; 104; 97; 110; 105; 115; 109]); [|reflexivity].
        change (v_beq (VBytes v) (VBytes [101; 120; 116; 101; 114; 110; 97; 108])) with (list_eqb N.eqb v [101; 120; 116; 101; 114; 110; 97; 108]).
        destruct (list_eqb N.eqb v [101; 120; 116; 101; 114; 110; 97; 108]); [|reflexivity].
        change (VC "Auth::External" []) with (enc_auth UExternal). rewrite ext_auth. apply IH.
Qed.

Lemma loop9_is_fold url path_segments_l recv_97_l vhost_l : forall q o,
  gen_decode_loop9 ext_model (map enc_pair q) (enc_opts o) path_segments_l recv_97_l url vhost_l = enc_result url (query_fold o q).
Proof.
  induction q as [|[k v] q IH]; intro o; [reflexivity|].
  cbn [map enc_pair fst snd query_fold gen_decode_loop9].
  cbn [String.eqb Ascii.eqb Bool.eqb].
  unfold bytes_eqb, k_heartbeat, k_channel_max, k_timeout, k_auth, s_external.
  change (v_beq (VBytes k) (VBytes [104; 101; 97; 114; 116; 98; 101; 97; 116])) with (list_eqb N.eqb k [104; 101; 97; 114; 116; 98; 101; 97; 116]).
  destruct (list_eqb N.eqb k [104; 101; 97; 114; 116; 98; 101; 97; 116]).
  - rewrite ext_parse16. unfold parse_res. destruct (parse_uint 65535 v); cbn -[enc_opts query_fold]; [rewrite ext_hb; apply IH|reflexivity].
  - change (v_beq (VBytes k) (VBytes [99; 104; 97; 110; 110; 101; 108; 95; 109; 97; 120])) with (list_eqb N.eqb k [99; 104; 97; 110; 110; 101; 108; 95; 109; 97; 120]).
    destruct (list_eqb N.eqb k [99; 104; 97; 110; 110; 101; 108; 95; 109; 97; 120]).
    + rewrite ext_parse16. unfold parse_res. destruct (parse_uint 65535 v); cbn -[enc_opts query_fold]; [rewrite ext_cm; apply IH|reflexivity].
    + change (v_beq (VBytes k) (VBytes [99; 111; 110; 110; 101; 99; 116; 105; 111; 110; 95; 116; 105; 109; 101; 111; 117; 116]))
        with (list_eqb N.eqb k [99; 111; 110; 110; 101; 99; 116; 105; 111; 110; 95; 116; 105; 109; 101; 111; 117; 116]).
      destruct (list_eqb N.eqb k [99; 111; 110; 110; 101; 99; 116; 105; 111; 110; 95; 116; 105; 109; 101; 111; 117; 116]).
      * rewrite ext_parse64. unfold parse_res. destruct (parse_uint 18446744073709551615 v); cbn -[enc_opts query_fold]; [rewrite ext_to; apply IH|reflexivity].
      * change (v_beq (VBytes k) (VBytes [97; 117; 116; 104; 95; 109; 101; 99; 104; 97; 110; 105; 115; 109]))
          with (list_eqb N.eqb k [97; 117; 116; 104; 95; 109; 101; 99; 104; 97; 110; 105; 115; 109]).
        destruct (list_eqb N.eqb k [97; 117; 116; 104; 95; 109; 101; 99; 104; 97; 110; 105; 115; 109]); [|reflexivity].
        change (v_beq (VBytes v) (VBytes [101; 120; 116; 101; 114; 110; 97; 108])) with (list_eqb N.eqb v [101; 120; 116; 101; 114; 110; 97; 108]).
        destruct (list_eqb N.eqb v [101; 120; 116; 101; 114; 110; 97; 108]); [|reflexivity].
        change (VC "Auth::External" []) with (enc_auth UExternal). rewrite ext_auth. apply IH.
Qed.

(* credentials: the step between the path and the query *)
Definition with_creds (u : surl) (o1 : uopts) : uopts :=
  match u_user u, u_pass u with
  | [], None => o1
  | user, pass =>
      set_auth o1 (UPlain (percent_decode (match user with [] => s_guest | _ => user end))
                          (percent_decode (match pass with Some p => p | None => s_guest end)))
  end.

(* THE MODEL IS THE SOURCE: every URL whose path has its first segment (the url crate guarantees
   it for every URL that has a path) *)
Ltac fin :=
  cbn [enc_ostr v_unwrap_or v_is_some String.eqb Ascii.eqb Bool.eqb]; rewrite ?ext_pd;
  repeat match goal with
         | |- context [VC "Auth::Plain" [VR [("username", VBytes ?a); ("password", VBytes ?b)]]] =>
             change (VC "Auth::Plain" [VR [("username", VBytes a); ("password", VBytes b)]]) with (enc_auth (UPlain a b))
         end;
  rewrite ?ext_auth;
  first [apply loop1_is_fold|apply loop2_is_fold|apply loop3_is_fold|apply loop4_is_fold|apply loop5_is_fold
        |apply loop6_is_fold|apply loop7_is_fold|apply loop8_is_fold|apply loop9_is_fold].

(* the credentials step, on whatever options the path left *)
Ltac creds u :=
  change (v_beq (VBytes (u_user u)) (VBytes [])) with (list_eqb N.eqb (u_user u) []);
  destruct (u_user u) as [|uc us]; destruct (u_pass u) as [pw|];
  cbn [list_eqb negb orb enc_ostr v_is_some String.eqb Ascii.eqb Bool.eqb];
  cbn [v_beq list_eqb N.eqb]; fin.

Theorem decode_source_is_model u :
  u_segments u <> Some [] ->
  gen_decode ext_model (enc_url u) = enc_result (enc_url u) (decode u).
Proof.
  intro Hseg. unfold gen_decode, decode. cbv beta zeta.
  rewrite ext_default, ext_segs, !ext_user, !ext_pass, !ext_query.
  cbn [v_items].
  destruct (u_segments u) as [[|v more]|] eqn:Es; [contradiction| |].
  - cbn [map v_next v_rest v_unwrap String.eqb Ascii.eqb Bool.eqb].
    change (v_beq (VBytes v) (VBytes [])) with (list_eqb N.eqb v []).
    destruct v as [|c v]; cbn [list_eqb negb];
      (destruct more as [|m2 more]; cbn [map v_next v_rest v_is_some String.eqb Ascii.eqb Bool.eqb]; [|reflexivity]).
    + creds u.
    + rewrite !ext_pd, !ext_vhost. creds u.
  - cbn [String.eqb Ascii.eqb Bool.eqb]. creds u.
Qed.
