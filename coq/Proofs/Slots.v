(* Proofs for C10: the ChannelSlots model refines the "set of open ids" spec. *)
From Amq Require Import Lib.Base Model.Slots Spec.Slots.

(* ---------- list helpers ---------- *)

Lemma memN_In x l : memN x l = true <-> In x l.
Proof.
  unfold memN. rewrite existsb_exists. split.
  - intros (y & Hin & E). apply N.eqb_eq in E. subst. exact Hin.
  - intro H. exists x. split; [exact H|apply N.eqb_refl].
Qed.

Lemma memN_false x l : memN x l = false <-> ~ In x l.
Proof.
  rewrite <- memN_In. destruct (memN x l); split; intro H; congruence.
Qed.

Lemma delN_In x y l : In y (delN x l) <-> In y l /\ y <> x.
Proof.
  unfold delN. rewrite filter_In. split; intros [H1 H2]; split; auto.
  - intro E. subst. rewrite N.eqb_refl in H2. discriminate.
  - apply negb_true_iff. apply N.eqb_neq. congruence.
Qed.

Lemma delN_NoDup x l : NoDup l -> NoDup (delN x l).
Proof. intro H. unfold delN. apply NoDup_filter. exact H. Qed.

Lemma iset_insert_In x y l : In y (iset_insert x l) <-> In y l \/ y = x.
Proof.
  unfold iset_insert. destruct (memN x l) eqn:E.
  - apply memN_In in E. split; [auto|]. intros [H|H]; [exact H|subst; exact E].
  - rewrite in_app_iff. simpl. split.
    + intros [H|[H|[]]]; auto.
    + intros [H|H]; auto.
Qed.

Lemma NoDup_snoc {A} (l : list A) x : NoDup l -> ~ In x l -> NoDup (l ++ [x]).
Proof.
  induction l as [|a l IH]; simpl; intros Hnd Hni.
  - constructor; [intros []|constructor].
  - inversion Hnd; subst. constructor.
    + rewrite in_app_iff. simpl. intros [H|[H|[]]]; [contradiction|]. subst. apply Hni. auto.
    + apply IH; auto.
Qed.

Lemma iset_insert_NoDup x l : NoDup l -> NoDup (iset_insert x l).
Proof.
  intro H. unfold iset_insert. destruct (memN x l) eqn:E; [exact H|].
  apply memN_false in E. apply NoDup_snoc; assumption.
Qed.

Lemma insert_sorted_In x y l : In y (insert_sorted x l) <-> y = x \/ In y l.
Proof.
  induction l as [|a l IH]; simpl.
  - split; intros [H|H]; auto.
  - destruct (x <=? a); simpl.
    + split; intros [H|H]; auto.
    + rewrite IH. split; intros H; tauto.
Qed.

Lemma sortN_In y l : In y (sortN l) <-> In y l.
Proof.
  induction l as [|a l IH]; simpl; [tauto|].
  rewrite insert_sorted_In, IH. split; intros [H|H]; auto.
Qed.

Lemma pop_last_some l x fr : pop_last l = Some (x, fr) -> l = fr ++ [x].
Proof.
  unfold pop_last. destruct (rev l) as [|y r] eqn:E; [discriminate|].
  intro H; inversion H; subst.
  rewrite <- (rev_involutive l), E. simpl. reflexivity.
Qed.

Lemma pop_last_none l : pop_last l = None -> l = [].
Proof.
  unfold pop_last. destruct (rev l) as [|y r] eqn:E; [|discriminate].
  intros _. rewrite <- (rev_involutive l), E. reflexivity.
Qed.

(* ---------- invariant ---------- *)

Record Inv0 (s : slots) : Prop := {
  i_nodup : NoDup (open_ids s);
  i_range : forall id, In id (open_ids s) -> 1 <= id /\ id <= cmax s;
  i_fnodup : NoDup (freed s);
  i_frange : forall id, In id (freed s) -> 1 <= id /\ id <= cmax s;
  i_disj : forall id, In id (open_ids s) -> ~ In id (freed s);
  i_max : cmax s <= 65535 }.

(* every id the never-used counter has passed is open or in the freed set *)
Definition Below (s : slots) : Prop :=
  forall id, 1 <= id -> id < next s -> In id (open_ids s) \/ In id (freed s).

Definition NextOk (s : slots) : Prop := 1 <= next s /\ next s <= cmax s + 1.

Definition Inv (s : slots) : Prop := Inv0 s /\ Below s /\ NextOk s.

Lemma Inv_new mx : mx <= 65535 -> Inv (new_slots mx).
Proof.
  intro H. split; [|split].
  - constructor; simpl; try tauto; try constructor; try lia.
  - intros id H1 H2. simpl in H2. lia.
  - unfold NextOk; simpl. lia.
Qed.

Definition same_set (a b : list N) : Prop := forall id, In id a <-> In id b.

(* what one step must establish *)
Definition step_ok (s : slots) (o : op) (r : res) (s' : slots) : Prop :=
  allowed (cmax s) (open_ids s) o r /\ Inv s' /\ cmax s' = cmax s /\
  same_set (open_ids s') (spec_next (open_ids s) o r).

Lemma occupy_ok s id :
  Inv0 s -> ~ In id (open_ids s) -> 1 <= id -> id <= cmax s ->
  (forall x, 1 <= x -> x < next s -> x <> id -> In x (open_ids s) \/ In x (freed s)) ->
  NextOk s ->
  occupy true id s =
    (ROk id, {| open_ids := id :: open_ids s; freed := delN id (freed s);
                next := next s; cmax := cmax s |}) /\
  Inv {| open_ids := id :: open_ids s; freed := delN id (freed s);
         next := next s; cmax := cmax s |}.
Proof.
  intros [Hnd Hr Hfnd Hfr Hd Hm] Hni H1 H2 Hbel Hn.
  split; [reflexivity|]. split; [|split].
  - constructor; simpl; auto.
    + constructor; assumption.
    + intros x [<-|Hx]; auto.
    + apply delN_NoDup. assumption.
    + intros x Hx. apply delN_In in Hx as [Hx _]. auto.
    + intros x [<-|Hx]; rewrite delN_In.
      * intros [_ E]. congruence.
      * intros [Hf _]. exact (Hd x Hx Hf).
  - intros x Hx1 Hx2. simpl in *. destruct (N.eq_dec x id) as [->|Hne]; [auto|].
    destruct (Hbel x Hx1 Hx2 Hne) as [H|H]; [auto|].
    right. apply delN_In. auto.
  - exact Hn.
Qed.

Lemma insert_some_ok s id :
  Inv s -> let '(r, s') := insert_some true id s in step_ok s (OpenSome id) r s'.
Proof.
  intros HI. pose proof HI as (HI0 & HB & HN). unfold insert_some.
  destruct ((id =? 0) || (cmax s <? id)) eqn:E1.
  - unfold step_ok; simpl. split; [|split; [exact HI|split; [reflexivity|intro; tauto]]].
    right. split; [|reflexivity]. intros [[H1 H2] _].
    apply orb_true_iff in E1 as [E|E]; [apply N.eqb_eq in E|apply N.ltb_lt in E]; lia.
  - apply orb_false_iff in E1 as [Ea Eb]. apply N.eqb_neq in Ea. apply N.ltb_ge in Eb.
    destruct (memN id (open_ids s)) eqn:E2.
    + apply memN_In in E2.
      unfold step_ok; simpl. split; [|split; [exact HI|split; [reflexivity|intro; tauto]]].
      right. split; [|reflexivity]. intros [_ H]. contradiction.
    + apply memN_false in E2.
      destruct (@occupy_ok s id HI0 E2) as [Eo HI']; try lia; auto.
      rewrite Eo. unfold step_ok; simpl.
      split; [|split; [exact HI'|split; [reflexivity|intro x; tauto]]].
      left. unfold in_range. repeat split; auto; lia.
Qed.

Definition bump (s : slots) : slots :=
  {| open_ids := open_ids s; freed := freed s; next := next s + 1; cmax := cmax s |}.

Definition geN (x y : N) : bool := x <=? y.

Definition above (s : slots) : nat := length (filter (geN (next s)) (open_ids s)).

Lemma filter_above_le (x : N) l :
  (length (filter (geN (x + 1)) l) <= length (filter (geN x) l))%nat.
Proof.
  induction l as [|b l IH]; simpl; [lia|].
  destruct (geN (x + 1) b) eqn:E1; destruct (geN x b) eqn:E2; simpl; try lia.
  unfold geN in E1, E2. apply N.leb_le in E1. apply N.leb_gt in E2. lia.
Qed.

Lemma filter_above_lt (x : N) l :
  In x l -> (length (filter (geN (x + 1)) l) < length (filter (geN x) l))%nat.
Proof.
  induction l as [|a l IH]; simpl; [tauto|].
  intros [->|Hin].
  - replace (geN (x + 1) x) with false by (symmetry; apply N.leb_gt; lia).
    replace (geN x x) with true by (symmetry; apply N.leb_refl).
    simpl. pose proof (filter_above_le x l). lia.
  - specialize (IH Hin).
    destruct (geN (x + 1) a) eqn:E1; destruct (geN x a) eqn:E2; simpl; try lia.
    unfold geN in E1, E2. apply N.leb_le in E1. apply N.leb_gt in E2. lia.
Qed.

Lemma above_le s : (above s <= length (open_ids s))%nat.
Proof.
  unfold above. induction (open_ids s) as [|a l IH]; simpl; [lia|].
  destruct (geN (next s) a); simpl; lia.
Qed.

(* the counter loop *)
Lemma scan_ok fuel : forall s,
  Inv s -> (above s < fuel)%nat ->
  match scan fuel true s with
  | (Some r, s') =>
      exists id, r = ROk id /\ 1 <= id /\ id <= cmax s /\ ~ In id (open_ids s) /\
                 Inv s' /\ cmax s' = cmax s /\ open_ids s' = id :: open_ids s
  | (None, s1) =>
      Inv s1 /\ cmax s1 = cmax s /\ open_ids s1 = open_ids s /\ freed s1 = freed s /\
      next s1 = cmax s + 1
  end.
Proof.
  induction fuel as [|f IH]; intros s HI Hfuel; [lia|].
  pose proof HI as (HI0 & HB & [HN1 HN2]).
  simpl. destruct (next s <=? cmax s) eqn:E1.
  - apply N.leb_le in E1. fold (bump s).
    destruct (memN (next s) (open_ids s)) eqn:E2.
    + apply memN_In in E2.
      assert (HIb : Inv (bump s)).
      { split; [|split].
        - destruct HI0. constructor; simpl; auto.
        - intros x Hx1 Hx2. simpl in *. destruct (N.eq_dec x (next s)) as [->|Hne]; [auto|].
          apply HB; lia.
        - unfold NextOk; simpl. lia. }
      assert (Hab : (above (bump s) < f)%nat).
      { unfold above in *. simpl. pose proof (filter_above_lt E2). lia. }
      specialize (IH (bump s) HIb Hab).
      destruct (scan f true (bump s)) as [[r|] s']; simpl in *; exact IH.
    + apply memN_false in E2.
      assert (HI0b : Inv0 (bump s)) by (destruct HI0; constructor; simpl; auto).
      destruct (@occupy_ok (bump s) (next s) HI0b) as [Eo HI']; simpl; auto; try lia.
      { intros x Hx1 Hx2 Hne. apply HB; lia. }
      { unfold NextOk; simpl. lia. }
      clear Eo. simpl in HI'. exists (next s).
      split; [reflexivity|]. split; [lia|]. split; [lia|]. split; [exact E2|].
      split; [exact HI'|]. split; reflexivity.
  - apply N.leb_gt in E1. split; [exact HI|]. repeat split; auto; lia.
Qed.

Lemma insert_none_ok s :
  Inv s -> let '(r, s') := insert_none true s in step_ok s OpenNone r s'.
Proof.
  intros HI. unfold insert_none.
  assert (Hf : (above s < scan_fuel s)%nat).
  { unfold scan_fuel. pose proof (above_le s). lia. }
  pose proof (scan_ok HI Hf) as Hs.
  destruct (scan (scan_fuel s) true s) as [[r|] s1].
  - destruct Hs as (id & -> & H1 & H2 & Hni & HI' & Hc & Ho).
    unfold step_ok; simpl.
    split; [|split; [exact HI'|split; [exact Hc|rewrite Ho; intro x; tauto]]].
    left. exists id. unfold in_range. auto.
  - destruct Hs as (HI1 & Hc & Ho & Hfr & Hnx).
    pose proof HI1 as (HI0 & HB & HN).
    destruct (pop_last (freed s1)) as [[id fr]|] eqn:Ep.
    + apply pop_last_some in Ep.
      assert (Hin : In id (freed s1)) by (rewrite Ep; apply in_or_app; simpl; auto).
      assert (Hni : ~ In id (open_ids s1)).
      { intro H. exact (i_disj HI0 H Hin). }
      cbn [open_ids]. apply memN_false in Hni as Hm. rewrite Hm.
      set (s2 := {| open_ids := open_ids s1; freed := fr; next := next s1; cmax := cmax s1 |}).
      destruct (i_frange HI0 Hin) as [Hr1 Hr2].
      assert (Hnd : NoDup (fr ++ [id])) by (rewrite <- Ep; apply (i_fnodup HI0)).
      assert (Hnifr : ~ In id fr).
      { apply NoDup_remove_2 in Hnd. rewrite app_nil_r in Hnd. exact Hnd. }
      assert (HI0' : Inv0 s2).
      { destruct HI0 as [Hnd0 Hr Hfnd Hfr' Hd Hm0]. constructor; simpl; auto.
        - apply NoDup_remove_1 in Hnd. rewrite app_nil_r in Hnd. exact Hnd.
        - intros x Hx. apply Hfr'. rewrite Ep. apply in_or_app; auto.
        - intros x Hx Hxf. apply (Hd x Hx). rewrite Ep. apply in_or_app; auto. }
      destruct (@occupy_ok s2 id HI0') as [Eo HI']; simpl; auto.
      { intros x Hx1 Hx2 Hne. destruct (HB x Hx1 Hx2) as [H|H]; [auto|].
        right. rewrite Ep in H. apply in_app_or in H as [H|[H|[]]]; [exact H|congruence]. }
      clear Eo. subst s2. simpl in HI'. unfold step_ok; simpl.
      split; [|split; [exact HI'|split; [exact Hc|rewrite Ho; intro x; tauto]]].
      left. exists id. rewrite <- Ho. unfold in_range. repeat split; auto; lia.
    + apply pop_last_none in Ep.
      unfold step_ok; simpl.
      split; [|split; [exact HI1|split; [exact Hc|rewrite Ho; intro x; tauto]]].
      right. split; [reflexivity|]. intros id [H1 H2].
      destruct (HB id H1) as [H|H]; [lia| |].
      * rewrite <- Ho. exact H.
      * rewrite Ep in H. destruct H.
Qed.

Lemma remove_ok s id :
  Inv s -> let '(r, s') := remove id s in step_ok s (Close id) r s'.
Proof.
  intros HI. pose proof HI as (HI0 & HB & HN). unfold remove.
  destruct (memN id (open_ids s)) eqn:E.
  - apply memN_In in E. unfold step_ok; simpl. split; [|split; [|split]].
    + destruct (in_dec N.eq_dec id (open_ids s)); [reflexivity|contradiction].
    + destruct HI0 as [Hnd Hr Hfnd Hfr Hd Hm]. split; [|split].
      * constructor; simpl; auto.
        -- apply delN_NoDup. assumption.
        -- intros x Hx. apply delN_In in Hx as [Hx _]. auto.
        -- apply iset_insert_NoDup. assumption.
        -- intros x Hx. apply iset_insert_In in Hx as [Hx| ->]; auto.
        -- intros x Hx Hxf. apply delN_In in Hx as [Hx Hne].
           apply iset_insert_In in Hxf as [Hxf|Hxf]; [exact (Hd x Hx Hxf)|contradiction].
      * intros x Hx1 Hx2. simpl in *. rewrite delN_In, iset_insert_In.
        destruct (N.eq_dec x id) as [->|Hne]; [auto|].
        destruct (HB x Hx1 Hx2); auto.
      * exact HN.
    + reflexivity.
    + intro x. unfold delN. reflexivity.
  - apply memN_false in E. unfold step_ok; simpl. split; [|split; [exact HI|split; [reflexivity|]]].
    + destruct (in_dec N.eq_dec id (open_ids s)); [contradiction|reflexivity].
    + intro x. rewrite filter_In. split; [|tauto]. intro H. split; [exact H|].
      apply negb_true_iff. apply N.eqb_neq. intro E'. subst. contradiction.
Qed.

Lemma fold_iset_In ids : forall fr y,
  In y (fold_left (fun fr id => iset_insert id fr) ids fr) <-> In y fr \/ In y ids.
Proof.
  induction ids as [|a ids IH]; intros fr y; simpl; [tauto|].
  rewrite IH, iset_insert_In. split; intros H; intuition auto.
Qed.

Lemma fold_iset_NoDup ids : forall fr,
  NoDup fr -> NoDup (fold_left (fun fr id => iset_insert id fr) ids fr).
Proof.
  induction ids as [|a ids IH]; intros fr H; simpl; [exact H|].
  apply IH. apply iset_insert_NoDup. exact H.
Qed.

Lemma drain_ok s :
  Inv s -> let '(r, s') := drain s in step_ok s Drain r s'.
Proof.
  intros HI. pose proof HI as (HI0 & HB & HN). unfold drain, step_ok; simpl.
  split; [|split; [|split]].
  - exists (sortN (open_ids s)). split; [reflexivity|]. intro id. apply sortN_In.
  - destruct HI0 as [Hnd Hr Hfnd Hfr Hd Hm]. split; [|split].
    + constructor; simpl; auto.
      * constructor.
      * intros x [].
      * apply fold_iset_NoDup. assumption.
      * intros x Hx. apply fold_iset_In in Hx as [Hx|Hx]; auto.
        apply (proj1 (sortN_In x (open_ids s))) in Hx. auto.
    + intros x Hx1 Hx2. simpl in *. right. apply fold_iset_In.
      destruct (HB x Hx1 Hx2) as [H|H]; auto. right.
      apply (proj2 (sortN_In x (open_ids s))). exact H.
    + exact HN.
  - reflexivity.
  - intro x. tauto.
Qed.

Definition is_fail_op (o : op) : bool :=
  match o with FailSome _ | FailNone => true | _ => false end.

(* C10, one step: from every state satisfying the invariant, every operation
   (registration succeeding) yields a result the specification allows for the current
   set of open ids, re-establishes the invariant and updates the set as specified. *)
Theorem step_refines s o :
  Inv s -> is_fail_op o = false ->
  let '(r, s') := step s o in step_ok s o r s'.
Proof.
  intros HI Hnf. destruct o; simpl in *; try discriminate.
  - apply insert_some_ok. exact HI.
  - apply insert_none_ok. exact HI.
  - apply remove_ok. exact HI.
  - apply drain_ok. exact HI.
Qed.

(* allowed depends on the set of open ids only through membership *)
Lemma allowed_ext mx a b o r : same_set a b -> allowed mx a o r -> allowed mx b o r.
Proof.
  intros Hs. unfold same_set in Hs. destruct o; simpl; auto.
  - intros [(H1 & H2 & H3)|(H1 & H2)]; [left|right].
    + split; [exact H1|split; [|exact H3]]. intro Hb. apply H2. apply Hs. exact Hb.
    + split; [|exact H2].
      intros [Ha Hb]. apply H1. split; auto. intro Hx. apply Hb. apply Hs. exact Hx.
  - intros [(id & H1 & H2 & H3)|(H1 & H2)]; [left|right].
    + exists id. split; [exact H1|split; [exact H2|]]. intro Hb. apply H3. apply Hs. exact Hb.
    + split; auto. intros id Hr. apply Hs. auto.
  - intros ->. f_equal.
    destruct (in_dec N.eq_dec id a) as [Ha|Ha]; destruct (in_dec N.eq_dec id b) as [Hb|Hb];
      auto; exfalso; [apply Hb; apply Hs; exact Ha|apply Ha; apply Hs; exact Hb].
  - intros (ids & -> & H). exists ids. split; auto. intro id.
    split; intro Hx; [apply Hs; apply H; exact Hx|apply H; apply Hs; exact Hx].
Qed.

Lemma spec_next_ext a b o r : same_set a b -> same_set (spec_next a o r) (spec_next b o r).
Proof.
  intros Hs id. unfold same_set in Hs.
  destruct o; destruct r; simpl; try apply Hs; try tauto;
    try (rewrite !filter_In, Hs; tauto); try (rewrite Hs; tauto).
Qed.

(* C10, every finite sequence: all results are allowed by the abstract specification *)
Theorem run_refines ops : forall s opn,
  Inv s -> same_set (open_ids s) opn -> forallb (fun o => negb (is_fail_op o)) ops = true ->
  let '(rs, s') := run s ops in
  allowed_run (cmax s) opn ops rs /\ Inv s'.
Proof.
  induction ops as [|o ops IH]; intros s opn HI Hs Hnf; simpl.
  - auto.
  - simpl in Hnf. apply andb_true_iff in Hnf as [Hnf1 Hnf2].
    apply negb_true_iff in Hnf1.
    pose proof (@step_refines s o HI Hnf1) as Hst.
    destruct (step s o) as [r s1].
    destruct Hst as (Hal & HI1 & Hc & Hss).
    assert (Hs1 : same_set (open_ids s1) (spec_next opn o r)).
    { intro id. rewrite (Hss id). apply spec_next_ext. exact Hs. }
    specialize (IH s1 (spec_next opn o r) HI1 Hs1 Hnf2).
    destruct (run s1 ops) as [rs s2]. destruct IH as [IHa IHb].
    split; [|exact IHb]. split.
    + eapply allowed_ext; eauto.
    + rewrite <- Hc. exact IHa.
Qed.

(* consequences spelled out: no panic, no fuel exhaustion, never id 0, never above max *)
Lemma allowed_no_panic mx opn o r : allowed mx opn o r -> r <> RPanic /\ r <> RFuel /\
  (forall id, r = ROk id -> in_range mx id /\ ~ In id opn).
Proof.
  destruct o; simpl.
  - intros [(H1 & H2 & ->)|(H1 & ->)]; (split; [discriminate|split; [discriminate|]]).
    + intros id' E; inversion E; subst. auto.
    + intros id' E; discriminate.
  - intros [(id & -> & H2 & H3)|(-> & H)]; (split; [discriminate|split; [discriminate|]]).
    + intros id' E; inversion E; subst; auto.
    + intros id' E; discriminate.
  - intros [].
  - intros [].
  - intros ->. split; [discriminate|split; [discriminate|]]. intros id' E; discriminate.
  - intros (ids & -> & _). split; [discriminate|split; [discriminate|]]. intros id' E; discriminate.
Qed.

(* the u32 counter never leaves [1, 65536] *)
Lemma Inv_counter s : Inv s -> 1 <= next s /\ next s <= 65536.
Proof. intros (HI0 & _ & [H1 H2]). pose proof (i_max HI0). lia. Qed.
