(* Connection::close_impl AS TRANSLATED FROM THE SOURCE on every run (Gen/SrcClose.v, by
   tools/rs2sm.py from src/connection.rs) is the model's close_impl (Model/Close.v) that
   C05_close_reports_root_cause / C08's and C20's statements about what close() returns are about:
   the request goes out first, the thread is joined, what the thread ended with takes precedence
   over what the request returned; a second call (Drop after close) does nothing.
   Stdlib only, no axioms. *)
From Coq Require Import String.
From Amq Require Import Lib.Base Lib.RsVal Model.Close Gen.SrcClose.
Open Scope string_scope.
Open Scope N_scope.

Definition enc_bool (b : bool) : val := VC (if b then "true" else "false") [].
Definition enc_req (r : req_res) : val :=
  match r with ReqOk => VC "Ok" [VC "()" []] | ReqErr e => VC "Err" [VO e] end.
(* JoinHandle::join(): Err(panic payload) or Ok(what run_connection returned) *)
Definition enc_io (i : io_end) : val :=
  match i with
  | IoOk => VC "Ok" [VC "Ok" [VC "()" []]]
  | IoErr e => VC "Ok" [VC "Err" [VO e]]
  | IoPanic => VC "Err" [VC "panic" []]
  end.
Definition enc_res (r : close_res) : val :=
  match r with
  | COk => VC "Ok" [VC "()" []]
  | CErr e => VC "Err" [VO e]
  | CIoThreadPanic => VC "Err" [VC "Error::IoThreadPanic" []]
  end.

(* the connection: whether it still holds the join handle, whether the close request was sent *)
Definition enc_self (have : bool) (sent : bool) : val :=
  VR [("join_handle", if have then VC "Some" [VC "handle" []] else VC "None" []); ("sent", enc_bool sent)].

(* Channel0Handle::close_connection (the request and its outcome), JoinHandle::join *)
Definition ext_st_model (req : req_res) (io : io_end) (name : string) (args : list val) (self : val) : val * val :=
  if (name =? "channel0.close_connection")%string then (v_set "sent" (enc_bool true) self, enc_req req)
  else if (name =? "join_handle.join")%string then (self, enc_io io)
  else (self, VStuck).

Theorem close_source_is_model have req io :
  gen_Connection_close_impl (ext_st_model req io) (enc_self have false)
  = (enc_self false (snd (close_impl have req io)), enc_res (fst (close_impl have req io))).
Proof. destruct have, req, io; reflexivity. Qed.
