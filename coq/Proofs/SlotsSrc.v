(* ChannelSlots::{insert, insert_unused_channel_id, remove} AS TRANSLATED FROM THE SOURCE on every
   run (Gen/SrcSlots.v, by tools/rs2sm.py from src/io_loop/channel_slots.rs) are the hand-written
   model (Model/Slots.v: insert_some / insert_none / remove) that C10's refinement theorems are
   about: for every table state with channel_max <= 65535, every requested id, make_entry
   succeeding or failing.  Stdlib only, no axioms. *)
From Coq Require Import String.
From Amq Require Import Lib.Base Lib.RsVal Model.Slots Spec.Slots Proofs.Slots Gen.SrcSlots.
Open Scope string_scope.
Open Scope N_scope.

Definition enc_ids (l : list N) : list val := map VN l.

(* ChannelSlots { slots, freed_channel_ids, next_channel_id, channel_max } *)
Definition enc (s : slots) : val :=
  VR [("slots", VC "HashMap" (enc_ids (open_ids s))); ("freed_channel_ids", VC "IndexSet" (enc_ids (freed s)));
      ("next_channel_id", VN (next s)); ("channel_max", VN (cmax s))].

Definition dec_ids (l : list val) : list N := flat_map (fun v => match v with VN x => [x] | _ => [] end) l.
Lemma dec_enc l : dec_ids (enc_ids l) = l.
Proof. unfold enc_ids. induction l as [|x l IH]; [reflexivity|]. cbn. f_equal. exact IH. Qed.

Definition ids_of (f : string) (self : val) : list N :=
  match v_field f self with VC _ l => dec_ids l | _ => [] end.
Definition set_ids (f c : string) (l : list N) (self : val) : val := v_set f (VC c (enc_ids l)) self.

(* HashMap<u16, T> (keys only), its Entry, IndexSet<u16> - as the code uses them *)
Definition ext_st_model (name : string) (args : list val) (self : val) : val * val :=
  let open := ids_of "slots" self in
  let fr := ids_of "freed_channel_ids" self in
  match args with
  | [VN id] =>
      if (name =? "slots.remove")%string then
        if memN id open then (set_ids "slots" "HashMap" (delN id open) self, VC "Some" [VC "slot" [VN id]])
        else (self, VC "None" [])
      else if (name =? "slots.entry")%string then
        (self, VC (if memN id open then "Entry::Occupied" else "Entry::Vacant") [VN id])
      else if (name =? "freed_channel_ids.insert")%string then
        (set_ids "freed_channel_ids" "IndexSet" (iset_insert id fr) self, VC "bool" [])
      else if (name =? "freed_channel_ids.shift_remove")%string then
        (set_ids "freed_channel_ids" "IndexSet" (delN id fr) self, VC "bool" [])
      else (self, VStuck)
  | [VN id; _] =>
      if (name =? "entry.insert")%string then (set_ids "slots" "HashMap" (id :: open) self, VC "()" [])
      else (self, VStuck)
  | [] =>
      if (name =? "freed_channel_ids.pop")%string then
        match pop_last fr with
        | Some (id, fr') => (set_ids "freed_channel_ids" "IndexSet" fr' self, VC "Some" [VN id])
        | None => (self, VC "None" [])
        end
      else (self, VStuck)
  | _ => (self, VStuck)
  end.

(* make_entry(id): the slot and what insert hands back, or an error (mio registration failed) *)
Definition ext_model (ok : bool) (name : string) (args : list val) : val :=
  match args with
  | [VN id] => if ok then VC "Ok" [VC "tuple" [VC "slot" [VN id]; VC "handle" [VN id]]] else VC "Err" [VC "Error::Io" []]
  | _ => VStuck
  end.

Definition enc_res (r : res) : val :=
  match r with
  | ROk id => VC "Ok" [VC "handle" [VN id]]
  | RUnavailable id => VC "Err" [VC "Error::UnavailableChannelId" [VN id]]
  | RExhausted => VC "Err" [VC "Error::ExhaustedChannelIds" []]
  | RMakeEntryFailed => VC "Err" [VC "Error::Io" []]
  | RPanic => VC "Panic" []
  | _ => VStuck
  end.

Lemma ids_slots s : ids_of "slots" (enc s) = open_ids s.
Proof. unfold ids_of. cbn. apply dec_enc. Qed.
Lemma ids_freed s : ids_of "freed_channel_ids" (enc s) = freed s.
Proof. unfold ids_of. cbn. apply dec_enc. Qed.

Theorem remove_source_is_model id s :
  gen_ChannelSlots_remove ext_st_model (enc s) (VN id)
  = (enc (snd (remove id s)),
     match fst (remove id s) with RRemoved true => VC "Some" [VC "slot" [VN id]] | _ => VC "None" [] end).
Proof.
  unfold gen_ChannelSlots_remove, remove.
  unfold ext_st_model at 1. rewrite ids_slots. cbn [String.eqb Ascii.eqb Bool.eqb].
  destruct (memN id (open_ids s)) eqn:E; [|reflexivity].
  cbn iota beta.
  unfold ext_st_model. unfold set_ids at 2. unfold ids_of.
  cbn -[memN delN iset_insert]. rewrite !dec_enc. reflexivity.
Qed.

(* ---- the externals on an encoded table ---- *)
Definition with_open (s : slots) (l : list N) : slots := {| open_ids := l; freed := freed s; next := next s; cmax := cmax s |}.
Definition with_freed (s : slots) (l : list N) : slots := {| open_ids := open_ids s; freed := l; next := next s; cmax := cmax s |}.
Definition with_next (s : slots) (n : N) : slots := {| open_ids := open_ids s; freed := freed s; next := n; cmax := cmax s |}.

Lemma st_entry id s :
  ext_st_model "slots.entry" [VN id] (enc s)
  = (enc s, VC (if memN id (open_ids s) then "Entry::Occupied" else "Entry::Vacant") [VN id]).
Proof. unfold ext_st_model. rewrite ids_slots. reflexivity. Qed.

Lemma st_entry_insert id t s :
  ext_st_model "entry.insert" [VN id; t] (enc s) = (enc (with_open s (id :: open_ids s)), VC "()" []).
Proof. unfold ext_st_model. rewrite ids_slots. reflexivity. Qed.

Lemma st_shift_remove id s :
  ext_st_model "freed_channel_ids.shift_remove" [VN id] (enc s) = (enc (with_freed s (delN id (freed s))), VC "bool" []).
Proof. unfold ext_st_model. rewrite ids_freed. reflexivity. Qed.

Lemma st_pop s :
  ext_st_model "freed_channel_ids.pop" [] (enc s)
  = match pop_last (freed s) with
    | Some (id, fr') => (enc (with_freed s fr'), VC "Some" [VN id])
    | None => (enc s, VC "None" [])
    end.
Proof. unfold ext_st_model. rewrite ids_freed. destruct (pop_last (freed s)) as [[id fr']|]; reflexivity. Qed.

Lemma enc_next s n : v_set "next_channel_id" (VN n) (enc s) = enc (with_next s n).
Proof. reflexivity. Qed.

Opaque ext_st_model.

(* insert(Some(id), make_entry) *)
Theorem insert_some_source_is_model ok id s fuel me :
  gen_ChannelSlots_insert (ext_model ok) ext_st_model fuel (enc s) (VC "Some" [VN id]) me
  = (enc (snd (insert_some ok id s)), enc_res (fst (insert_some ok id s))).
Proof.
  unfold gen_ChannelSlots_insert, insert_some. cbn -[N.eqb N.ltb enc].
  change (v_eqb (VN id) (VN 0)) with (id =? 0).
  change (v_ltb (v_field "channel_max" (enc s)) (VN id)) with (cmax s <? id).
  destruct ((id =? 0) || (cmax s <? id)); [reflexivity|].
  rewrite st_entry. destruct (memN id (open_ids s)) eqn:E; cbn -[enc]; [reflexivity|].
  unfold occupy. destruct ok; cbn -[enc]; [|reflexivity].
  rewrite st_entry_insert. cbn -[enc]. rewrite st_shift_remove. reflexivity.
Qed.

(* ---- insert(None, make_entry): the counter loop, then the freed set ---- *)

(* what follows the loop: pop the most recently freed id *)
Definition finish (ok : bool) (s1 : slots) : res * slots :=
  match pop_last (freed s1) with
  | None => (RExhausted, s1)
  | Some (id, fr) =>
      let s2 := with_freed s1 fr in
      if memN id (open_ids s2) then (RPanic, s2) else occupy ok id s2
  end.

Definition insert_none_from (fuel : nat) (ok : bool) (s : slots) : res * slots :=
  match scan fuel ok s with
  | (Some r, s') => (r, s')
  | (None, s1) => finish ok s1
  end.

Lemma insert_none_is_from ok s : insert_none ok s = insert_none_from (scan_fuel s) ok s.
Proof. reflexivity. Qed.

Lemma pop_last_spec l x r : pop_last l = Some (x, r) -> l = (r ++ [x])%list.
Proof.
  unfold pop_last. destruct (rev l) as [|y t] eqn:E; [discriminate|]. intro H; inversion H; subst.
  rewrite <- (rev_involutive l), E. reflexivity.
Qed.

Lemma delN_notin x l : ~ In x l -> delN x l = l.
Proof.
  induction l as [|y l IH]; intro H; [reflexivity|]. cbn.
  destruct (N.eqb_spec x y) as [->|Hne]; [exfalso; apply H; left; reflexivity|].
  cbn. f_equal. apply IH. intro Hin. apply H. right. exact Hin.
Qed.

Lemma popped_not_left l x r : NoDup l -> pop_last l = Some (x, r) -> delN x r = r.
Proof.
  intros Hnd Hp. apply pop_last_spec in Hp. subst l. apply delN_notin.
  apply NoDup_remove_2 in Hnd. rewrite app_nil_r in Hnd. exact Hnd.
Qed.

Lemma loop_source_is_model ok me : forall fuel s,
  cmax s <= 65535 -> NoDup (freed s) -> fst (scan fuel ok s) <> Some RFuel ->
  gen_ChannelSlots_insert_unused_channel_id_loop1 (ext_model ok) ext_st_model fuel (enc s) me
  = (enc (snd (insert_none_from fuel ok s)), enc_res (fst (insert_none_from fuel ok s))).
Proof.
  induction fuel as [|fuel IH]; intros s Hmax Hnd Hf; [exfalso; apply Hf; reflexivity|].
  unfold insert_none_from in *. cbn [scan] in *. cbn [gen_ChannelSlots_insert_unused_channel_id_loop1].
  change (v_ltb (v_field "channel_max" (enc s)) (v_field "next_channel_id" (enc s))) with (cmax s <? next s).
  rewrite <- N.leb_antisym.
  destruct (next s <=? cmax s) eqn:E.
  - apply N.leb_le in E.
    change (v_u16 (v_field "next_channel_id" (enc s))) with (VN (next s mod 65536)).
    rewrite (N.mod_small (next s) 65536) by lia.
    change (v_add (v_field "next_channel_id" (enc s)) (VN 1)) with (VN (next s + 1)).
    rewrite enc_next, st_entry. cbn [open_ids with_next].
    set (s' := {| open_ids := open_ids s; freed := freed s; next := next s + 1; cmax := cmax s |}) in *.
    change (with_next s (next s + 1)) with s'.
    destruct (memN (next s) (open_ids s)) eqn:Em.
    + cbn -[enc]. apply IH; [exact Hmax|exact Hnd|exact Hf].
    + cbn -[enc]. unfold occupy. destruct ok; cbn -[enc]; [|reflexivity].
      rewrite st_entry_insert. cbn -[enc]. rewrite st_shift_remove. reflexivity.
  - (* the counter is exhausted: the freed set *)
    unfold finish. rewrite st_pop.
    destruct (pop_last (freed s)) as [[id fr]|] eqn:Ep; [|reflexivity].
    cbn -[enc memN]. rewrite st_entry. cbv zeta. cbn [open_ids with_freed].
    destruct (memN id (open_ids s)) eqn:Em; cbn -[enc]; [reflexivity|].
    unfold occupy. destruct ok; cbn -[enc]; [|reflexivity].
    rewrite st_entry_insert. cbn -[enc delN]. cbn [freed with_freed].
    pose proof (popped_not_left Hnd Ep) as Hd. unfold delN in Hd. rewrite Hd. reflexivity.
Qed.

(* insert(None, make_entry) *)
Theorem insert_none_source_is_model ok s me :
  cmax s <= 65535 -> NoDup (freed s) -> fst (scan (scan_fuel s) ok s) <> Some RFuel ->
  gen_ChannelSlots_insert (ext_model ok) ext_st_model (scan_fuel s) (enc s) (VC "None" []) me
  = (enc (snd (insert_none ok s)), enc_res (fst (insert_none ok s))).
Proof.
  intros Hmax Hnd Hf. rewrite insert_none_is_from.
  unfold gen_ChannelSlots_insert. cbn -[enc scan_fuel insert_none_from].
  unfold gen_ChannelSlots_insert_unused_channel_id.
  rewrite (loop_source_is_model me Hmax Hnd Hf). reflexivity.
Qed.

(* ... in every state satisfying the invariant of the table (C10's Inv: reachable states do), with
   make_entry succeeding, without side conditions: the fuel scan_fuel is enough *)
Corollary insert_none_source_inv s me :
  Inv s ->
  gen_ChannelSlots_insert (ext_model true) ext_st_model (scan_fuel s) (enc s) (VC "None" []) me
  = (enc (snd (insert_none true s)), enc_res (fst (insert_none true s))).
Proof.
  intro HI. pose proof HI as (HI0 & _ & _).
  apply insert_none_source_is_model; [apply (i_max HI0)|apply (i_fnodup HI0)|].
  assert (Hf : (above s < scan_fuel s)%nat) by (unfold scan_fuel; pose proof (above_le s); lia).
  pose proof (scan_ok HI Hf) as H.
  destruct (scan (scan_fuel s) true s) as [[r|] s1]; cbn [fst]; [|discriminate].
  destruct H as (id & -> & _). discriminate.
Qed.

(* ---- every sequence of open(Some) / open(None) / close, from any state satisfying the invariant ---- *)
Definition is_open_close (o : op) : bool :=
  match o with OpenSome _ | OpenNone | Close _ => true | _ => false end.

(* enough fuel for the counter loop, read off the table itself *)
Definition gfuel (self : val) : nat := S (S (length (ids_of "slots" self))).

Definition gstep (me self : val) (o : op) : val * val :=
  match o with
  | OpenSome id => gen_ChannelSlots_insert (ext_model true) ext_st_model (gfuel self) self (VC "Some" [VN id]) me
  | OpenNone => gen_ChannelSlots_insert (ext_model true) ext_st_model (gfuel self) self (VC "None" []) me
  | Close id => gen_ChannelSlots_remove ext_st_model self (VN id)
  | _ => (self, VStuck)
  end.

Fixpoint grun (me self : val) (ops : list op) : list val * val :=
  match ops with
  | [] => ([], self)
  | o :: ops' => let '(self', r) := gstep me self o in
                 let '(rs, self'') := grun me self' ops' in (r :: rs, self'')
  end.

(* what the API hands back for the model's result *)
Definition enc_step_res (o : op) (r : res) : val :=
  match o, r with
  | Close id, RRemoved true => VC "Some" [VC "slot" [VN id]]
  | Close _, _ => VC "None" []
  | _, _ => enc_res r
  end.

(* C10 AS A THEOREM ABOUT THE TRANSLATED CODE: any sequence of opens and closes run through the
   translated insert / remove, from any table satisfying the invariant, gives result by result
   what the model gives and ends in the model's table - so everything C10_run states (each result
   allowed by the abstract id set, no panic, termination of the counter loop) holds of it *)
Theorem run_source_is_model me : forall ops s,
  Inv s -> forallb is_open_close ops = true ->
  grun me (enc s) ops = (map (fun '(o, r) => enc_step_res o r) (combine ops (fst (run s ops))), enc (snd (run s ops))).
Proof.
  induction ops as [|o ops IH]; intros s HI Hops; [reflexivity|].
  cbn [forallb] in Hops. apply andb_true_iff in Hops as [Ho Hops].
  assert (Hnf : is_fail_op o = false) by (destruct o; cbn in Ho |- *; congruence).
  pose proof (@step_refines s o HI Hnf) as Hstep.
  cbn [grun run].
  assert (Hg : gstep me (enc s) o = (enc (snd (step s o)), enc_step_res o (fst (step s o)))).
  { destruct o as [id| |id| |id|]; try discriminate; cbn [gstep step].
    - apply insert_some_source_is_model.
    - unfold gfuel. rewrite ids_slots. apply insert_none_source_inv. exact HI.
    - rewrite remove_source_is_model. unfold enc_step_res.
      destruct (fst (remove id s)) as [| | | | |[|]| |]; reflexivity. }
  rewrite Hg. destruct (step s o) as [r s'] eqn:Es. cbn [fst snd] in *.
  destruct Hstep as (_ & HI' & _).
  rewrite (IH s' HI' Hops). destruct (run s' ops) as [rs s'']. reflexivity.
Qed.

(* non-vacuity: channel_max 3, ids 1 and 3 open, 2 freed earlier, the counter exhausted: the next
   automatic id is the freed 2; then nothing is left *)
Example slots_source_example :
  let s := {| open_ids := [1; 3]; freed := [2]; next := 4; cmax := 3 |} in
  let '(s1, r1) := gen_ChannelSlots_insert (ext_model true) ext_st_model 5 (enc s) (VC "None" []) (VC "f" []) in
  let '(s2, r2) := gen_ChannelSlots_insert (ext_model true) ext_st_model 5 s1 (VC "None" []) (VC "f" []) in
  let '(s3, r3) := gen_ChannelSlots_insert (ext_model true) ext_st_model 5 s2 (VC "Some" [VN 3]) (VC "f" []) in
  (r1, r2, r3) = (VC "Ok" [VC "handle" [VN 2]], VC "Err" [VC "Error::ExhaustedChannelIds" []],
                  VC "Err" [VC "Error::UnavailableChannelId" [VN 3]]).
Proof. vm_compute. reflexivity. Qed.
