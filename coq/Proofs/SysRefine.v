(* The I/O-thread actions of the protocol-level system (Model/Sys.v) are steps of the I/O-thread
   model (Model/Core.v), which the CoreProbe ties to the real code; the caller's actions are
   Model/Handle.v's.  Views of the Core state in the vocabulary of Sys:
     mailbox of channel n   = s_mail of slot n              (buffers)
     reply queue of n       = q_items of queue (s_reply s)  (items)
     out-buffer             = ob (c_out c)                  (bytes: the frames, concatenated)
   Stdlib only, no axioms. *)
From Amq Require Import Lib.Base Gen.Consts Model.Wire Model.Frames Model.OutBuf Model.Collector
     Model.Slots Model.Core Proofs.CoreContent Proofs.CoreMore Model.Handle Proofs.Handle Model.Sys.

Definition view_mail (c : core) (n : N) : list msg :=
  match alookup n (c_slots c) with Some s => s_mail s | None => [] end.

Definition view_replyq (c : core) (n : N) : list qitem :=
  match alookup n (c_slots c) with
  | Some s => match alookup (s_reply s) (c_qs c) with Some qu => q_items qu | None => [] end
  | None => []
  end.

(* slots do not share reply queues (each slot is created with a fresh queue) *)
Definition reply_queues_distinct (c : core) : Prop :=
  forall n k s s', n <> k -> alookup n (c_slots c) = Some s -> alookup k (c_slots c) = Some s' ->
                   s_reply s <> s_reply s'.

(* a reply queue as ChannelSlot::new makes it: capacity c_reply_queue_bound, receiver alive *)
Definition reply_queue_ok (c : core) (n : N) : Prop :=
  exists s qu, alookup n (c_slots c) = Some s /\ alookup (s_reply s) (c_qs c) = Some qu /\
               q_rx qu = true /\ q_cap qu = Some c_reply_queue_bound.

(* what the Sys invariant guarantees (at most one reply queued) is room in the real queue:
   the capacity constant comes from the compiled crate *)
Lemma one_item_has_room c n :
  reply_queue_ok c n -> (length (view_replyq c n) <= 1)%nat ->
  exists s, alookup n (c_slots c) = Some s /\ has_room (s_reply s) (c_qs c).
Proof.
  intros (s & qu & Hs & Hq & Hrx & Hcap) Hlen. exists s. split; [exact Hs|].
  exists qu. split; [exact Hq|]. split; [exact Hrx|]. rewrite Hcap.
  unfold view_replyq in Hlen. rewrite Hs, Hq in Hlen. unfold c_reply_queue_bound. lia.
Qed.

(* ARead: processing a reply-class frame of channel n appends its item to the reply queue of
   n; every other channel's reply queue, every mailbox, the out-buffer and the phase are as
   before *)
Theorem io_read_is_ARead n m dbg c :
  steady c -> n <> 0 -> is_reply m -> reply_queue_ok c n -> reply_queues_distinct c ->
  (length (view_replyq c n) <= 1)%nat ->
  exists c', process c (FMethod n m, dbg) = (OOk, c') /\
    view_replyq c' n = view_replyq c n ++ [reply_item m] /\
    (forall k, k <> n -> view_replyq c' k = view_replyq c k) /\
    (forall k, view_mail c' k = view_mail c k) /\
    c_out c' = c_out c /\ c_phase c' = c_phase c.
Proof.
  intros Hst Hn Hm Hok Hd Hlen.
  destruct (one_item_has_room Hok Hlen) as (s & Hs & Hroom).
  rewrite (reply_routing dbg Hst Hn Hs Hm Hroom). eexists. split; [reflexivity|].
  destruct Hroom as (qu & Hq & _).
  repeat split.
  - unfold view_replyq. cbn [set_qs c_slots c_qs]. rewrite Hs. unfold pushed. rewrite Hq.
    rewrite alookup_insert_eq. reflexivity.
  - intros k Hk. unfold view_replyq. cbn [set_qs c_slots c_qs].
    destruct (alookup k (c_slots c)) as [s'|] eqn:Hs'; [|reflexivity].
    unfold pushed. rewrite Hq. rewrite alookup_insert_neq; [reflexivity|].
    apply (Hd k n s' s Hk Hs' Hs).
Qed.

(* ADrain: a wake-up of channel n takes a prefix of its mailbox, appends those buffers whole and
   in order to the out-buffer, and leaves the rest; nothing else changes *)
Theorem io_drain_is_ADrain n bufs c s :
  n <> 0 -> alookup n (c_slots c) = Some s -> s_mail s = map MsgSend bufs -> s_mail_tx s = true ->
  ob_sealed (c_out c) = false ->
  exists c' k, handle_event c (EvChan n) = (OOk, c', []) /\
    view_mail c' n = map MsgSend (skipn k bufs) /\
    ob (c_out c') = ob (c_out c) ++ concat (firstn k bufs) /\
    (forall j, j <> n -> view_mail c' j = view_mail c j) /\
    c_qs c' = c_qs c /\ c_phase c' = c_phase c.
Proof.
  intros Hn Hs Hm Htx Hu.
  assert (Hfuel : (length bufs < mail_fuel c)%nat).
  { unfold mail_fuel.
    assert (G : forall (l : list (N * slot)) a, alookup n l = Some s ->
                (length (s_mail s) + a <= fold_left (fun a '(_, s0) => (a + length (s_mail s0))%nat) l a)%nat).
    { induction l as [|[k s0] l IH]; intros a Hl; [discriminate|]. cbn [fold_left].
      cbn [alookup] in Hl. destruct (n =? k).
      - inversion Hl; subst s0.
        assert (M : forall (l : list (N * slot)) a, (a <= fold_left (fun a '(_, s0) => (a + length (s_mail s0))%nat) l a)%nat).
        { induction l0 as [|[k0 s1] l0 IH0]; intro a0; cbn [fold_left]; [lia|]. specialize (IH0 (a0 + length (s_mail s1))%nat). lia. }
        specialize (M l (a + length (s_mail s))%nat). lia.
      - specialize (IH (a + length (s_mail s0))%nat Hl). lia. }
    specialize (G (c_slots c) 0%nat Hs). rewrite Hm, map_length in G. lia. }
  destruct (mailbox_fifo Hn Hs Hm Htx Hu Hfuel)
    as (c' & taken & rest & Hr & Hb & Ho & _ & Hp & Hq & _ & Hk & (s' & Hs' & Hm') & _).
  exists c', (length taken). cbn [handle_event].
  destruct (N.eqb_spec n 0) as [E|_]; [contradiction|]. rewrite Hr.
  split; [reflexivity|]. subst bufs. rewrite skipn_app_exact, firstn_app_exact.
  repeat split; try assumption.
  - unfold view_mail. rewrite Hs'. exact Hm'.
  - intros j Hj. unfold view_mail. rewrite (Hk j Hj). reflexivity.
Qed.

(* AWrite: a write event puts a prefix of the out-buffer on the wire and keeps the rest *)
Theorem io_write_is_AWrite c oracle bs wr ob' rest :
  write_to_stream (c_out c) oracle = (bs, wr, ob', rest) -> wr = WOk ->
  exists c', handle_event c (EvStream (Some oracle) None) = (OOk, c', bs) /\
    bs ++ ob (c_out c') = ob (c_out c) /\
    (forall k, view_mail c' k = view_mail c k) /\ (forall k, view_replyq c' k = view_replyq c k).
Proof.
  intros H E. destruct (stream_write_conserves H E) as (c' & He & Hb & _ & Hs & Hq & _).
  exists c'. split; [exact He|]. split; [exact Hb|].
  split; intro k; unfold view_mail, view_replyq; rewrite Hs, ?Hq; reflexivity.
Qed.

(* ARecv / ASend: the caller's side of a call (IoLoopHandle::call) puts one request into its
   mailbox and takes exactly the head of its own reply queue *)
Theorem caller_is_ASend_ARecv want rest hs :
  h_mail_rx hs = true -> h_replies hs = HMethod want :: rest ->
  hstep (CCall want) hs = Some (ROk want, with_replies hs rest (h_mail hs + 1)).
Proof. exact (@call_returns_head want rest hs). Qed.

(* ---- ARead of the server's Channel.Close (ASrvClose / WClose of Model/Sys.v) ---- *)

(* dropping senders does not touch what is queued *)
Definition items_of (q : N) (m : qs) : option (list qitem) :=
  match alookup q m with Some qu => Some (q_items qu) | None => None end.

Lemma drop_tx_items q q' m : items_of q (drop_tx q' m) = items_of q m.
Proof.
  unfold drop_tx, items_of. destruct (alookup q' m) as [qu|] eqn:E; [|reflexivity].
  destruct (N.eqb_spec q q') as [->|Hne].
  - rewrite alookup_insert_eq, E. reflexivity.
  - rewrite alookup_insert_neq by exact Hne. reflexivity.
Qed.

Lemma drop_tx_opt_items q q' m : items_of q (drop_tx_opt q' m) = items_of q m.
Proof. destruct q'; [apply drop_tx_items|reflexivity]. Qed.

Lemma drop_slot_qs_items q s m : items_of q (drop_slot_qs s m) = items_of q m.
Proof.
  unfold drop_slot_qs.
  assert (A : forall (l : list msg) m0, items_of q (fold_left (fun m x => drop_tx_opt (msg_q x) m) l m0) = items_of q m0).
  { induction l as [|x l IH]; intro m0; [reflexivity|]. cbn [fold_left]. rewrite IH. apply drop_tx_opt_items. }
  assert (B : forall (l : list (str * N)) m0, items_of q (fold_left (fun m '(_, q0) => drop_tx q0 m) l m0) = items_of q m0).
  { induction l as [|[t q0] l IH]; intro m0; [reflexivity|]. cbn [fold_left]. rewrite IH. apply drop_tx_items. }
  rewrite A, !drop_tx_opt_items, B. apply drop_tx_items.
Qed.

(* the I/O thread processes the server's Channel.Close for channel n (no consumers attached: what
   they are told is C09_effect's and C11's subject): the verdict goes BEHIND whatever the reply
   queue holds - by C09_system_isolation at most one reply, so the capacity 2 the code gives the
   queue has room for it -, the slot is gone with its mailbox, every other slot is as before and
   Channel.CloseOk(n) is queued.  This is the step ARead of Model/Sys.v takes on a WClose item. *)
Theorem io_close_is_ARead_close n code text dbg c s :
  steady c -> n <> 0 -> alookup n (c_slots c) = Some s -> s_consumers s = [] ->
  reply_queue_ok c n -> (length (view_replyq c n) <= 1)%nat ->
  exists c', process c (FMethod n (MChanClose code text), dbg) = (OOk, c') /\
    alookup n (c_slots c') = None /\
    items_of (s_reply s) (c_qs c') = Some (view_replyq c n ++ [IReplyErr (EServerClosedChannel n code text)]) /\
    (forall k, k <> n -> alookup k (c_slots c') = alookup k (c_slots c)) /\
    c_out c' = ob_append (c_out c) (ser_chan_close_ok n).
Proof.
  intros Hst Hn Hs Hc Hok Hlen.
  destruct (one_item_has_room Hok Hlen) as (s0 & Hs0 & Hroom). rewrite Hs in Hs0. inversion Hs0; subst s0.
  unfold process. rewrite Hst. destruct n as [|p]; [contradiction|].
  unfold process_method. rewrite Hs.
  unfold notify_slot, notify_slot_gen. rewrite Hc. cbn [send_all].
  unfold send. cbn [remove_slot set_slots c_qs].
  rewrite (try_send_room _ Hroom). cbn [fst snd].
  eexists. split; [reflexivity|].
  destruct Hroom as (qu & Hq & _).
  split; [|split; [|split]].
  - cbn. apply alookup_remove_eq.
  - cbn. rewrite drop_slot_qs_items. unfold items_of, pushed. rewrite Hq, alookup_insert_eq. cbn [q_items].
    unfold view_replyq. rewrite Hs, Hq. reflexivity.
  - intros k Hk. cbn. apply alookup_remove_neq. exact Hk.
  - reflexivity.
Qed.
