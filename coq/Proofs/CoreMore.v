(* Further theorems about the I/O thread's steady state (Model/Core.v), used by
   C04 C05 C08 C09 C11 C13.  Stdlib only, no axioms. *)
From Amq Require Import Lib.Base Gen.Consts Model.Wire Model.Frames Model.OutBuf
     Model.Collector Model.Slots Model.Core Spec.Slots Proofs.Slots Proofs.OutBuf
     Proofs.CoreContent Proofs.CoreInv.

(* a queue that accepts one more item *)
Definition has_room (q : N) (m : qs) : Prop :=
  exists qu, alookup q m = Some qu /\ q_rx qu = true /\
             match q_cap qu with Some c => N.of_nat (length (q_items qu)) < c | None => True end.

Lemma try_send_room q it m : has_room q m -> try_send q it m = (SOk, pushed q it m).
Proof.
  intros (qu & Hl & Hrx & Hcap). unfold try_send, pushed. rewrite Hl, Hrx. cbn [negb].
  destruct (q_cap qu) as [c|]; [|reflexivity].
  destruct (N.leb_spec c (N.of_nat (length (q_items qu)))); [lia|reflexivity].
Qed.

Lemma receivable_room q m : receivable q m -> has_room q m.
Proof. intros (qu & Hl & Hrx & Hc). exists qu. rewrite Hc. auto. Qed.

(* ====================== C04: replies ====================== *)

Definition is_reply (m : smethod) : Prop :=
  match m with MGeneric _ _ _ _ | MGetEmpty => True | _ => False end.

Definition reply_item (m : smethod) : qitem :=
  match m with MGetEmpty => IReplyGet None | _ => IReplyMethod m end.

(* a reply frame on channel n is appended, unchanged, to the reply queue of slot n - and
   nothing else in the whole state changes *)
Theorem reply_routing n m dbg c s :
  steady c -> n <> 0 -> alookup n (c_slots c) = Some s -> is_reply m ->
  has_room (s_reply s) (c_qs c) ->
  process c (FMethod n m, dbg) = (OOk, set_qs c (pushed (s_reply s) (reply_item m) (c_qs c))).
Proof.
  intros Hs Hn Hl Hm Hr. unfold process. rewrite Hs.
  destruct n as [|p]; [contradiction|].
  destruct m; try contradiction; unfold process_method; rewrite Hl; unfold send;
    rewrite (try_send_room _ Hr); reflexivity.
Qed.

(* a reply for a channel that is not open ends the connection: it is not handed to anybody *)
Theorem reply_bogus n m dbg c :
  steady c -> n <> 0 -> alookup n (c_slots c) = None -> is_reply m ->
  process c (FMethod n m, dbg) = (OErr (EBogusChannel n), c).
Proof.
  intros Hs Hn Hl Hm. unfold process. rewrite Hs. destruct n as [|p]; [contradiction|].
  destruct m; try contradiction; unfold process_method; rewrite Hl; reflexivity.
Qed.

(* ====================== C09: server-initiated channel close ====================== *)

Lemma send_fields q it c o c' :
  send q it c = (o, c') ->
  c_phase c' = c_phase c /\ c_out c' = c_out c /\ c_ids c' = c_ids c /\ c_slots c' = c_slots c /\
  c_ch0 c' = c_ch0 c.
Proof.
  unfold send. destruct (try_send q it (c_qs c)) as [[| |] m]; intro H; inversion H; subst; cbn; auto.
Qed.

Lemma send_all_fields cons it : forall c o c',
  send_all cons it c = (o, c') ->
  c_phase c' = c_phase c /\ c_out c' = c_out c /\ c_ids c' = c_ids c /\ c_slots c' = c_slots c /\
  c_ch0 c' = c_ch0 c.
Proof.
  induction cons as [|[t q] cons IH]; intros c o c' H; cbn [send_all] in H.
  - inversion H; subst. auto.
  - destruct (send q it c) as [o1 c1] eqn:E. destruct (send_fields E) as (a & b & d & e & f).
    destruct o1; [destruct (IH _ _ _ H) as (a' & b' & d' & e' & f'); repeat split; congruence | ..];
      inversion H; subst; auto.
Qed.

Lemma notify_slot_gen_fields b s rep cons c o c' :
  notify_slot_gen b s rep cons c = (o, c') ->
  c_phase c' = c_phase c /\ c_out c' = c_out c /\ c_ids c' = c_ids c /\ c_slots c' = c_slots c /\
  c_ch0 c' = c_ch0 c.
Proof.
  unfold notify_slot_gen. destruct b.
  - destruct (send_all (s_consumers s) cons c) as [o1 c1] eqn:E1.
    destruct (send_all_fields E1) as (a & b & d & e & f).
    destruct o1.
    + destruct (send (s_reply s) rep c1) as [o2 c2] eqn:E2.
      destruct (send_fields E2) as (a' & b' & d' & e' & f').
      intro H; inversion H; subst; cbn; repeat split; congruence.
    + intro H; inversion H; subst; cbn; auto.
    + intro H; inversion H; subst; cbn; auto.
  - destruct (send (s_reply s) rep c) as [o1 c1] eqn:E1.
    destruct (send_fields E1) as (a & b & d & e & f).
    destruct o1.
    + destruct (send_all (s_consumers s) cons c1) as [o2 c2] eqn:E2.
      destruct (send_all_fields E2) as (a' & b' & d' & e' & f').
      intro H; inversion H; subst; cbn; repeat split; congruence.
    + intro H; inversion H; subst; cbn; auto.
    + intro H; inversion H; subst; cbn; auto.
Qed.
Definition notify_slot_fields s rep cons c o c' := @notify_slot_gen_fields true s rep cons c o c'.
Definition notify_slot_cf_fields s rep cons c o c' := @notify_slot_gen_fields false s rep cons c o c'.

(* what a successful Channel.Close from the server does: the slot and its id are gone,
   exactly Channel.CloseOk(n) is queued, phase and channel-0 state are untouched, and - by
   the frame lemma - every other slot is exactly as before *)
Theorem chan_close_effect n code text dbg c c' :
  steady c -> n <> 0 ->
  process c (FMethod n (MChanClose code text), dbg) = (OOk, c') ->
  alookup n (c_slots c') = None /\
  c_ids c' = snd (remove n (c_ids c)) /\
  c_out c' = ob_append (c_out c) (ser_chan_close_ok n) /\
  c_phase c' = c_phase c /\ c_ch0 c' = c_ch0 c /\
  (forall k, k <> n -> alookup k (c_slots c') = alookup k (c_slots c)).
Proof.
  intros Hs Hn H. pose proof H as Hfull.
  unfold process in H. rewrite Hs in H. destruct n as [|p]; [contradiction|].
  unfold process_method in H.
  destruct (alookup (N.pos p) (c_slots c)) as [s|] eqn:Hl; [|discriminate].
  destruct (notify_slot s _ _ (remove_slot (N.pos p) c)) as [o1 c1] eqn:E.
  destruct (notify_slot_fields E) as (a & b & d & e & f).
  destruct o1; inversion H; subst. cbn.
  refine (conj _ (conj _ (conj _ (conj _ (conj _ _))))).
  - rewrite e. cbn. apply alookup_remove_eq.
  - rewrite d. reflexivity.
  - rewrite b. reflexivity.
  - rewrite a. reflexivity.
  - rewrite f. reflexivity.
  - intros k Hk. rewrite e. cbn. apply alookup_remove_neq. exact Hk.
Qed.

(* ... and the id is available again: an explicit request for it is granted *)
Theorem closed_id_reusable ids n :
  Inv ids -> in_range (cmax ids) n ->
  fst (insert_some true n (snd (remove n ids))) = ROk n.
Proof.
  intros Hi Hr.
  pose proof (@step_refines ids (Close n) Hi eq_refl) as R. cbn [step] in R.
  destruct (remove n ids) as [r s'] eqn:Er. destruct R as (_ & Hi' & Hmax & Hset). cbn [snd].
  pose proof (@step_refines s' (OpenSome n) Hi' eq_refl) as R2. cbn [step] in R2.
  destruct (insert_some true n s') as [r2 s2]. destruct R2 as (Ha & _). cbn [fst].
  cbn [allowed] in Ha. destruct Ha as [(_ & _ & E)|(Hno & _)]; [exact E|].
  exfalso. apply Hno. split; [rewrite Hmax; exact Hr|].
  intro Hin. apply Hset in Hin. cbn [spec_next] in Hin. apply filter_In in Hin.
  destruct Hin as (_ & Hne). rewrite N.eqb_refl in Hne. discriminate.
Qed.

(* a wake-up for the removed slot that was already pending is ignored *)
Theorem closed_slot_wakeup n c :
  n <> 0 -> alookup n (c_slots c) = None ->
  handle_event c (EvChan n) = (OOk, (if c_high c <? out_len c then set_need c true else c), []).
Proof.
  intros Hn Hl. cbn [handle_event]. destruct (n =? 0) eqn:E; [apply N.eqb_eq in E; contradiction|].
  unfold mail_fuel. cbn [chan_readable]. rewrite Hl. destruct (c_high c <? out_len c); reflexivity.
Qed.

(* ====================== C08: the close handshake ====================== *)

(* once sealed, no event adds a byte: the bytes written by the event followed by what
   remains buffered are exactly what was buffered before *)
Lemma sealed_push c bs : ob_sealed (c_out c) = true -> push_out c bs = c.
Proof.
  intro H. unfold push_out, set_out, ob_append. rewrite H. destruct c; reflexivity.
Qed.

Theorem client_close_seals buf c :
  ob_sealed (c_out c) = false ->
  channel_message 0 (MsgConnClose buf) c = (OOk, seal (push_out c buf)) /\
  ob (c_out (seal (push_out c buf))) = ob (c_out c) ++ buf /\
  ob_sealed (c_out (seal (push_out c buf))) = true.
Proof.
  intro H. split; [reflexivity|]. unfold seal, push_out, ob_append. cbn. rewrite H. cbn. auto.
Qed.

Theorem sealed_drops_sends n buf c :
  ob_sealed (c_out c) = true ->
  channel_message n (MsgSend buf) c = (OOk, c) /\ channel_message n (MsgConnClose buf) c = (OOk, c).
Proof.
  intro H. cbn [channel_message]. rewrite (sealed_push _ H). split; [reflexivity|].
  f_equal. unfold seal, set_out, ob_seal. destruct c as [p o i sl z q nq r b]. cbn in *.
  destruct o as [bs sealed]. cbn in *. subst sealed. reflexivity.
Qed.

Lemma notify_all_fields (ss : list (N * slot)) rep cons : forall c o c',
  notify_all ss rep cons c = (o, c') ->
  c_phase c' = c_phase c /\ c_out c' = c_out c /\ c_slots c' = c_slots c /\ c_ch0 c' = c_ch0 c.
Proof.
  induction ss as [|[k s] ss IH]; intros c o c' H; cbn [notify_all] in H.
  - inversion H; subst. auto.
  - destruct (notify_slot s rep cons c) as [o1 c1] eqn:E.
    destruct (notify_slot_fields E) as (a & b & d & e & f).
    destruct o1; [destruct (IH _ _ _ H) as (a' & b' & e' & f'); repeat split; congruence | ..];
      inversion H; subst; cbn; auto.
Qed.

(* the server's Connection.Close: CloseOk is queued behind everything queued before, the
   buffer is sealed, the phase records the server's code and text, every slot is gone *)
Theorem server_close_effect code text dbg c o c' :
  steady c -> ob_sealed (c_out c) = false ->
  process c (FMethod 0 (MConnClose code text), dbg) = (o, c') ->
  c_phase c' = PServerClosing code text /\
  ob (c_out c') = ob (c_out c) ++ ser_conn_close_ok /\ ob_sealed (c_out c') = true /\
  c_slots c' = [] /\ c_ch0 c' = None.
Proof.
  intros Hs Hu H. unfold process in H. rewrite Hs in H. unfold drain_slots in H.
  destruct (notify_all_fields H) as (a & b & e & f). rewrite a, b, e, f. cbn.
  rewrite drop_ch0_out, drop_ch0_none. cbn. unfold ob_append. rewrite Hu. cbn. auto.
Qed.

(* the loop ends after a server close exactly when CloseOk has been written *)
Theorem done_after_close c :
  (exists code text, c_phase c = PServerClosing code text) \/ c_phase c = PClientException ->
  ob_sealed (c_out c) = true ->
  (is_done c = DDone <-> ob (c_out c) = []) /\
  (ob (c_out c) <> [] -> is_done c = DNotDone).
Proof.
  intros Hp Hs. unfold is_done.
  destruct Hp as [(code & text & E)|E]; rewrite E, Hs; destruct (ob (c_out c));
    (split; [split; [reflexivity || discriminate | reflexivity || discriminate] | ]);
    intro H; try reflexivity; contradiction.
Qed.

Theorem final_results c :
  (forall code text, c_phase c = PServerClosing code text ->
     final_result c = OErr (EServerClosedConnection code text)) /\
  (c_phase c = PClientException -> final_result c = OErr EClientException) /\
  (c_phase c = PClientClosed -> final_result c = OOk /\ is_done c = DDone).
Proof.
  unfold final_result, is_done. repeat split; intros; rewrite H; reflexivity.
Qed.

(* the server's CloseOk completes the client's close, whether or not the end of the
   stream (or any other read failure) is seen in the same read *)
Theorem close_ok_then_anything c fs t o2 c2 :
  process_all c fs = (o2, c2) -> c_phase c2 = PClientClosed -> (forall site, o2 <> OPanic site) ->
  handle_event c (EvStream None (Some (fs, t))) = (OOk, c2, []).
Proof.
  intros Hp Hph Hnp. cbn [handle_event]. rewrite Hp. unfold is_client_closed. rewrite Hph.
  destruct o2; [destruct t; reflexivity | reflexivity |]. exfalso. eapply Hnp. reflexivity.
Qed.

(* ====================== C05: fatal inputs ====================== *)

Theorem fatal_read_maps c fs t c2 :
  process_all c fs = (OOk, c2) -> is_client_closed c2 = false ->
  fst (fst (handle_event c (EvStream None (Some (fs, t))))) = term_outcome t.
Proof.
  intros Hp Hc. cbn [handle_event]. rewrite Hp, Hc. destruct t; reflexivity.
Qed.

Theorem fatal_outcomes :
  term_outcome TEof = OErr EUnexpectedSocketClose /\
  term_outcome TIoErr = OErr EIoRead /\
  term_outcome TMalformed = OErr EMalformed /\
  term_outcome TBlock = OOk.
Proof. repeat split. Qed.

Theorem fatal_write_maps c oracle r bs wr ob' rest :
  write_to_stream (c_out c) oracle = (bs, wr, ob', rest) -> wr = WIoErr ->
  fst (fst (handle_event c (EvStream (Some oracle) r))) = OErr EIoWrite.
Proof. intros H E. cbn [handle_event]. rewrite H, E. reflexivity. Qed.

Theorem missed_heartbeats c rest :
  fst (heartbeat_timers ((HbRx, true) :: rest) c) = OErr EMissedHeartbeats.
Proof. reflexivity. Qed.

(* ... and nothing that is due before it in the same pass can mask it: every entry the timer
   yields is handled until an expired rx entry is found - stale rx firings, tx firings with or
   without output pending (only the out-buffer can differ afterwards) *)
Theorem missed_heartbeats_not_masked pre rest : forall c,
  (forall k b, In (k, b) pre -> (k, b) <> (HbRx, true)) ->
  fst (heartbeat_timers (pre ++ (HbRx, true) :: rest) c) = OErr EMissedHeartbeats.
Proof.
  induction pre as [|[k b] pre IH]; intros c H; cbn [app].
  - reflexivity.
  - assert (Hrest : forall k' b', In (k', b') pre -> (k', b') <> (HbRx, true))
      by (intros; apply H; right; assumption).
    destruct k, b; cbn [heartbeat_timers].
    + exfalso. apply (H HbRx true); [left; reflexivity|reflexivity].
    + apply IH; exact Hrest.
    + apply IH; exact Hrest.
    + apply IH; exact Hrest.
Qed.

(* a pass without an expired rx entry never fails *)
Theorem heartbeat_pass_ok fired : forall c,
  (forall k b, In (k, b) fired -> (k, b) <> (HbRx, true)) ->
  fst (heartbeat_timers fired c) = OOk.
Proof.
  induction fired as [|[k b] fired IH]; intros c H; [reflexivity|].
  assert (Hrest : forall k' b', In (k', b') fired -> (k', b') <> (HbRx, true))
    by (intros; apply H; right; assumption).
  destruct k, b; cbn [heartbeat_timers].
  - exfalso. apply (H HbRx true); [left; reflexivity|reflexivity].
  - apply IH; exact Hrest.
  - apply IH; exact Hrest.
  - apply IH; exact Hrest.
Qed.

(* dropping the thread's state disconnects every queue it held a sender of *)
Definition tx_gone (q : N) (m : qs) : Prop :=
  forall qu, alookup q m = Some qu -> q_tx qu = false.

Lemma drop_tx_gone q m : tx_gone q (drop_tx q m).
Proof.
  intros qu H. unfold drop_tx in H. destruct (alookup q m) as [q0|] eqn:E.
  - rewrite alookup_insert_eq in H. inversion H; subst. reflexivity.
  - rewrite E in H. discriminate.
Qed.

Lemma drop_tx_keeps_gone q q' m : tx_gone q m -> tx_gone q (drop_tx q' m).
Proof.
  intros Hg qu H. unfold drop_tx in H. destruct (alookup q' m) as [q0|] eqn:E; [|apply Hg; exact H].
  destruct (N.eq_dec q q') as [->|Hne].
  - rewrite alookup_insert_eq in H. inversion H; subst. reflexivity.
  - rewrite alookup_insert_neq in H by exact Hne. apply Hg; exact H.
Qed.

Lemma drop_tx_opt_keeps_gone q o m : tx_gone q m -> tx_gone q (drop_tx_opt o m).
Proof. destruct o; [apply drop_tx_keeps_gone|auto]. Qed.

Lemma fold_cons_keeps_gone q (cons : list (str * N)) : forall m,
  tx_gone q m -> tx_gone q (fold_left (fun m '(_, q') => drop_tx q' m) cons m).
Proof.
  induction cons as [|[t q'] cons IH]; intros m H; cbn [fold_left]; [exact H|].
  apply IH. apply drop_tx_keeps_gone. exact H.
Qed.

Lemma fold_cons_gone q (cons : list (str * N)) : forall m t,
  In (t, q) cons -> tx_gone q (fold_left (fun m '(_, q') => drop_tx q' m) cons m).
Proof.
  induction cons as [|[t' q'] cons IH]; intros m t Hin; cbn [fold_left]; [contradiction|].
  destruct Hin as [E|Hin].
  - inversion E; subst. apply fold_cons_keeps_gone. apply drop_tx_gone.
  - eapply IH. exact Hin.
Qed.

Lemma fold_mail_keeps_gone q l : forall m,
  tx_gone q m -> tx_gone q (fold_left (fun m x => drop_tx_opt (msg_q x) m) l m).
Proof.
  induction l as [|x l IH]; intros m H; cbn [fold_left]; [exact H|].
  apply IH. apply drop_tx_opt_keeps_gone. exact H.
Qed.

(* the queues a slot holds senders of *)
Definition slot_refs (s : slot) (q : N) : Prop :=
  q = s_reply s \/ (exists t, In (t, q) (s_consumers s)) \/ s_ret s = Some q \/ s_conf s = Some q.

Lemma drop_slot_gone s q m : slot_refs s q -> tx_gone q (drop_slot_qs s m).
Proof.
  intros Hr. unfold drop_slot_qs. apply fold_mail_keeps_gone.
  destruct Hr as [->|[(t & Hin)|[Hret|Hconf]]].
  - apply drop_tx_opt_keeps_gone, drop_tx_opt_keeps_gone, fold_cons_keeps_gone, drop_tx_gone.
  - apply drop_tx_opt_keeps_gone, drop_tx_opt_keeps_gone. eapply fold_cons_gone. exact Hin.
  - apply drop_tx_opt_keeps_gone. rewrite Hret. apply drop_tx_gone.
  - rewrite Hconf. apply drop_tx_gone.
Qed.

Lemma drop_slot_keeps_gone s q m : tx_gone q m -> tx_gone q (drop_slot_qs s m).
Proof.
  intro H. unfold drop_slot_qs. apply fold_mail_keeps_gone.
  apply drop_tx_opt_keeps_gone, drop_tx_opt_keeps_gone, fold_cons_keeps_gone, drop_tx_keeps_gone. exact H.
Qed.

Lemma fold_slots_keeps_gone q (ss : list (N * slot)) : forall m,
  tx_gone q m -> tx_gone q (fold_left (fun m '(_, s) => drop_slot_qs s m) ss m).
Proof.
  induction ss as [|[n s] ss IH]; intros m H; cbn [fold_left]; [exact H|].
  apply IH. apply drop_slot_keeps_gone. exact H.
Qed.

(* C05: when the thread ends, every queue any of its slots referred to has no sender left:
   a blocked or later receive on it ends with "disconnected" *)
Theorem teardown_releases c n s q :
  In (n, s) (c_slots c) -> slot_refs s q -> tx_gone q (c_qs (teardown c)).
Proof.
  intros Hin Hr. unfold teardown. cbn.
  assert (Hs : c_slots (drop_ch0 c) = c_slots c) by apply drop_ch0_slots.
  rewrite Hs. revert Hin. generalize (c_qs (drop_ch0 c)) as m. generalize (c_slots c) as ss.
  induction ss as [|[k v] ss IH]; intros m Hin; [contradiction|]. cbn [fold_left].
  destruct Hin as [E|Hin].
  - inversion E; subst. apply fold_slots_keeps_gone. apply drop_slot_gone. exact Hr.
  - apply IH. exact Hin.
Qed.

Theorem teardown_releases_ch0 c z :
  c_ch0 c = Some z ->
  tx_gone (z_reply z) (c_qs (teardown c)) /\ tx_gone (z_alloc_rep z) (c_qs (teardown c)).
Proof.
  intro Hz. unfold teardown. cbn.
  assert (H0 : tx_gone (z_reply z) (c_qs (drop_ch0 c)) /\ tx_gone (z_alloc_rep z) (c_qs (drop_ch0 c))).
  { unfold drop_ch0. rewrite Hz. cbn. split.
    - assert (forall (l : list N) m, tx_gone (z_reply z) m -> tx_gone (z_reply z) (fold_left (fun m q => drop_tx q m) l m)) as F.
      { induction l as [|x l IH]; intros m H; cbn [fold_left]; [exact H|]. apply IH, drop_tx_keeps_gone, H. }
      apply F, drop_tx_opt_keeps_gone, drop_tx_keeps_gone, drop_tx_gone.
    - assert (forall (l : list N) m, tx_gone (z_alloc_rep z) m -> tx_gone (z_alloc_rep z) (fold_left (fun m q => drop_tx q m) l m)) as F.
      { induction l as [|x l IH]; intros m H; cbn [fold_left]; [exact H|]. apply IH, drop_tx_keeps_gone, H. }
      apply F, drop_tx_opt_keeps_gone, drop_tx_gone. }
  destruct H0 as [Ha Hb]. split; apply fold_slots_keeps_gone; assumption.
Qed.

(* ====================== C13: listeners ====================== *)

(* a confirmation reaches the current confirm listener verbatim; nothing else changes *)
Theorem confirm_forwarded n dtag multiple (ack : bool) dbg c s q :
  steady c -> n <> 0 -> alookup n (c_slots c) = Some s -> s_conf s = Some q ->
  has_room q (c_qs c) ->
  process c (FMethod n (if ack then MAck dtag multiple else MNack dtag multiple), dbg)
  = (OOk, set_slot (set_qs c (pushed q (IConfirm ack dtag multiple) (c_qs c))) n s).
Proof.
  intros Hs Hn Hl Hq Hr. unfold process. rewrite Hs. destruct n as [|p]; [contradiction|].
  destruct ack; unfold process_method; rewrite Hl, Hq; unfold listener_send;
    rewrite (try_send_room _ Hr); (do 2 f_equal); destruct s; cbn in *; subst; reflexivity.
Qed.

(* with no listener the event is discarded and NOTHING changes but the (re-inserted) slot *)
Theorem confirm_discarded n dtag multiple (ack : bool) dbg c s :
  steady c -> n <> 0 -> alookup n (c_slots c) = Some s -> s_conf s = None ->
  process c (FMethod n (if ack then MAck dtag multiple else MNack dtag multiple), dbg)
  = (OOk, set_slot c n s).
Proof.
  intros Hs Hn Hl Hq. unfold process. rewrite Hs. destruct n as [|p]; [contradiction|].
  destruct ack; unfold process_method; rewrite Hl, Hq; cbn [listener_send];
    (do 2 f_equal); [destruct c; reflexivity | destruct s; cbn in *; subst; reflexivity
                    | destruct c; reflexivity | destruct s; cbn in *; subst; reflexivity].
Qed.

(* a listener whose receiver is gone is cleared, the event discarded, its sender dropped *)
Theorem confirm_dropped_listener n dtag multiple dbg c s q qu :
  steady c -> n <> 0 -> alookup n (c_slots c) = Some s -> s_conf s = Some q ->
  alookup q (c_qs c) = Some qu -> q_rx qu = false ->
  process c (FMethod n (MAck dtag multiple), dbg)
  = (OOk, set_slot (set_qs c (drop_tx q (c_qs c))) n (with_conf s None)).
Proof.
  intros Hs Hn Hl Hq Hlq Hrx. unfold process. rewrite Hs. destruct n as [|p]; [contradiction|].
  unfold process_method. rewrite Hl, Hq. unfold listener_send, try_send. rewrite Hlq, Hrx. reflexivity.
Qed.

(* installing a listener: the previous one's sender is dropped, the new one is current *)
Theorem listener_replaced n h c s :
  n <> 0 -> alookup n (c_slots c) = Some s ->
  channel_message n (MsgSetConfirm h) c
  = (OOk, set_slot (set_qs c (drop_tx_opt (s_conf s) (c_qs c))) n (with_conf s h)) /\
  channel_message n (MsgSetReturn h) c
  = (OOk, set_slot (set_qs c (drop_tx_opt (s_ret s) (c_qs c))) n (with_ret s h)).
Proof.
  intros Hn Hl. cbn [channel_message].
  assert (E : (n =? 0) = false) by (apply N.eqb_neq; exact Hn). rewrite E, Hl. auto.
Qed.

(* the mailbox of a channel is handled in FIFO order: a listener registered before a
   publish is installed before the publish is queued for writing *)
Fixpoint fold_messages (n : N) (ms : list msg) (c : core) : outcome * core :=
  match ms with
  | [] => (OOk, c)
  | m :: ms' => match channel_message n m c with
                | (OOk, c') => fold_messages n ms' c'
                | r => r
                end
  end.

Lemma set_slot_lookup c n s : alookup n (c_slots (set_slot c n s)) = Some s.
Proof. unfold set_slot, set_slots; cbn. apply alookup_insert_eq. Qed.

Theorem blocked_forwarded reason dbg c z q :
  steady c -> c_ch0 c = Some z -> z_blocked z = Some q -> has_room q (c_qs c) ->
  exists z', process c (FMethod 0 (MBlocked reason), dbg)
             = (OOk, set_ch0 (set_qs c (pushed q (IBlocked reason) (c_qs c))) (Some z')) /\
             z_blocked z' = Some q.
Proof.
  intros Hs Hz Hb Hr. unfold process. rewrite Hs, Hz, Hb. unfold listener_send.
  rewrite (try_send_room _ Hr). eexists. split; reflexivity.
Qed.

(* ====================== C11: consumers ====================== *)

Lemma pushed_lookup q it m qu :
  alookup q m = Some qu ->
  alookup q (pushed q it m) =
  Some {| q_items := q_items qu ++ [it]; q_hist := q_hist qu ++ [it]; q_cap := q_cap qu;
          q_tx := q_tx qu; q_rx := q_rx qu |}.
Proof. intro H. unfold pushed. rewrite H. apply alookup_insert_eq. Qed.

Lemma drop_tx_lookup q m qu :
  alookup q m = Some qu ->
  alookup q (drop_tx q m) =
  Some {| q_items := q_items qu; q_hist := q_hist qu; q_cap := q_cap qu; q_tx := false; q_rx := q_rx qu |}.
Proof. intro H. unfold drop_tx. rewrite H. apply alookup_insert_eq. Qed.


(* the client's cancel confirmed by the server: the reply goes to the caller, the consumer
   gets ClientCancelled as its last message and its sender is dropped in the same step;
   the tag is no longer in the table, so nothing can follow *)
Theorem cancel_ok_effect n tag dbg c s q :
  steady c -> n <> 0 -> alookup n (c_slots c) = Some s ->
  lookup_tag tag (s_consumers s) = Some q -> q <> s_reply s ->
  has_room (s_reply s) (c_qs c) -> receivable q (c_qs c) ->
  exists c', process c (FMethod n (MCancelOk tag), dbg) = (OOk, c') /\
    (exists s', alookup n (c_slots c') = Some s' /\ lookup_tag tag (s_consumers s') = None) /\
    (exists qu qu', alookup q (c_qs c) = Some qu /\ alookup q (c_qs c') = Some qu' /\
                    q_hist qu' = q_hist qu ++ [IClientCancelled] /\ q_tx qu' = false).
Proof.
  intros Hs Hn Hl Ht Hne Hroom Hrecv. unfold process. rewrite Hs. destruct n as [|p]; [contradiction|].
  unfold process_method. rewrite Hl, Ht. unfold send. cbn [c_qs set_slot set_slots].
  rewrite (try_send_receivable _ Hrecv). cbn [c_qs set_qs].
  destruct Hrecv as (qu & Hq & Hrx & Hcap).
  (* the caller's reply queue is another queue: it still has room *)
  assert (Hroom' : has_room (s_reply s) (drop_tx q (pushed q IClientCancelled (c_qs c)))).
  { destruct Hroom as (qr & Hqr & Hrxr & Hcapr). exists qr. split; [|auto].
    unfold drop_tx. rewrite (pushed_lookup _ Hq).
    rewrite alookup_insert_neq by (intro E; apply Hne; symmetry; exact E).
    unfold pushed. rewrite Hq.
    rewrite alookup_insert_neq by (intro E; apply Hne; symmetry; exact E). exact Hqr. }
  rewrite (try_send_room _ Hroom').
  eexists. split; [reflexivity|]. split.
  - eexists. cbn. rewrite alookup_insert_eq. split; [reflexivity|]. cbn.
    clear. induction (s_consumers s) as [|[t' q'] l IH]; cbn; [reflexivity|].
    destruct (bytes_eqb tag t') eqn:E; [exact IH|]. cbn. rewrite E. exact IH.
  - exists qu. eexists. split; [exact Hq|]. cbn [c_qs set_qs].
    split.
    + unfold pushed at 1. destruct Hroom' as (qr & Hqr & _). rewrite Hqr.
      rewrite alookup_insert_neq by exact Hne.
      apply drop_tx_lookup. apply pushed_lookup. exact Hq.
    + cbn. auto.
Qed.

(* a tag that is not in the table gets nothing: a delivery for it ends the connection *)
Theorem unknown_tag_rejected n tag dtag red exch rk props dbg c s :
  steady c -> n <> 0 -> alookup n (c_slots c) = Some s -> s_coll s = CStart (CDeliver tag dtag red exch rk) ->
  lookup_tag tag (s_consumers s) = None ->
  fst (process c (FHeader n 0 props, dbg)) = OErr (EUnknownConsumerTag n tag).
Proof.
  intros Hs Hn Hl Hc Ht. unfold process. rewrite Hs. destruct n as [|p]; [contradiction|].
  rewrite Hl, Hc. cbn [collect_header]. rewrite N.eqb_refl. cbn [collect dispatch].
  rewrite with_coll_consumers, Ht. reflexivity.
Qed.

(* server cancel: the consumer gets ServerCancelled and is removed; CancelOk is sent
   unless the server said nowait *)
Theorem server_cancel_effect n tag nowait dbg c s q :
  steady c -> n <> 0 -> alookup n (c_slots c) = Some s ->
  lookup_tag tag (s_consumers s) = Some q -> receivable q (c_qs c) ->
  exists c', process c (FMethod n (MCancel tag nowait), dbg) = (OOk, c') /\
    c_out c' = (if nowait then c_out c else ob_append (c_out c) (ser_cancel_ok n tag)) /\
    (exists s', alookup n (c_slots c') = Some s' /\ lookup_tag tag (s_consumers s') = None) /\
    (exists qu qu', alookup q (c_qs c) = Some qu /\ alookup q (c_qs c') = Some qu' /\
                    q_hist qu' = q_hist qu ++ [IServerCancelled] /\ q_tx qu' = false).
Proof.
  intros Hs Hn Hl Ht Hrecv. unfold process. rewrite Hs. destruct n as [|p]; [contradiction|].
  unfold process_method. rewrite Hl, Ht. unfold send. cbn [c_qs set_slot set_slots].
  rewrite (try_send_receivable _ Hrecv).
  destruct Hrecv as (qu & Hq & Hrx & Hcap).
  assert (Hx : alookup q (drop_tx q (pushed q IServerCancelled (c_qs c))) =
               Some {| q_items := q_items qu ++ [IServerCancelled]; q_hist := q_hist qu ++ [IServerCancelled];
                       q_cap := q_cap qu; q_tx := false; q_rx := q_rx qu |}).
  { erewrite drop_tx_lookup; [|apply pushed_lookup; exact Hq]. reflexivity. }
  assert (Hrm : lookup_tag tag (remove_tag tag (s_consumers s)) = None).
  { clear. induction (s_consumers s) as [|[t' q'] l IH]; cbn; [reflexivity|].
    destruct (bytes_eqb tag t') eqn:E; [exact IH|]. cbn. rewrite E. exact IH. }
  destruct nowait; (eexists; split; [reflexivity|]; split; [reflexivity|]; split;
    [eexists; split; [cbn; rewrite alookup_insert_eq; reflexivity | cbn; exact Hrm]
    | exists qu; eexists; split; [exact Hq|]; split; [cbn; exact Hx | cbn; auto]]).
Qed.

(* ====================== C01: hand-over from the handles ====================== *)

(* a channel's mailbox is taken from in FIFO order, each buffer appended whole: the buffers of
   one channel reach the out-buffer in the order that channel submitted them, another channel's
   bytes can only come before or after a whole buffer, and what is not taken (the loop stops as
   soon as it finds the out-buffer above the high-water mark) stays in the mailbox, in order,
   with a re-poll of the channels owed *)
Theorem mailbox_fifo n : forall bufs fuel c s,
  n <> 0 -> alookup n (c_slots c) = Some s -> s_mail s = map MsgSend bufs -> s_mail_tx s = true ->
  ob_sealed (c_out c) = false -> (length bufs < fuel)%nat ->
  exists c' taken rest, chan_readable fuel n c = (OOk, c') /\
    bufs = taken ++ rest /\
    ob (c_out c') = ob (c_out c) ++ concat taken /\ ob_sealed (c_out c') = false /\
    c_phase c' = c_phase c /\ c_qs c' = c_qs c /\ c_high c' = c_high c /\
    (forall k, k <> n -> alookup k (c_slots c') = alookup k (c_slots c)) /\
    (exists s', alookup n (c_slots c') = Some s' /\ s_mail s' = map MsgSend rest) /\
    (rest <> [] -> c_need c' = true /\ c_high c < out_len c').
Proof.
  induction bufs as [|b bufs IH]; intros fuel c s Hn Hl Hm Htx Hu Hf.
  - destruct fuel as [|fuel]; [cbn in Hf; lia|]. cbn [chan_readable].
    destruct (c_high c <? out_len c).
    + exists (set_need c true), [], []. cbn. rewrite app_nil_r.
      repeat split; try reflexivity; try exact Hu; try congruence. exists s. split; [exact Hl|exact Hm].
    + rewrite Hl. cbn in Hm. rewrite Hm, Htx.
      exists c, [], []. cbn. rewrite app_nil_r.
      repeat split; try reflexivity; try exact Hu; try congruence. exists s. split; [exact Hl|exact Hm].
  - destruct fuel as [|fuel]; [cbn in Hf; lia|]. cbn [chan_readable].
    destruct (N.ltb_spec (c_high c) (out_len c)) as [Hhi|Hhi].
    + exists (set_need c true), [], (b :: bufs). cbn. rewrite app_nil_r.
      repeat split; try reflexivity; try exact Hu; try exact Hhi.
      exists s. split; [exact Hl|exact Hm].
    + rewrite Hl. cbn [map] in Hm. rewrite Hm. cbn [channel_message].
      set (c1 := push_out (set_slot c n (with_mail s (map MsgSend bufs))) b).
      assert (Hl1 : alookup n (c_slots c1) = Some (with_mail s (map MsgSend bufs))).
      { unfold c1, push_out, set_out, set_slot, set_slots. cbn. apply alookup_insert_eq. }
      assert (Hu1 : ob_sealed (c_out c1) = false).
      { unfold c1, push_out, set_out, ob_append. cbn. rewrite Hu. reflexivity. }
      assert (Hm1 : s_mail (with_mail s (map MsgSend bufs)) = map MsgSend bufs) by (destruct s; reflexivity).
      assert (Htx1 : s_mail_tx (with_mail s (map MsgSend bufs)) = true) by (destruct s; exact Htx).
      assert (Hf1 : (length bufs < fuel)%nat) by (cbn in Hf; lia).
      destruct (IH fuel c1 (with_mail s (map MsgSend bufs)) Hn Hl1 Hm1 Htx1 Hu1 Hf1)
        as (c' & taken & rest & Hr & Hb & Ho & Hs & Hp & Hq & Hh & Hk & Hs' & Hstop).
      exists c', (b :: taken), rest. split; [exact Hr|]. split; [cbn; rewrite Hb; reflexivity|]. split.
      * rewrite Ho. unfold c1, push_out, set_out, ob_append. cbn. rewrite Hu. cbn. rewrite <- app_assoc. reflexivity.
      * split; [exact Hs|]. split; [rewrite Hp; reflexivity|]. split; [rewrite Hq; reflexivity|].
        split; [rewrite Hh; reflexivity|]. split; [|split; [exact Hs'|]].
        -- intros k Hk'. rewrite (Hk k Hk'). unfold c1, push_out, set_out, set_slot, set_slots. cbn.
           apply alookup_insert_neq. exact Hk'.
        -- intro Hne. destruct (Hstop Hne) as [H1 H2]. split; [exact H1|]. exact H2.
Qed.

(* below the mark nothing is left behind: if even with everything appended the out-buffer does
   not exceed the high-water mark, the whole mailbox is taken *)
Theorem mailbox_fifo_below_mark n bufs fuel c s :
  n <> 0 -> alookup n (c_slots c) = Some s -> s_mail s = map MsgSend bufs -> s_mail_tx s = true ->
  ob_sealed (c_out c) = false -> (length bufs < fuel)%nat ->
  N.of_nat (length (ob (c_out c) ++ concat bufs)) <= c_high c ->
  exists c', chan_readable fuel n c = (OOk, c') /\
    ob (c_out c') = ob (c_out c) ++ concat bufs /\
    (exists s', alookup n (c_slots c') = Some s' /\ s_mail s' = []).
Proof.
  intros Hn Hl Hm Htx Hu Hf Hle.
  destruct (@mailbox_fifo n bufs fuel c s Hn Hl Hm Htx Hu Hf)
    as (c' & taken & rest & Hr & Hb & Ho & _ & _ & _ & _ & _ & Hs' & Hstop).
  destruct rest as [|r0 rest].
  - rewrite app_nil_r in Hb. subst taken. exists c'. split; [exact Hr|]. split; [exact Ho|exact Hs'].
  - exfalso. destruct (Hstop ltac:(discriminate)) as [_ H2]. unfold out_len in H2. rewrite Ho in H2.
    rewrite Hb in Hle. rewrite concat_app, !app_length in Hle. rewrite app_length in H2. lia.
Qed.

(* a write-only STREAM event: what goes to the wire followed by what stays buffered is
   what was buffered - at the level of the thread's state *)
Theorem stream_write_conserves c oracle bs wr ob' rest :
  write_to_stream (c_out c) oracle = (bs, wr, ob', rest) -> wr = WOk ->
  exists c', handle_event c (EvStream (Some oracle) None) = (OOk, c', bs) /\
             bs ++ ob (c_out c') = ob (c_out c) /\ ob_sealed (c_out c') = ob_sealed (c_out c) /\
             c_slots c' = c_slots c /\ c_qs c' = c_qs c /\ c_phase c' = c_phase c.
Proof.
  intros H E. cbn [handle_event]. rewrite H, E. eexists. split; [reflexivity|]. cbn.
  destruct (write_conserves H) as (Hs & Hc). rewrite E in Hc. auto.
Qed.
