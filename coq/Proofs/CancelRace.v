(* Notifying the consumer before answering the caller is safe under every schedule; the
   opposite order is not.  Stdlib only, no axioms. *)
From Amq Require Import Lib.Base Model.CancelRace.

Definition rinv (s : rstate) : Prop :=
  r_failed s = false /\
  match r_todo s with
  | [Notify; Reply] => r_reply_sent s = false /\ r_caller s = Blocked /\ r_notified s = false
  | [Reply] => r_reply_sent s = false /\ r_caller s = Blocked /\ r_notified s = true
  | [] => r_notified s = true /\ r_reply_sent s = true
  | _ => False
  end.

Lemma rinv_init : rinv (rinit order_now).
Proof. split; [reflexivity|]. cbn. auto. Qed.

Lemma rinv_step s a : rinv s -> rinv (rstep s a).
Proof.
  unfold rinv. destruct s as [todo rs nt cl fl].
  cbn [r_failed r_todo r_reply_sent r_caller r_notified]. intros [Hf H]. subst fl.
  destruct todo as [|o1 [|o2 [|o3 t]]]; try destruct o1; try destruct o2; try (exfalso; exact H);
    destruct a; destruct cl; destruct rs; cbn in *;
    intuition (try discriminate; try congruence).
Qed.

(* every schedule of the two threads, of any length *)
Theorem notify_first_safe sched :
  let s := rrun (rinit order_now) sched in
  r_failed s = false /\ (r_todo s = [] -> r_notified s = true /\ r_reply_sent s = true).
Proof.
  assert (G : forall sched s, rinv s -> rinv (rrun s sched)).
  { clear. induction sched as [|a sched IH]; intros s H; cbn [rrun fold_left]; [exact H|].
    apply IH. apply rinv_step. exact H. }
  pose proof (G sched _ rinv_init) as [Hf H]. cbn zeta. split; [exact Hf|].
  intro E. rewrite E in H. exact H.
Qed.

(* the caller is never released before the consumer has its terminal message *)
Theorem released_after_notice sched :
  let s := rrun (rinit order_now) sched in
  r_caller s <> Blocked -> r_notified s = true.
Proof.
  assert (G : forall sched s, rinv s -> rinv (rrun s sched)).
  { clear. induction sched as [|a sched IH]; intros s H; cbn [rrun fold_left]; [exact H|].
    apply IH. apply rinv_step. exact H. }
  pose proof (G sched _ rinv_init) as [_ H]. cbn zeta. intro Hc.
  destruct (r_todo (rrun (rinit order_now) sched)) as [|o1 [|o2 [|o3 t]]];
    try destruct o1; try destruct o2; try (exfalso; exact H); intuition (try congruence).
Qed.

(* the order the code had before the repair: the I/O thread answers, the caller drops the
   receiver, the notice finds it gone - the loop ends with EventLoopClientDropped *)
Theorem reply_first_refuted :
  exists sched, r_failed (rrun (rinit order_before) sched) = true.
Proof. exists [IO; Caller; Caller; IO]. vm_compute. reflexivity. Qed.
