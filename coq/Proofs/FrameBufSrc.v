(* Inner::read_from of the frame buffer AS TRANSLATED FROM THE SOURCE on every run
   (Gen/SrcFrameBuf.v, by tools/rs2sm.py from src/frame_buffer.rs - the loop that cuts the inbound
   byte stream into frames) is the hand-written model `read_from` (Model/FrameBuf.v) that C06's
   theorems (every segmentation of the stream gives the same frames) are about: for every buffer
   content, every behaviour of the transport (chunks of any size, would-block, end of stream,
   error), every payload-parser and handler outcome.  Stdlib only, no axioms. *)
From Coq Require Import String.
From Amq Require Import Lib.Base Lib.RsVal Gen.Consts Model.Wire Model.FrameBuf Gen.SrcFrameBuf.
Open Scope string_scope.
Open Scope list_scope.
Open Scope N_scope.

Definition enc_rd (x : rd) : val :=
  match x with
  | Chunk bs => VC "Chunk" [VBytes bs] | Block => VC "Block" [] | Eof => VC "Eof" [] | IoErr => VC "IoErr" []
  end.
Definition enc_hd (h : N * bytes) : val := VC "frame" [VN (fst h); VBytes (snd h)].

(* the buffer (with the count of frames taken out), the transport's script, what the handler got *)
Definition enc_self (fb : fbuf) (script : list rd) (delivered : list (N * bytes)) : val :=
  VR [("buf", VBytes (buf fb)); ("seen", VN (seen fb)); ("script", VC "script" (map enc_rd script));
      ("delivered", VC "frames" (map enc_hd delivered))].

Definition io_err (kind : string) : val := VC "io::Error" [VC kind []].

Section Tie.
  Variable accepts : N -> bool.            (* the payload parser, by frame index *)
  Variable handler : N -> bytes -> bool.   (* the frame handler: true = Ok(()) *)

  (* Kind::parse_size, MIN_READ (input_buffer crate), io::Error::kind *)
  Definition ext_model (name : string) (args : list val) : val :=
    if (name =? "Kind::parse_size")%string then
      match args with
      | [VBytes b] => match parse_size b with Some n => VC "Some" [VN n] | None => VC "None" [] end
      | _ => VStuck
      end
    else if (name =? "MIN_READ")%string then VN c_min_read
    else match args with [VC _ [k]] => k | _ => VStuck end.

  (* InputBuffer::{chunk, advance, prepare_reserve(..).read_from(stream)}, Kind::parse_frame (the
     envelope rules and the payload parser's verdict on this frame), the handler *)
  Definition ext_st_model (name : string) (args : list val) (self : val) : val * val :=
    match v_field "buf" self, v_field "seen" self with
    | VBytes b, VN i =>
        if (name =? "buf.chunk")%string then (self, VBytes b)
        else if (name =? "buf.advance")%string then
          match args with [n] => (v_set "buf" (v_drop n (VBytes b)) self, VC "()" []) | _ => (self, VStuck) end
        else if (name =? "Kind::parse_frame")%string then
          match args with
          | [VBytes fr] => (self, if envelope_ok fr && accepts i then VC "Ok" [VBytes fr]
                                  else VC "Err" [VC "Error::MalformedFrame" []])
          | _ => (self, VStuck)
          end
        else if (name =? "handler")%string then
          match args, v_field "delivered" self with
          | [VBytes fr], VC d l =>
              if handler i fr
              then (v_set "delivered" (VC d (l ++ [enc_hd (i, fr)])) (v_set "seen" (VN (i + 1)) self), VC "Ok" [VC "()" []])
              else (self, VC "Err" [VC "Error::Handler" []])
          | _, _ => (self, VStuck)
          end
        else if (name =? "buf.prepare_reserve.read_from")%string then
          match v_field "script" self with
          | VC sc (VC c a :: rest) =>
              let self' := v_set "script" (VC sc rest) self in
              match a with
              | [VBytes bs] => (v_set "buf" (VBytes (b ++ bs)) self', VC "Ok" [VN (N.of_nat (length bs))])
              | _ => if (c =? "Block")%string then (self', VC "Err" [io_err "io::ErrorKind::WouldBlock"])
                     else if (c =? "Eof")%string then (self', VC "Ok" [VN 0])
                     else (self', VC "Err" [io_err "io::ErrorKind::Other"])
              end
          | _ => (self, VStuck)
          end
        else (self, VStuck)
    | _, _ => (self, VStuck)
    end.

  Definition enc_ep (r : ep_result) : val :=
    match r with
    | EpOk n => VC "Ok" [VN n]
    | EpClosed => VC "Err" [VC "Error::UnexpectedSocketClose" []]
    | EpIoErr => VC "Err" [VC "Error::IoErrorReadingSocket" [io_err "io::ErrorKind::Other"]]
    | EpMalformed => VC "Err" [VC "Error::MalformedFrame" []]
    | EpHandlerErr => VC "Err" [VC "Error::Handler" []]
    | EpStuck => VStuck
    end.

  Lemma st_chunk fb sc d : ext_st_model "buf.chunk" [] (enc_self fb sc d) = (enc_self fb sc d, VBytes (buf fb)).
  Proof. reflexivity. Qed.

  Lemma st_parse_frame fr fb sc d :
    ext_st_model "Kind::parse_frame" [VBytes fr] (enc_self fb sc d)
    = (enc_self fb sc d, if envelope_ok fr && accepts (seen fb) then VC "Ok" [VBytes fr] else VC "Err" [VC "Error::MalformedFrame" []]).
  Proof. reflexivity. Qed.

  Lemma st_handler fr fb sc d :
    ext_st_model "handler" [VBytes fr] (enc_self fb sc d)
    = if handler (seen fb) fr
      then (enc_self {| buf := buf fb; seen := seen fb + 1 |} sc (d ++ [(seen fb, fr)]), VC "Ok" [VC "()" []])
      else (enc_self fb sc d, VC "Err" [VC "Error::Handler" []]).
  Proof.
    unfold ext_st_model. cbn -[N.add]. destruct (handler (seen fb) fr); [|reflexivity].
    unfold enc_self. cbn -[N.add]. rewrite map_app. reflexivity.
  Qed.

  Lemma st_advance n fb sc d :
    ext_st_model "buf.advance" [VN n] (enc_self fb sc d)
    = (enc_self {| buf := skipn (N.to_nat n) (buf fb); seen := seen fb |} sc d, VC "()" []).
  Proof. reflexivity. Qed.

  Lemma st_read r s fb sc d :
    ext_st_model "buf.prepare_reserve.read_from" [r; s] (enc_self fb sc d)
    = match sc with
      | [] => (enc_self fb sc d, VStuck)
      | Chunk bs :: sc' => (enc_self {| buf := buf fb ++ bs; seen := seen fb |} sc' d, VC "Ok" [VN (N.of_nat (length bs))])
      | Block :: sc' => (enc_self fb sc' d, VC "Err" [io_err "io::ErrorKind::WouldBlock"])
      | Eof :: sc' => (enc_self fb sc' d, VC "Ok" [VN 0])
      | IoErr :: sc' => (enc_self fb sc' d, VC "Err" [io_err "io::ErrorKind::Other"])
      end.
  Proof. destruct sc as [|[bs| | |] sc']; reflexivity. Qed.

  Lemma ext_parse_size b :
    ext_model "Kind::parse_size" [VBytes b] = match parse_size b with Some n => VC "Some" [VN n] | None => VC "None" [] end.
  Proof. reflexivity. Qed.

  Lemma ext_min_read : ext_model "MIN_READ" [] = VN c_min_read.
  Proof. reflexivity. Qed.
  Lemma ext_kind k : ext_model "kind" [io_err k] = VC k [].
  Proof. reflexivity. Qed.

  Definition chunks_nonempty (sc : list rd) : Prop :=
    Forall (fun x => match x with Chunk [] => False | _ => True end) sc.

  Opaque ext_st_model ext_model.

  Lemma loop_source_is_model hv stream : forall fuel fb nread script delivered,
    chunks_nonempty script ->
    snd (fst (fst (read_from accepts handler fuel fb nread script))) <> EpStuck ->
    gen_Inner_read_from_loop1 ext_model ext_st_model fuel (enc_self fb script delivered) (VN nread) hv stream
    = let '(hs, r, fb', sc') := read_from accepts handler fuel fb nread script in
      (enc_self fb' sc' (delivered ++ hs), enc_ep r).
  Proof.
    induction fuel as [|fuel IH]; intros fb nread script delivered Hne Hs; [exfalso; apply Hs; reflexivity|].
    cbn [read_from] in *. cbn [gen_Inner_read_from_loop1].
    rewrite st_chunk. cbn iota beta zeta. rewrite ext_parse_size, ext_min_read.
    unfold try_frame in *.
    destruct (parse_size (buf fb)) as [fs|] eqn:Eps.
    - cbn iota beta zeta. cbn [String.eqb Ascii.eqb Bool.eqb].
      change (v_ltb (v_len (VBytes (buf fb))) (VN fs)) with (N.of_nat (length (buf fb)) <? fs).
      rewrite <- N.leb_antisym.
      destruct (fs <=? N.of_nat (length (buf fb))) eqn:Efs.
      + (* a complete frame is buffered *)
        change (v_take (VN fs) (VBytes (buf fb))) with (VBytes (firstn (N.to_nat fs) (buf fb))).
        rewrite st_parse_frame.
        destruct (envelope_ok (firstn (N.to_nat fs) (buf fb)) && accepts (seen fb)) eqn:Eok.
        * cbn iota beta zeta. rewrite st_handler.
          destruct (handler (seen fb) (firstn (N.to_nat fs) (buf fb))) eqn:Eh.
          -- cbn iota beta zeta. rewrite st_advance. cbn [buf seen].
             specialize (IH {| buf := skipn (N.to_nat fs) (buf fb); seen := seen fb + 1 |} nread script
                            (delivered ++ [(seen fb, firstn (N.to_nat fs) (buf fb))]) Hne).
             destruct (read_from accepts handler fuel _ nread script) as [[[hs r] fb'] sc'] eqn:Er.
             cbn [fst snd] in *. rewrite IH by exact Hs. rewrite <- app_assoc. reflexivity.
          -- cbn. rewrite app_nil_r. reflexivity.
        * cbn. rewrite app_nil_r. reflexivity.
      + (* incomplete: read with reserve = max(MIN_READ, frame size) *)
        cbn iota beta zeta. rewrite st_read.
        destruct script as [|[bs| | |] sc']; [exfalso; apply Hs; reflexivity| | | |].
        * inversion Hne as [|x l Hx Hl]; subst. destruct bs as [|b bs]; [contradiction|].
          cbn iota beta zeta. cbn [String.eqb Ascii.eqb Bool.eqb].
          change (v_eqb (VN (N.of_nat (length (b :: bs)))) (VN 0)) with (N.of_nat (length (b :: bs)) =? 0).
          replace (N.of_nat (length (b :: bs)) =? 0) with false by (symmetry; apply N.eqb_neq; cbn [length]; lia).
          cbn iota beta zeta. cbn [String.eqb Ascii.eqb Bool.eqb].
          change (v_add (VN nread) (VN (N.of_nat (length (b :: bs))))) with (VN (nread + N.of_nat (length (b :: bs)))).
          specialize (IH {| buf := buf fb ++ b :: bs; seen := seen fb |} (nread + N.of_nat (length (b :: bs))) sc' delivered Hl).
          destruct (read_from accepts handler fuel _ _ sc') as [[[hs r] fb'] sc''] eqn:Er.
          cbn [fst snd] in *. apply IH. exact Hs.
        * cbn. rewrite ext_kind. cbn. rewrite app_nil_r. reflexivity.
        * cbn. rewrite app_nil_r. reflexivity.
        * cbn. rewrite ext_kind. cbn. rewrite app_nil_r. reflexivity.
    - (* the size is not known yet: read with reserve = MIN_READ *)
      cbn iota beta zeta. cbn [String.eqb Ascii.eqb Bool.eqb]. rewrite st_read.
      destruct script as [|[bs| | |] sc']; [exfalso; apply Hs; reflexivity| | | |].
      * inversion Hne as [|x l Hx Hl]; subst. destruct bs as [|b bs]; [contradiction|].
        cbn iota beta zeta. cbn [String.eqb Ascii.eqb Bool.eqb].
        change (v_eqb (VN (N.of_nat (length (b :: bs)))) (VN 0)) with (N.of_nat (length (b :: bs)) =? 0).
        replace (N.of_nat (length (b :: bs)) =? 0) with false by (symmetry; apply N.eqb_neq; cbn [length]; lia).
        cbn iota beta zeta. cbn [String.eqb Ascii.eqb Bool.eqb].
        change (v_add (VN nread) (VN (N.of_nat (length (b :: bs))))) with (VN (nread + N.of_nat (length (b :: bs)))).
        specialize (IH {| buf := buf fb ++ b :: bs; seen := seen fb |} (nread + N.of_nat (length (b :: bs))) sc' delivered Hl).
        destruct (read_from accepts handler fuel _ _ sc') as [[[hs r] fb'] sc''] eqn:Er.
        cbn [fst snd] in *. apply IH. exact Hs.
      * cbn. rewrite ext_kind. cbn. rewrite app_nil_r. reflexivity.
      * cbn. rewrite app_nil_r. reflexivity.
      * cbn. rewrite ext_kind. cbn. rewrite app_nil_r. reflexivity.
  Qed.

  (* THE MODEL IS THE SOURCE: one call of read_from (one readable wake-up) *)
  Theorem read_from_source_is_model hv stream fuel fb script delivered :
    chunks_nonempty script ->
    snd (fst (fst (read_from accepts handler fuel fb 0 script))) <> EpStuck ->
    gen_Inner_read_from ext_model ext_st_model fuel (enc_self fb script delivered) stream hv
    = let '(hs, r, fb', sc') := read_from accepts handler fuel fb 0 script in
      (enc_self fb' sc' (delivered ++ hs), enc_ep r).
  Proof. intros Hne Hs. unfold gen_Inner_read_from. apply loop_source_is_model; assumption. Qed.
End Tie.

(* non-vacuity: a heartbeat frame (8 bytes) cut after 3 bytes, then the rest together with the
   first 2 bytes of the next frame, then would-block: one frame handed on, 2 bytes kept *)
Example read_from_source_example :
  let hb := [8; 0; 0; 0; 0; 0; 0; 206] in
  let script := [Chunk [8; 0; 0]; Chunk [0; 0; 0; 0; 206; 8; 0]; Block] in
  gen_Inner_read_from (ext_model) (ext_st_model (fun _ => true) (fun _ _ => true)) 6
    (enc_self new_fbuf script []) (VC "stream" []) (VC "handler" [])
  = (enc_self {| buf := [8; 0]; seen := 1 |} [] [(0, hb)], VC "Ok" [VN 10]).
Proof. vm_compute. reflexivity. Qed.
