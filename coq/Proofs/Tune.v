From Amq Require Import Lib.Base Gen.Consts Model.Tune Spec.Tune.

Lemma negf_neg maxv a b : neg maxv a b (negf maxv a b).
Proof.
  unfold neg, negf.
  destruct (N.eqb_spec a 0); destruct (N.eqb_spec b 0);
    (split; [|split; [|split]]); intros; subst; try congruence; try reflexivity; try lia.
Qed.

Lemma neg_unique maxv a b r1 r2 : neg maxv a b r1 -> neg maxv a b r2 -> r1 = r2.
Proof.
  intros (A1 & A2 & A3 & A4) (B1 & B2 & B3 & B4).
  destruct (N.eq_dec a 0); destruct (N.eq_dec b 0).
  - rewrite A1, B1; auto.
  - rewrite A2, B2; auto.
  - rewrite A3, B3; auto.
  - rewrite A4, B4; auto.
Qed.

Lemma min_promote16 a b :
  a <= u16_max -> b <= u16_max ->
  N.min (promote16 a) (promote16 b) = negf u16_max b a.
Proof.
  unfold promote16, negf, u16_max. intros Ha Hb.
  destruct (N.eqb_spec a 0); destruct (N.eqb_spec b 0); subst; lia.
Qed.

Lemma min_promote32 a b :
  a <= u32_max -> b <= u32_max ->
  N.min (promote32 a) (promote32 b) = negf u32_max b a.
Proof.
  unfold promote32, negf, u32_max. intros Ha Hb.
  destruct (N.eqb_spec a 0); destruct (N.eqb_spec b 0); subst; lia.
Qed.

Definition in_u16 (v : N) := v <= u16_max.
Definition in_u32 (v : N) := v <= u32_max.

Theorem tune_characterisation c_cm c_fm c_hb s_cm s_fm s_hb :
  in_u16 c_cm -> in_u32 c_fm -> in_u16 c_hb -> in_u16 s_cm -> in_u32 s_fm -> in_u16 s_hb ->
  let fm := negf u32_max c_fm s_fm in
  make_tune_ok c_cm c_fm c_hb s_cm s_fm s_hb =
    if fm <? c_frame_min_size then FrameMaxTooSmall c_frame_min_size fm
    else TuneOk (negf u16_max c_cm s_cm) fm (N.min c_hb s_hb).
Proof.
  intros H1 H2 H3 H4 H5 H6. unfold make_tune_ok.
  rewrite (min_promote16 H4 H1), (min_promote32 H5 H2), (N.min_comm s_hb c_hb).
  reflexivity.
Qed.

Theorem tune_negotiation c_cm c_fm c_hb s_cm s_fm s_hb cm fm hb :
  in_u16 c_cm -> in_u32 c_fm -> in_u16 c_hb -> in_u16 s_cm -> in_u32 s_fm -> in_u16 s_hb ->
  make_tune_ok c_cm c_fm c_hb s_cm s_fm s_hb = TuneOk cm fm hb ->
  neg u16_max c_cm s_cm cm /\ neg u32_max c_fm s_fm fm /\ neg_hb c_hb s_hb hb /\
  c_frame_min_size <= fm /\ in_u16 cm /\ in_u32 fm /\ in_u16 hb /\ 1 <= cm.
Proof.
  intros H1 H2 H3 H4 H5 H6 E.
  rewrite tune_characterisation in E by assumption. cbv zeta in E.
  destruct (negf u32_max c_fm s_fm <? c_frame_min_size) eqn:Ef; [discriminate|].
  inversion E; subst. apply N.ltb_ge in Ef.
  split; [apply negf_neg|]. split; [apply negf_neg|].
  split; [split; [reflexivity|lia]|].
  split; [exact Ef|].
  unfold in_u16, in_u32, negf, u16_max, u32_max in *.
  destruct (N.eqb_spec c_cm 0); destruct (N.eqb_spec s_cm 0);
  destruct (N.eqb_spec c_fm 0); destruct (N.eqb_spec s_fm 0);
    (split; [|split; [|split]]); lia.
Qed.

Theorem tune_floor c_cm c_fm c_hb s_cm s_fm s_hb :
  in_u16 c_cm -> in_u32 c_fm -> in_u16 c_hb -> in_u16 s_cm -> in_u32 s_fm -> in_u16 s_hb ->
  forall fm, neg u32_max c_fm s_fm fm ->
  (fm < c_frame_min_size <->
   make_tune_ok c_cm c_fm c_hb s_cm s_fm s_hb = FrameMaxTooSmall c_frame_min_size fm) /\
  (c_frame_min_size <= fm <->
   exists cm hb, make_tune_ok c_cm c_fm c_hb s_cm s_fm s_hb = TuneOk cm fm hb).
Proof.
  intros H1 H2 H3 H4 H5 H6 fm Hn.
  assert (fm = negf u32_max c_fm s_fm) by (eapply neg_unique; [exact Hn|apply negf_neg]).
  subst fm. rewrite tune_characterisation by assumption. cbv zeta.
  destruct (negf u32_max c_fm s_fm <? c_frame_min_size) eqn:Ef.
  - apply N.ltb_lt in Ef. split; split; intro H; auto; try lia.
    destruct H as (? & ? & ?). discriminate.
  - apply N.ltb_ge in Ef. split; split; intro H; try lia; try discriminate; eauto.
Qed.
