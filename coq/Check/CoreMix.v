(* generic steady-state correspondence: model agreement + the core oracles *)
From Amq Require Export Check.Core.
Definition oracle_ok := oracle_core.
Definition bad_oracle (cs : list case) : list N := bad_idx oracle_ok 0 cs.
