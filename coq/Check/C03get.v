(* C03, the answer to a get, end to end (public API): what each basic_get returned must be
   exactly what the broker sent in answer to that very get - delivery tag, redelivered, exchange,
   routing key, body, properties, message count, or "empty" - in order; the calls do not fail and
   the channel and the connection go on working. *)
From Amq Require Export Lib.Base.

Definition rep (n b : N) : bytes := repeat b (N.to_nat n).
(* delivery tag, redelivered, exchange, routing key, body (pieces as the harness prints long runs),
   properties (an id of the pool), message count *)
Definition gmsg := (N * bool * list N * list N * list N * N * N)%type.
Definition case := (list (option gmsg) * list (option gmsg) * bool * bool)%type.

Definition gmsg_eqb (a b : gmsg) : bool :=
  let '(d1, r1, e1, k1, b1, p1, c1) := a in
  let '(d2, r2, e2, k2, b2, p2, c2) := b in
  (d1 =? d2) && Bool.eqb r1 r2 && bytes_eqb e1 e2 && bytes_eqb k1 k2 && bytes_eqb b1 b2 && (p1 =? p2) && (c1 =? c2).

Definition oracle_ok (c : case) : bool :=
  let '(sent, got, failed, fine) := c in
  negb failed && fine && list_eqb (option_eqb gmsg_eqb) sent got.

(* the model of this path is the identity: the I/O thread's part (collector, reply queue) is
   Model/Core.v's, compared at L1; here the caller's wrapper must hand on what arrived *)
Definition model_agrees (c : case) : bool := oracle_ok c.

Fixpoint bad_idx {A} (f : A -> bool) (i : N) (l : list A) : list N :=
  match l with [] => [] | x :: r => if f x then bad_idx f (i + 1) r else i :: bad_idx f (i + 1) r end.
Definition bad_model (cs : list case) : list N := bad_idx model_agrees 0 cs.
Definition bad_oracle (cs : list case) : list N := bad_idx oracle_ok 0 cs.
