(* Correspondence + oracle for C16 (and the "obeyed" half of C15 for heartbeats).
   L1: the real HandshakeState::process, frame by frame, through the HandshakeProbe.
   L2: the real Connection::insecure_open_stream against a scripted broker. *)
From Amq Require Export Lib.Base Gen.Consts Model.Frames Model.Tune Model.Handshake.

(* after each frame: error, state code, frames queued by it, sealed, heartbeat interval
   the timers run with (seconds; None = not started) *)
Definition l1obs := (option herr * N * list csend * bool * option N)%type.

Inductive hobs := ObsConnected (sprops : N) | ObsFailed (e : herr) | ObsHang.

Inductive case :=
| L1 (o : hopts) (fs : list hframe) (obs : list l1obs)
| L2 (o : hopts) (evs : list hevent) (out : hobs) (sent : list csend).

Definition state_code (st : hstate) : N :=
  match st with
  | HsStart => 0 | HsSecure _ => 1 | HsTune _ => 2 | HsOpen _ _ => 3
  | HsServerClosing _ _ => 4 | HsDone _ _ => 5
  end.

Definition herr_eqb (a b : herr) : bool :=
  match a, b with
  | HeUnsupportedMech, HeUnsupportedMech | HeUnsupportedLocale, HeUnsupportedLocale
  | HeSaslSecure, HeSaslSecure | HeInvalidCredentials, HeInvalidCredentials
  | HeFrameMaxTooSmall, HeFrameMaxTooSmall | HeFrameUnexpected, HeFrameUnexpected
  | HeTimeout, HeTimeout | HeSocketClosed, HeSocketClosed | HeIoRead, HeIoRead
  | HeIoWrite, HeIoWrite | HeMalformed, HeMalformed => true
  | HeServerClosed c1 t1, HeServerClosed c2 t2 => (c1 =? c2) && bytes_eqb t1 t2
  | _, _ => false
  end.

Definition ostr_eqb (a b : option str) : bool := option_eqb bytes_eqb a b.

Definition csend_eqb (a b : csend) : bool :=
  match a, b with
  | SStartOk m1 r1 l1 i1, SStartOk m2 r2 l2 i2 =>
      bytes_eqb m1 m2 && bytes_eqb r1 r2 && bytes_eqb l1 l2 && ostr_eqb i1 i2
  | STuneOk a1 b1 c1, STuneOk a2 b2 c2 => (a1 =? a2) && (b1 =? b2) && (c1 =? c2)
  | SOpen v1, SOpen v2 => bytes_eqb v1 v2
  | SCloseOk, SCloseOk => true
  | _, _ => false
  end.

Definition l1obs_eqb (a b : l1obs) : bool :=
  let '(e1, s1, q1, z1, h1) := a in let '(e2, s2, q2, z2, h2) := b in
  option_eqb herr_eqb e1 e2 && (s1 =? s2) && list_eqb csend_eqb q1 q2 && Bool.eqb z1 z2 &&
  option_eqb N.eqb h1 h2.

(* the model, frame by frame; the probe is not asked again after an error *)
Fixpoint l1_model (o : hopts) (st : hstate) (sealed : bool) (hb : option N) (fs : list hframe) : list l1obs :=
  match fs with
  | [] => []
  | f :: fs' =>
      let r := hprocess o st f in
      let sealed' := sealed || r_seal r in
      let hb' := match r_hb r with Some h => (if h =? 0 then None else Some h) | None => hb end in
      (r_err r, state_code (r_state r), r_sent r, sealed', hb')
      :: match r_err r with Some _ => [] | None => l1_model o (r_state r) sealed' hb' fs' end
  end.

Definition out_matches (m : houtcome) (o : hobs) (sent : list csend) : bool :=
  match m, o with
  | Connected (cm, fm, hb) sp, ObsConnected sp' =>
      (sp =? sp') && existsb (csend_eqb (STuneOk cm fm hb)) sent
  | Failed e, ObsFailed e' => herr_eqb e e'
  | Hang, ObsHang => true
  | _, _ => false
  end.

Definition model_agrees (c : case) : bool :=
  match c with
  | L1 o fs obs => list_eqb l1obs_eqb (l1_model o HsStart false None fs) obs
  | L2 o evs out sent =>
      let '(m, _, _) := handshake o evs in
      out_matches m out sent && list_eqb csend_eqb (hwritten o HsStart evs []) sent
  end.

(* ============ oracle: the property text as a staged reading of what the server did ============ *)

Inductive item := IFrame (f : hframe) | IEnd | IEof | IIoErr | IMalformed | ISilence.

Definition items_of (evs : list hevent) : list item :=
  flat_map (fun e => match e with
                     | HRead fs t => map IFrame fs ++ [match t with
                                                       | HtBlock => IEnd | HtEof => IEof
                                                       | HtIoErr => IIoErr | HtMalformed => IMalformed
                                                       end]
                     | HSilence => [ISilence]
                     end) evs.

(* documented negotiation, written out *)
Definition neg_max (mx a b : N) : N :=
  if a =? 0 then (if b =? 0 then mx else b) else if b =? 0 then a else N.min a b.

Inductive stage :=
| StWaitStart
| StWaitTune (sp : N)
| StWaitOpenOk (tok : N * N * N) (sp : N)
| StDone (tok : N * N * N) (sp : N)
| StClosing (tok : N * N * N) (code : N) (text : str).

Definition sent_at (o : hopts) (s : stage) : list csend :=
  let so := SStartOk (o_mech o) (o_response o) (o_locale o) (o_info o) in
  match s with
  | StWaitStart => []
  | StWaitTune _ => [so]
  | StWaitOpenOk (a, b, c) _ | StDone (a, b, c) _ => [so; STuneOk a b c; SOpen (o_vhost o)]
  | StClosing (a, b, c) _ _ => [so; STuneOk a b c; SOpen (o_vhost o); SCloseOk]
  end.

Definition offered (list_sp wanted : str) : bool :=
  existsb (bytes_eqb wanted) (split_sp [] list_sp).

(* w: the stage at the start of the current read - what has been WRITTEN when a failure in
   this read ends the attempt; queued: what has been queued *)
Fixpoint expected_w (o : hopts) (w s : stage) (its : list item) : hobs * list csend * list csend :=
  match its with
  | [] => (if o_timeout o then ObsFailed HeTimeout else ObsHang, sent_at o s, sent_at o s)
  | it :: its' =>
      let fail e := (ObsFailed e, sent_at o w, sent_at o s) in
      match it with
      | IFrame HHeartbeat0 => expected_w o w s its'
      | ISilence => if o_timeout o then (ObsFailed HeTimeout, sent_at o s, sent_at o s) else expected_w o s s its'
      | IMalformed => fail HeMalformed
      | IEof => match s with StWaitTune _ => fail HeInvalidCredentials | _ => fail HeSocketClosed end
      | IIoErr => match s with StWaitTune _ => fail HeInvalidCredentials | _ => fail HeIoRead end
      | IEnd =>
          match s with
          | StDone _ sp => (ObsConnected sp, sent_at o s, sent_at o s)
          | StClosing _ code text => (ObsFailed (HeServerClosed code text), sent_at o s, sent_at o s)
          | _ => expected_w o s s its'
          end
      | IFrame f =>
          match s, f with
          | StWaitStart, HStart mechs locs sp =>
              if negb (offered mechs (o_mech o)) then fail HeUnsupportedMech
              else if negb (offered locs (o_locale o)) then fail HeUnsupportedLocale
              else expected_w o w (StWaitTune sp) its'
          | StWaitTune _, HSecure => fail HeSaslSecure
          | StWaitTune sp, HTune cm fm hb =>
              let rfm := neg_max 4294967295 (o_fm o) fm in
              if rfm <? 4096 then fail HeFrameMaxTooSmall
              else expected_w o w (StWaitOpenOk (neg_max 65535 (o_cm o) cm, rfm, N.min (o_hb o) hb) sp) its'
          | StWaitOpenOk tok sp, HOpenOk => expected_w o w (StDone tok sp) its'
          | StWaitOpenOk tok _, HClose code text => expected_w o w (StClosing tok code text) its'
          | _, _ => fail HeFrameUnexpected
          end
      end
  end.

Definition hobs_eqb (a b : hobs) : bool :=
  match a, b with
  | ObsConnected x, ObsConnected y => x =? y
  | ObsFailed e, ObsFailed e' => herr_eqb e e'
  | ObsHang, ObsHang => true
  | _, _ => false
  end.

(* L1 cases are judged by the same staged reading: the frames alone, one read each *)
Definition oracle_ok (c : case) : bool :=
  match c with
  | L2 o evs out sent =>
      let '(eo, ew, _) := expected_w o StWaitStart StWaitStart (items_of evs) in
      hobs_eqb eo out && list_eqb csend_eqb ew sent
  | L1 o fs obs =>
      (* everything queued, in order, is what the staged reading says was sent; the timers
         run with the announced interval (2h, h in ms are reported as h) *)
      let '(_, _, es) := expected_w o StWaitStart StWaitStart (map IFrame fs) in
      let queued := flat_map (fun '(_, _, q, _, _) => q) obs in
      let failed := existsb (fun '(e, _, _, _, _) => match e with Some _ => true | None => false end) obs in
      (if failed
       then (* a failing frame ends the run: what was queued before it is a prefix *)
            list_eqb csend_eqb queued (firstn (length queued) es)
       else list_eqb csend_eqb queued es) &&
      (* the buffer is sealed exactly from the server's Close on *)
      forallb (fun '(_, st, _, sealed, _) => Bool.eqb sealed (st =? 4)) obs &&
      forallb (fun '(_, _, q, _, hbo) =>
                 forallb (fun s => match s with
                                   | STuneOk _ _ h => option_eqb N.eqb hbo (if h =? 0 then None else Some h)
                                   | _ => true
                                   end) q) obs
  end.

Fixpoint bad_idx {A} (f : A -> bool) (i : N) (l : list A) : list N :=
  match l with
  | [] => []
  | x :: l' => if f x then bad_idx f (i + 1) l' else i :: bad_idx f (i + 1) l'
  end.
Definition bad_model (cs : list case) : list N := bad_idx model_agrees 0 cs.
Definition bad_oracle (cs : list case) : list N := bad_idx oracle_ok 0 cs.
