(* Correspondence + property oracles for everything that runs through the I/O thread's
   steady state (C03 C04 C05 C07 C08 C09 C11 C13 C20): a case is a sequence of operations
   applied to the REAL Inner / ConnectionState / handles through the CoreProbe, with
   what was observed after each one. *)
From Amq Require Export Lib.Base Gen.Consts Model.Wire Model.Frames Model.OutBuf
     Model.Collector Model.Slots Model.Core Spec.FrameBuf Spec.Content.

Definition rep (n b : N) : bytes := repeat b (N.to_nat n).

Definition adler (bs : bytes) : N :=
  let '(a, b) := fold_left (fun '(a, b) x => let a' := (a + x) mod 65521 in (a', (b + a') mod 65521))
                           bs (1, 0) in b * 65536 + a.

Inductive cop :=
| OFrame (f : dframe)                 (* ConnectionState::process *)
| OEvent (e : event)                  (* handle_steady_event *)
| OIsDone                             (* is_connection_done *)
| OClSend (ch : N) (m : msg)          (* handle: try_send into the mailbox *)
| OClAllocReq (id : option N)
| OClSetBlocked                       (* new listener queue, its sender offered to the thread *)
| OClNewQ                             (* new (return / confirm) listener queue *)
| OClRecv (q : N)                     (* try_recv on queue q *)
| OClDropRx (q : N)
| OClDropHandle (ch : N)
| OPeekOut                            (* observe the whole out-buffer *)
| OSetHigh (h : N)                    (* buffered_writes_high_water for the events that follow *)
| ONeed                               (* observe channels_need_repoll *)
| OTeardown.

Inductive recv_res := RItem (it : qitem) | REmpty | RDisc.

Inductive cobs :=
| BOutcome (o : outcome) (wire_len wire_adler : N)
| BDone (d : done)
| BSent (ok : bool)
| BNewQ (q : N) (sent : bool)
| BRecv (r : recv_res)
| BBytes (bs : bytes)
| BUnit.

(* phase, outbuf length, outbuf adler32, sealed, open ids *)
Definition digest := (N * N * N * bool * list N)%type.

(* channel_max, mailbox bound, operations, observations, and for the property oracles
   which client-side queue belongs to which addressee (the harness created them) *)
Definition case := (N * N * list cop * list (cobs * digest) * list (N * addressee))%type.

Record world := { w_core : core; w_handles : alist N (* channel -> its reply queue *);
                  w_torn : bool }.

Definition phase_code (p : phase) : N :=
  match p with PSteady => 0 | PServerClosing _ _ => 1 | PClientException => 2 | PClientClosed => 3 end.

Definition digest_of (c : core) : digest :=
  (phase_code (c_phase c), N.of_nat (length (ob (c_out c))), adler (ob (c_out c)),
   ob_sealed (c_out c), sortN (map fst (c_slots c))).

Definition set_rx (q : N) (b : bool) (m : qs) : qs :=
  match alookup q m with
  | None => m
  | Some qu => ainsert q {| q_items := q_items qu; q_hist := q_hist qu; q_cap := q_cap qu; q_tx := q_tx qu; q_rx := b |} m
  end.

Definition step (w : world) (o : cop) : cobs * world :=
  let c := w_core w in
  let upd c' := {| w_core := c'; w_handles := w_handles w; w_torn := w_torn w |} in
  match o with
  | OFrame f =>
      let '(r, c') := process c f in (BOutcome r 0 (adler []), upd c')
  | OEvent e =>
      let '(r, c', wire) := handle_event c e in
      (BOutcome r (N.of_nat (length wire)) (adler wire), upd c')
  | OIsDone => (BDone (is_done c), w)
  | OClSend ch m =>
      let fail := (BSent false, upd (set_qs c (drop_tx_opt (msg_q m) (c_qs c)))) in
      if ch =? 0 then
        match c_ch0 c with
        | Some z =>
            if z_mail_tx z && (N.of_nat (length (z_mail z)) <? c_bound c)
            then (BSent true, upd (set_ch0 c (Some (z_with_mail z (z_mail z ++ [m])))))
            else fail
        | None => fail
        end
      else
        match alookup ch (c_slots c), alookup ch (w_handles w) with
        | Some s, Some rq =>
            if s_mail_tx s && (s_reply s =? rq) && (N.of_nat (length (s_mail s)) <? c_bound c)
            then (BSent true, upd (set_slot c ch (with_mail s (s_mail s ++ [m]))))
            else fail
        | _, _ => fail
        end
  | OClAllocReq id =>
      match c_ch0 c with
      | Some z =>
          if z_alloc_tx z && (N.of_nat (length (z_alloc_req z)) <? 1)
          then (BSent true, upd (set_ch0 c (Some (z_with_alloc z (z_alloc_req z ++ [id])))))
          else (BSent false, w)
      | None => (BSent false, w)
      end
  | OClSetBlocked =>
      let q := c_nextq c in
      let c1 := set_nextq (set_qs c (ainsert q (new_queue None) (c_qs c))) (q + 1) in
      match c_ch0 c1 with
      | Some z =>
          if z_setb_tx z && (N.of_nat (length (z_setb z)) <? 1)
          then (BNewQ q true, upd (set_ch0 c1 (Some (z_with_setb z (z_setb z ++ [q]) (z_blocked z)))))
          else (BNewQ q false, upd (set_qs c1 (drop_tx q (c_qs c1))))
      | None => (BNewQ q false, upd (set_qs c1 (drop_tx q (c_qs c1))))
      end
  | OClNewQ =>
      let q := c_nextq c in
      (BNewQ q true, upd (set_nextq (set_qs c (ainsert q (new_queue None) (c_qs c))) (q + 1)))
  | OClRecv q =>
      match alookup q (c_qs c) with
      | None => (BRecv RDisc, w)
      | Some qu =>
          match q_items qu with
          | it :: rest =>
              let c' := set_qs c (ainsert q {| q_items := rest; q_hist := q_hist qu; q_cap := q_cap qu; q_tx := q_tx qu;
                                               q_rx := q_rx qu |} (c_qs c)) in
              let hs := match it with
                        | IAllocOk id =>
                            match alookup id (c_slots c) with
                            | Some s => ainsert id (s_reply s) (w_handles w)
                            | None => w_handles w
                            end
                        | _ => w_handles w
                        end in
              (BRecv (RItem it), {| w_core := c'; w_handles := hs; w_torn := w_torn w |})
          | [] => (BRecv (if q_tx qu then REmpty else RDisc), w)
          end
      end
  | OClDropRx q => (BUnit, upd (set_qs c (set_rx q false (c_qs c))))
  | OClDropHandle ch =>
      if ch =? 0 then
        match c_ch0 c with
        | Some z =>
            let z' := {| z_mail := z_mail z; z_mail_tx := false; z_reply := z_reply z;
                         z_alloc_req := z_alloc_req z; z_alloc_tx := false; z_alloc_rep := z_alloc_rep z;
                         z_setb := z_setb z; z_setb_tx := false; z_blocked := z_blocked z |} in
            (BUnit, upd (set_ch0 (set_qs c (set_rx 1 false (set_rx 0 false (c_qs c)))) (Some z')))
        | None => (BUnit, upd (set_qs c (set_rx 1 false (set_rx 0 false (c_qs c)))))
        end
      else
        match alookup ch (w_handles w) with
        | None => (BUnit, w)
        | Some rq =>
            let c1 := set_qs c (set_rx rq false (c_qs c)) in
            let c2 := match alookup ch (c_slots c1) with
                      | Some s =>
                          if s_reply s =? rq then
                            set_slot c1 ch {| s_mail := s_mail s; s_mail_tx := false; s_reply := s_reply s;
                                              s_coll := s_coll s; s_consumers := s_consumers s;
                                              s_ret := s_ret s; s_conf := s_conf s;
                                              s_ncons := s_ncons s |}
                          else c1
                      | None => c1
                      end in
            (BUnit, {| w_core := c2; w_handles := aremove ch (w_handles w); w_torn := w_torn w |})
        end
  | OPeekOut => (BBytes (ob (c_out c)), w)
  | OSetHigh h => (BUnit, upd (set_high c h))
  | ONeed => (BSent (c_need c), w)
  | OTeardown => (BUnit, {| w_core := teardown c; w_handles := w_handles w; w_torn := true |})
  end.

Definition torn_digest : digest := (9, 0, 0, false, []).
Definition digest_of_world (w : world) : digest :=
  if w_torn w then torn_digest else digest_of (w_core w).

Fixpoint run (w : world) (ops : list cop) : list (cobs * digest) :=
  match ops with
  | [] => []
  | o :: ops' => let '(b, w') := step w o in (b, digest_of_world w') :: run w' ops'
  end.

Definition model_out (c : case) : list (cobs * digest) :=
  let '(mx, bound, ops, _, _) := c in
  run {| w_core := init_core mx bound; w_handles := []; w_torn := false |} ops.

(* ---------- decidable equality of observations ---------- *)

Definition str_eqb := bytes_eqb.

Definition okkind_eqb (a b : okkind) : bool := okkind_code a =? okkind_code b.

Definition smethod_eqb (a b : smethod) : bool :=
  match a, b with
  | MConnClose c1 t1, MConnClose c2 t2 => (c1 =? c2) && str_eqb t1 t2
  | MConnCloseOk, MConnCloseOk | MUnblocked, MUnblocked | MConnOther, MConnOther
  | MChanCloseOk, MChanCloseOk | MGetEmpty, MGetEmpty | MUnimpl, MUnimpl | MIllegal, MIllegal => true
  | MBlocked r1, MBlocked r2 => str_eqb r1 r2
  | MChanClose c1 t1, MChanClose c2 t2 => (c1 =? c2) && str_eqb t1 t2
  | MConsumeOk t1, MConsumeOk t2 => str_eqb t1 t2
  | MCancel t1 n1, MCancel t2 n2 => str_eqb t1 t2 && Bool.eqb n1 n2
  | MCancelOk t1, MCancelOk t2 => str_eqb t1 t2
  | MDeliver t1 d1 r1 e1 k1, MDeliver t2 d2 r2 e2 k2 =>
      str_eqb t1 t2 && (d1 =? d2) && Bool.eqb r1 r2 && str_eqb e1 e2 && str_eqb k1 k2
  | MReturn c1 t1 e1 k1, MReturn c2 t2 e2 k2 =>
      (c1 =? c2) && str_eqb t1 t2 && str_eqb e1 e2 && str_eqb k1 k2
  | MGetOk d1 r1 e1 k1 n1, MGetOk d2 r2 e2 k2 n2 =>
      (d1 =? d2) && Bool.eqb r1 r2 && str_eqb e1 e2 && str_eqb k1 k2 && (n1 =? n2)
  | MAck d1 m1, MAck d2 m2 => (d1 =? d2) && Bool.eqb m1 m2
  | MNack d1 m1, MNack d2 m2 => (d1 =? d2) && Bool.eqb m1 m2
  | MGeneric k1 s1 a1 b1, MGeneric k2 s2 a2 b2 =>
      okkind_eqb k1 k2 && str_eqb s1 s2 && (a1 =? a2) && (b1 =? b2)
  | _, _ => false
  end.

Definition err_eqb (a b : err) : bool :=
  match a, b with
  | EFrameUnexpected, EFrameUnexpected | EClientDropped, EClientDropped
  | EEventLoopDropped, EEventLoopDropped | EUnexpectedSocketClose, EUnexpectedSocketClose
  | EIoRead, EIoRead | EIoWrite, EIoWrite | EMalformed, EMalformed
  | EMissedHeartbeats, EMissedHeartbeats | EClientClosedConnection, EClientClosedConnection
  | EClientClosedChannel, EClientClosedChannel | EClientException, EClientException
  | EExhaustedChannelIds, EExhaustedChannelIds | EOther, EOther => true
  | EBogusChannel a, EBogusChannel b => a =? b
  | EUnknownConsumerTag a s, EUnknownConsumerTag b t => (a =? b) && str_eqb s t
  | EDuplicateConsumerTag a s, EDuplicateConsumerTag b t => (a =? b) && str_eqb s t
  | EServerClosedConnection a s, EServerClosedConnection b t => (a =? b) && str_eqb s t
  | EServerClosedChannel n a s, EServerClosedChannel m b t => (n =? m) && (a =? b) && str_eqb s t
  | EUnavailableChannelId a, EUnavailableChannelId b => a =? b
  | _, _ => false
  end.

Definition message_eqb (a b : message) : bool :=
  (m_ch a =? m_ch b) && (m_dtag a =? m_dtag b) && Bool.eqb (m_redelivered a) (m_redelivered b) &&
  str_eqb (m_exch a) (m_exch b) && str_eqb (m_rk a) (m_rk b) &&
  bytes_eqb (m_body a) (m_body b) && (m_props a =? m_props b).

Definition qitem_eqb (a b : qitem) : bool :=
  match a, b with
  | IReplyMethod m1, IReplyMethod m2 => smethod_eqb m1 m2
  | IReplyConsumeOk t1 q1, IReplyConsumeOk t2 q2 => str_eqb t1 t2 && (q1 =? q2)
  | IReplyGet None, IReplyGet None => true
  | IReplyGet (Some (m1, c1)), IReplyGet (Some (m2, c2)) => message_eqb m1 m2 && (c1 =? c2)
  | IReplyErr e1, IReplyErr e2 => err_eqb e1 e2
  | IDelivery m1, IDelivery m2 => message_eqb m1 m2
  | IClientCancelled, IClientCancelled | IServerCancelled, IServerCancelled
  | IClientClosedChannel, IClientClosedChannel
  | IClientClosedConnection, IClientClosedConnection | IUnblocked, IUnblocked => true
  | IServerClosedChannel e1, IServerClosedChannel e2 => err_eqb e1 e2
  | IServerClosedConnection e1, IServerClosedConnection e2 => err_eqb e1 e2
  | IReturn c1 t1 e1 k1 b1 p1, IReturn c2 t2 e2 k2 b2 p2 =>
      (c1 =? c2) && str_eqb t1 t2 && str_eqb e1 e2 && str_eqb k1 k2 && bytes_eqb b1 b2 && (p1 =? p2)
  | IConfirm a1 d1 m1, IConfirm a2 d2 m2 => Bool.eqb a1 a2 && (d1 =? d2) && Bool.eqb m1 m2
  | IBlocked r1, IBlocked r2 => str_eqb r1 r2
  | IAllocOk a, IAllocOk b => a =? b
  | IAllocErr e1, IAllocErr e2 => err_eqb e1 e2
  | _, _ => false
  end.

Definition outcome_eqb (a b : outcome) : bool :=
  match a, b with
  | OOk, OOk => true
  | OErr e1, OErr e2 => err_eqb e1 e2
  | OPanic _, OPanic _ => true
  | _, _ => false
  end.

Definition cobs_eqb (a b : cobs) : bool :=
  match a, b with
  | BOutcome o1 l1 s1, BOutcome o2 l2 s2 => outcome_eqb o1 o2 && (l1 =? l2) && (s1 =? s2)
  | BDone DNotDone, BDone DNotDone | BDone DDone, BDone DDone
  | BDone DAssertFailed, BDone DAssertFailed => true
  | BSent a, BSent b => Bool.eqb a b
  | BNewQ q1 s1, BNewQ q2 s2 => (q1 =? q2) && Bool.eqb s1 s2
  | BRecv (RItem i1), BRecv (RItem i2) => qitem_eqb i1 i2
  | BRecv REmpty, BRecv REmpty | BRecv RDisc, BRecv RDisc => true
  | BUnit, BUnit => true
  | BBytes a, BBytes b => bytes_eqb a b
  | _, _ => false
  end.

Definition digest_eqb (a b : digest) : bool :=
  let '(p1, l1, s1, z1, i1) := a in let '(p2, l2, s2, z2, i2) := b in
  (p1 =? p2) && (l1 =? l2) && (s1 =? s2) && Bool.eqb z1 z2 && list_eqb N.eqb i1 i2.

(* does the op feed a connection-level Close / CloseOk? *)
Definition is_conn_close_frame (f : frame) : bool :=
  match f with FMethod 0 (MConnClose _ _) | FMethod 0 MConnCloseOk => true | _ => false end.
(* ... or a server Channel.Close (which notifies every consumer of the slot) *)
Definition is_chan_close_frame (f : frame) : bool :=
  match f with FMethod _ (MChanClose _ _) => true | _ => false end.
Definition op_has_chan_close (o : cop) : bool :=
  match o with
  | OFrame (f, _) => is_chan_close_frame f
  | OEvent (EvStream _ (Some (fs, _))) => existsb (fun '(f, _) => is_chan_close_frame f) fs
  | _ => false
  end.
Definition op_has_conn_close (o : cop) : bool :=
  match o with
  | OFrame (f, _) => is_conn_close_frame f
  | OEvent (EvStream _ (Some (fs, _))) => existsb (fun '(f, _) => is_conn_close_frame f) fs
  | _ => false
  end.

Definition is_err_outcome (b : cobs) : bool :=
  match b with BOutcome (OErr _) _ _ => true | _ => false end.

(* After a panic the probe is poisoned: compare up to and including it.
   When notifying every slot of a connection close fails midway (a full or dropped reply
   queue) with two or more slots open, WHICH slots were already notified - and which of two
   failing slots reports its error - follows the iteration order of a std HashMap, which
   nothing fixes: both sides must fail, and the comparison stops there.  The same holds
   inside one slot when a server Channel.Close (or a connection close) fails while notifying
   its consumers (one of two consumers' receivers was dropped without a cancel): which of
   them was told first is the order of the slot's consumer HashMap. *)
Fixpoint agree (nopen : nat) (ops : list cop) (m obs : list (cobs * digest)) : bool :=
  match m, obs with
  | [], [] => true
  | (b1, d1) :: m', (b2, d2) :: obs' =>
      match b2 with
      | BOutcome (OPanic _) _ _ => cobs_eqb b1 b2
      | _ =>
          if is_err_outcome b2 &&
             (((1 <=? nopen)%nat && op_has_conn_close (hd OIsDone ops)) || op_has_chan_close (hd OIsDone ops))
          then is_err_outcome b1
          else cobs_eqb b1 b2 && digest_eqb d1 d2 &&
               agree (length (snd d2)) (tl ops) m' obs'
      end
  | _, _ => false
  end.

Definition model_agrees (c : case) : bool :=
  let '(_, _, ops, obs, _) := c in agree 0 ops (model_out c) obs.

(* ====================== property oracles (model-independent) ====================== *)

(* ---- the compliant reading of a frame sequence (C03 / C07) ---- *)

(* frames fed to the thread by a case, in order *)
Definition frames_of_op (o : cop) : list frame :=
  match o with
  | OFrame (f, _) => [f]
  | OEvent (EvStream _ (Some (fs, _))) => map fst fs
  | _ => []
  end.
Definition frames_of (ops : list cop) : list frame := flat_map frames_of_op ops.

(* messages observed at the client side, with the queue they came from *)
Fixpoint received (ops : list cop) (obs : list (cobs * digest)) : list (N * qitem) :=
  match ops, obs with
  | OClRecv q :: ops', (BRecv (RItem it), _) :: obs' => (q, it) :: received ops' obs'
  | _ :: ops', _ :: obs' => received ops' obs'
  | _, _ => []
  end.

Definition rmsg_of_item (it : qitem) : option rmsg :=
  match it with
  | IDelivery m => Some (RDelivery m)
  | IReplyGet (Some (m, c)) => Some (RGot m c)
  | IReturn c t e k b p => Some (RReturned c t e k b p)
  | _ => None
  end.

Definition rmsg_eqb (a b : rmsg) : bool :=
  match a, b with
  | RDelivery m1, RDelivery m2 => message_eqb m1 m2
  | RGot m1 c1, RGot m2 c2 => message_eqb m1 m2 && (c1 =? c2)
  | RReturned c1 t1 e1 k1 b1 p1, RReturned c2 t2 e2 k2 b2 p2 =>
      (c1 =? c2) && str_eqb t1 t2 && str_eqb e1 e2 && str_eqb k1 k2 && bytes_eqb b1 b2 && (p1 =? p2)
  | _, _ => false
  end.

(* is l1 a subsequence of l2 ? *)
Fixpoint subseq {A} (eqb : A -> A -> bool) (l1 l2 : list A) : bool :=
  match l1, l2 with
  | [], _ => true
  | _, [] => false
  | x :: l1', y :: l2' => if eqb x y then subseq eqb l1' l2' else subseq eqb l1 l2'
  end.

Definition addressee_eqb (a b : addressee) : bool :=
  match a, b with
  | AConsumer c1 t1, AConsumer c2 t2 => (c1 =? c2) && str_eqb t1 t2
  | AGetter c1, AGetter c2 | AReturn c1, AReturn c2 | AConfirm c1, AConfirm c2 => c1 =? c2
  | ABlocked, ABlocked => true
  | _, _ => false
  end.

Definition items_from (q : N) (rc : list (N * qitem)) : list qitem :=
  flat_map (fun '(q', it) => if q' =? q then [it] else []) rc.
Definition msgs_of (its : list qitem) : list rmsg :=
  flat_map (fun it => match rmsg_of_item it with Some m => [m] | None => [] end) its.
Definition expected_for (a : addressee) (rr : list (addressee * rmsg)) : list rmsg :=
  flat_map (fun '(a', m) => if addressee_eqb a a' then [m] else []) rr.

(* O-content: per client-side queue, the messages received from it are, in order, among
   (sub = true: "never mis-delivered") or exactly (sub = false: "exactly once, intact, in
   order") what the compliant reading of the frames fed yields for that queue's
   addressee; and no message arrives on a queue that has no addressee *)
Definition oracle_content_gen (sub : bool) (ops : list cop) (obs : list (cobs * digest))
           (aux : list (N * addressee)) : bool :=
  let rc := received ops obs in
  let rr := ref_read [] (frames_of ops) in
  forallb (fun '(q, a) =>
             let got := msgs_of (items_from q rc) in
             let want := expected_for a rr in
             if sub then subseq rmsg_eqb got want else list_eqb rmsg_eqb got want) aux
  && forallb (fun '(q, it) => match rmsg_of_item it with
                              | Some _ => existsb (fun '(q', _) => q' =? q) aux
                              | None => true
                              end) rc.
Definition oracle_content ops obs aux := oracle_content_gen true ops obs aux.

(* O-panic: nothing panicked, no assertion failed *)
Definition oracle_no_panic (obs : list (cobs * digest)) : bool :=
  forallb (fun '(b, _) => match b with
                          | BOutcome (OPanic _) _ _ => false
                          | BDone DAssertFailed => false
                          | _ => true
                          end) obs.

(* O-consumer: per consumer queue: deliveries, then at most one terminal message, and
   nothing after it (C11) *)
Definition is_terminal (it : qitem) : bool :=
  match it with
  | IClientCancelled | IServerCancelled | IClientClosedChannel | IServerClosedChannel _
  | IClientClosedConnection | IServerClosedConnection _ => true
  | _ => false
  end.
Definition consumer_queues (rc : list (N * qitem)) : list N :=
  flat_map (fun '(_, it) => match it with IReplyConsumeOk _ q => [q] | _ => [] end) rc.
Fixpoint shape_ok (seen_terminal : bool) (its : list qitem) : bool :=
  match its with
  | [] => true
  | it :: its' =>
      if seen_terminal then false
      else if is_terminal it then shape_ok true its'
      else match it with IDelivery _ => shape_ok false its' | _ => false end
  end.
Definition oracle_consumers (ops : list cop) (obs : list (cobs * digest)) : bool :=
  let rc := received ops obs in
  forallb (fun q => shape_ok false (flat_map (fun '(q', it) => if q' =? q then [it] else []) rc))
          (consumer_queues rc).

(* O-heartbeats: a pass over the heartbeat timers in which the receive timer has expired (no
   byte from the server for two intervals) ends the connection with MissedServerHeartbeats -
   whatever else is going on: a close in flight, a sealed buffer, a client exception (C05, C17) *)
Fixpoint rx_expired (fired : list (hbkind * bool)) : bool :=
  match fired with
  | [] => false
  | (HbRx, true) :: _ => true
  | _ :: rest => rx_expired rest
  end.
Definition oracle_heartbeats (ops : list cop) (obs : list (cobs * digest)) : bool :=
  forallb (fun '(o, (b, _)) =>
             match o, b with
             | OEvent (EvHeartbeat fired), BOutcome out _ _ =>
                 if rx_expired fired then outcome_eqb out (OErr EMissedHeartbeats) else true
             | _, _ => true
             end) (combine ops obs).

Definition oracle_core (c : case) : bool :=
  let '(_, _, ops, obs, aux) := c in
  oracle_no_panic obs && oracle_content ops obs aux && oracle_consumers ops obs && oracle_heartbeats ops obs.

Fixpoint bad_idx {A} (f : A -> bool) (i : N) (l : list A) : list N :=
  match l with
  | [] => []
  | x :: l' => if f x then bad_idx f (i + 1) l' else i :: bad_idx f (i + 1) l'
  end.
Definition bad_model (cs : list case) : list N := bad_idx model_agrees 0 cs.

(* debugging aid: the first position where model and implementation differ *)
Fixpoint first_diff (i : N) (m obs : list (cobs * digest)) (ops : list cop)
  : option (N * option cop * option (cobs * digest) * option (cobs * digest)) :=
  match m, obs with
  | [], [] => None
  | x :: m', y :: obs' =>
      if cobs_eqb (fst x) (fst y) && digest_eqb (snd x) (snd y)
      then first_diff (i + 1) m' obs' (tl ops)
      else Some (i, hd_error ops, Some x, Some y)
  | x :: _, [] => Some (i, hd_error ops, Some x, None)
  | [], y :: _ => Some (i, hd_error ops, None, Some y)
  end.
Definition diff_of (c : case) :=
  let '(_, _, ops, obs, _) := c in first_diff 0 (model_out c) obs ops.
