(* C03 end to end: consumers obtained through the public API on a real connection; the broker
   pushes deliveries with bodies in any partition, channels interleaved, the byte stream cut
   anywhere; every consumer's receiver is read out.
   case = (per channel (in the order they were opened: ids 1, 2, ..) the consumer tags in the
           order they were created, the frames pushed, per consumer (channel, tag, what its
           receiver yielded)) *)
From Amq Require Export Check.Core.

Definition case := (list (list str) * list dframe * list (N * str * list qitem))%type.

Definition wstep (w : world) (o : cop) : world := snd (step w o).
Definition wrun (w : world) (ops : list cop) : world := fold_left wstep ops w.
Definition w0 : world := {| w_core := init_core 100 16; w_handles := []; w_torn := false |}.

Fixpoint setup_ops (ch : N) (chans : list (list str)) : list cop :=
  match chans with
  | [] => []
  | tags :: rest =>
      [OClAllocReq None; OEvent EvAlloc; OClRecv 1] ++
      flat_map (fun t => [OFrame (FMethod ch (MConsumeOk t), [])]) tags ++
      setup_ops (ch + 1) rest
  end.

(* the model of the same history: what each consumer's queue accepted, in order *)
Definition model_queue (c : core) (ch : N) (tag : str) : list qitem :=
  match alookup ch (c_slots c) with
  | Some s => match lookup_tag tag (s_consumers s) with
              | Some q => match alookup q (c_qs c) with Some qu => q_hist qu | None => [] end
              | None => []
              end
  | None => []
  end.

Definition model_out (c : case) : list (list qitem) :=
  let '(chans, frames, got) := c in
  let w := wrun (wrun w0 (setup_ops 1 chans)) (map OFrame frames) in
  map (fun '(ch, tag, _) => model_queue (w_core w) ch tag) got.

Definition model_agrees (c : case) : bool :=
  let '(_, _, got) := c in
  list_eqb (list_eqb qitem_eqb) (model_out c) (map (fun '(_, _, items) => items) got).

(* the property on the observations alone: a straightforward reader of the frame stream -
   per channel: Deliver, then the header, then body frames until the announced size *)
Definition pend := (str * N * bool * str * str * N * N * bytes)%type.  (* tag dtag red exch rk size props acc *)

Fixpoint read_frames (fs : list dframe) (st : alist pend) : list (N * str * message) :=
  match fs with
  | [] => []
  | (f, _) :: r =>
      match f with
      | FMethod ch (MDeliver tag dtag red exch rk) =>
          read_frames r (ainsert ch (tag, dtag, red, exch, rk, 0, 0, []) st)
      | FHeader ch size props =>
          match alookup ch st with
          | Some (tag, dtag, red, exch, rk, _, _, _) =>
              if size =? 0
              then (ch, tag, {| m_ch := ch; m_dtag := dtag; m_redelivered := red; m_exch := exch;
                                m_rk := rk; m_body := []; m_props := props |})
                   :: read_frames r (aremove ch st)
              else read_frames r (ainsert ch (tag, dtag, red, exch, rk, size, props, []) st)
          | None => read_frames r st
          end
      | FBody ch b =>
          match alookup ch st with
          | Some (tag, dtag, red, exch, rk, size, props, acc) =>
              let acc' := acc ++ b in
              if N.of_nat (length acc') =? size
              then (ch, tag, {| m_ch := ch; m_dtag := dtag; m_redelivered := red; m_exch := exch;
                                m_rk := rk; m_body := acc'; m_props := props |})
                   :: read_frames r (aremove ch st)
              else read_frames r (ainsert ch (tag, dtag, red, exch, rk, size, props, acc') st)
          | None => read_frames r st
          end
      | _ => read_frames r st
      end
  end.

Definition oracle_ok (c : case) : bool :=
  let '(_, frames, got) := c in
  let sent := read_frames frames [] in
  forallb (fun '(ch, tag, items) =>
             list_eqb qitem_eqb items
               (map (fun '(_, _, m) => IDelivery m)
                    (filter (fun '(ch', tag', _) => (ch' =? ch) && bytes_eqb tag' tag) sent))) got &&
  (* nothing delivered to nobody: every message sent was for one of the consumers *)
  (N.of_nat (length sent) =? N.of_nat (fold_left (fun a '(_, _, items) => (a + length items)%nat) got 0%nat)).

Definition bad_model (cs : list case) : list N := bad_idx model_agrees 0 cs.
Definition bad_oracle (cs : list case) : list N := bad_idx oracle_ok 0 cs.
