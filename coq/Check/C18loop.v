(* Correspondence + oracle for the wake-up discipline (C18, and the loop tail of C01): the
   REAL run_io_loop - real Poll, real mio-extras channels, real handle_steady_event, real
   throttle tail - is run on the harness thread through the LoopProbe; the harness plays the
   publishers and the transport from a callback.  A case is the sequence of micro-steps in the
   order they really happened, each with what was observed.
   case = ((bound, high, low), steps, all accepted messages were transmitted once and in order,
           largest message) *)
From Amq Require Export Lib.Base Model.Wake Model.Loop.

Inductive lobs :=
| BAccepted (b : bool)                         (* WSend: try_send succeeded *)
| BPolled (chs : list N)                       (* WPoll: channel tokens reported, sorted *)
| BEvent (code out : N) (need : bool)          (* WEv: 0 ok / 1 client dropped; outbuf.len(); need_repoll *)
| BOut (out : N)                               (* WWrote / WGrow: outbuf.len() *)
| BTail (action : N) (listening need : bool) (interest_rw : bool)
| BUnit
| BAny.                                       (* not observable (the batch was cut short by an error) *)

Definition case := ((N * N * N) * list (wop * lobs) * bool * N)%type.

Fixpoint insert_sorted (x : N) (l : list N) : list N :=
  match l with [] => [x] | y :: r => if x <=? y then x :: l else y :: insert_sorted x r end.
Definition sortN (l : list N) : list N := fold_right insert_sorted [] l.

Definition action_code (a : action) : N :=
  match a with ANone => 0 | ADeregister => 1 | AResume => 2 | ARearm => 3 end.

(* the two models side by side: the wake-up state and the socket-interest state of the tail *)
Record lw := { lw_w : wstate; lw_l : loop; lw_had : bool (* has_data_to_write() after the poll *) }.

Definition lstep (s : lw) (o : wop) : lobs * lw :=
  let w := lw_w s in
  let keep w' := {| lw_w := w'; lw_l := lw_l s; lw_had := lw_had s |} in
  match o with
  | WSend ch sz => let '(b, w') := wsend w ch sz in (BAccepted b, keep w')
  | WDropTx ch => (BUnit, keep (wdrop w ch))
  | WPoll => let '(evs, w') := wpoll w in
             (BPolled (sortN evs), {| lw_w := w'; lw_l := lw_l s; lw_had := negb (w_out w =? 0) |})
  | WEv ch => let '(r, w') := wevent w ch in
              (BEvent (match r with EvOk => 0 | EvClientDropped => 1 | EvNotPending => 9 end)
                      (w_out w') (w_need w'), keep w')
  | WWrote k => let w' := wwrote w k in (BOut (w_out w'), keep w')
  | WGrow k => let w' := wgrow w k in (BOut (w_out w'), keep w')
  | WAlloc ch => (BUnit, keep (walloc w ch))
  | WRemove ch => (BUnit, keep (wremove w ch))
  | WTail =>
      let '(a, w') := wtail w in
      let '(l', _) := loop_tail (lw_l s) (lw_had s) (w_out w) (w_high w) (w_low w) in
      (BTail (action_code a) (w_listening w') (w_need w')
             (match l_interest l' with IReadWrite => true | IRead => false end),
       {| lw_w := w'; lw_l := l'; lw_had := lw_had s |})
  end.

Fixpoint lrun (s : lw) (ops : list wop) : list lobs :=
  match ops with [] => [] | o :: r => let '(b, s') := lstep s o in b :: lrun s' r end.

Definition lobs_eqb (a b : lobs) : bool :=
  match a, b with
  | BAccepted x, BAccepted y => Bool.eqb x y
  | BPolled x, BPolled y => list_eqb N.eqb x y
  | BEvent c1 o1 n1, BEvent c2 o2 n2 => (c1 =? c2) && (o1 =? o2) && Bool.eqb n1 n2
  | BOut x, BOut y => x =? y
  | BTail a1 l1 n1 i1, BTail a2 l2 n2 i2 => (a1 =? a2) && Bool.eqb l1 l2 && Bool.eqb n1 n2 && Bool.eqb i1 i2
  | BUnit, BUnit => true
  | _, BAny => true
  | _, _ => false
  end.

(* the loop starts after the handshake: the socket has been written to, the protocol header
   is gone, the socket is registered readable | writable *)
Definition linit (bound high low : N) : lw :=
  {| lw_w := winit bound high low;
     lw_l := {| l_listening := true; l_interest := IReadWrite; l_have_written := true |};
     lw_had := false |}.

Definition model_out (c : case) : list lobs :=
  let '((bound, high, low), steps, _, _) := c in lrun (linit bound high low) (map fst steps).

Definition model_agrees (c : case) : bool :=
  let '(_, steps, _, _) := c in list_eqb lobs_eqb (model_out c) (map snd steps).

(* the first step where model and code part, for the replay *)
Fixpoint first_diff (i : N) (a b : list lobs) : option N :=
  match a, b with
  | [], [] => None
  | x :: a', y :: b' => if lobs_eqb x y then first_diff (i + 1) a' b' else Some i
  | _, _ => Some i
  end.
Definition diff_of (c : case) : option N :=
  let '(_, steps, _, _) := c in first_diff 0 (model_out c) (map snd steps).

(* the property, on the observations alone: everything accepted was transmitted exactly once
   and in order by the time the run had drained, and no channel event ever left the buffer
   above high + one message unless it found it there *)
Fixpoint events_bounded (high mx prev : N) (steps : list (wop * lobs)) : bool :=
  match steps with
  | [] => true
  | (_, BEvent _ out _) :: r => (out <=? N.max prev (high + mx)) && events_bounded high mx out r
  | (_, BOut out) :: r => events_bounded high mx out r
  | _ :: r => events_bounded high mx prev r
  end.

Definition oracle_ok (c : case) : bool :=
  let '((_, high, _), steps, delivered, mx) := c in delivered && events_bounded high mx 0 steps.

Fixpoint bad_idx {A} (f : A -> bool) (i : N) (l : list A) : list N :=
  match l with [] => [] | x :: r => if f x then bad_idx f (i + 1) r else i :: bad_idx f (i + 1) r end.
Definition bad_model (cs : list case) : list N := bad_idx model_agrees 0 cs.
Definition bad_oracle (cs : list case) : list N := bad_idx oracle_ok 0 cs.
