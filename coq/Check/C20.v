(* C20 oracle: closes and requests handled in one wake-up never panic; handling them is
   by construction of the model the serial handling in batch order (the correspondence
   compares every observation with it); here, independently of the model: nothing panics,
   no assertion fails, errors are only the documented ones, and after a server
   Connection.Close that was processed the thread is in ServerClosing until it ends -
   Connection::close reports the server's close. *)
From Amq Require Export Check.CoreOracles.
From Amq Require Check.C08.

Definition is_close (f : frame) : bool := match f with FMethod 0 (MConnClose _ _) => true | _ => false end.

Definition benign (e : err) : bool :=
  match e with
  | EFrameUnexpected | EBogusChannel _ => true   (* frames after the close in the same read *)
  | _ => false
  end.

(* the CloseOk of a channel whose own Close crossed the server's arrives for a slot that is
   gone: that is not an error (each request either takes effect before the close or fails with
   the close's error - it does not end the connection) *)
Definition only_chan_close_ok (o : cop) : bool :=
  match frames_of_op o with
  | [] => false
  | fs => forallb (fun f => match f with FMethod n MChanCloseOk => negb (n =? 0) | _ => false end) fs
  end.
Fixpoint late_close_ok_fine (prev_phase : N) (l : list (cop * cobs * digest)) : bool :=
  match l with
  | [] => true
  | (o, b, d) :: l' =>
      (if only_chan_close_ok o && (prev_phase =? 0)
       then match b with BOutcome OOk _ _ => true | BOutcome _ _ _ => false | _ => true end
       else true) && late_close_ok_fine (d_phase d) l'
  end.

Fixpoint after_close (seen : bool) (l : list (cop * cobs * digest)) : bool :=
  match l with
  | [] => true
  | (o, b, d) :: l' =>
      let ok_out := match b with
                    | BOutcome (OErr e) _ _ => benign e
                    | _ => true
                    end in
      let seen' := seen || (existsb is_close (frames_of_op o) &&
                            match b with BOutcome OOk _ _ => true | _ => false end) in
      ok_out && (negb seen' || (d_phase d =? 1) || (d_phase d =? 9)) &&
      (match o, b with
       | OIsDone, BDone dn =>
           negb seen' || match dn with
                         | DDone => d_len d =? 0
                         | DNotDone => negb (d_len d =? 0)
                         | DAssertFailed => false
                         end
       | _, _ => true
       end) && after_close seen' l'
  end.

Definition oracle_ok (c : case) : bool :=
  let '(_, _, ops, obs, aux) := c in
  oracle_no_panic obs && oracle_consumers ops obs && after_close false (zip3 ops obs) &&
  late_close_ok_fine 0 (zip3 ops obs) &&
  (* a request handled after the close point (the buffer is sealed) fails or is dropped: it is
     never written behind the closing frame *)
  C08.frozen_after_seal obs.
Definition bad_oracle (cs : list case) : list N := bad_idx oracle_ok 0 cs.
