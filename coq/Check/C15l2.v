(* C15 "and then obeyed", end to end: a real connection with a client channel_max option and a
   server Tune channel_max; channels are opened until refused (at most `tries`), then explicit
   ids around the negotiated maximum are tried.
   case = (client channel_max, server channel_max, tries, channels opened by open_channel(None),
           the error that ended it 0 none / 1 ExhaustedChannelIds / 9 other,
           open_channel(Some(max)) on a fresh connection succeeded,
           open_channel(Some(max + 1)) was refused with UnavailableChannelId) *)
From Amq Require Export Lib.Base Gen.Consts Model.Tune Model.Slots.

Definition case := (N * N * N * N * N * bool * bool)%type.

Definition negotiated (c_cm s_cm : N) : N :=
  match make_tune_ok c_cm 0 0 s_cm 131072 0 with
  | TuneOk cm _ _ => promote16 cm
  | _ => 0
  end.

(* the model: ids 1 .. max are available, one after the other; nothing above *)
Definition model_out (c : case) : N * N * bool * bool :=
  let '(c_cm, s_cm, tries, _, _, _, _) := c in
  let m := negotiated c_cm s_cm in
  (N.min tries m, (if m <? tries then 1 else 0), true, true).

Definition model_agrees (c : case) : bool :=
  let '(c_cm, s_cm, _, opened, err, at_max, above) := c in
  let '(o, e, a, b) := model_out c in
  (o =? opened) && (e =? err) && Bool.eqb a at_max &&
  (Bool.eqb b above || (negotiated c_cm s_cm =? 65535)).

(* the property: exactly the ids 1 .. min(client, server) (0 = no limit) can be open *)
Definition oracle_ok (c : case) : bool :=
  let '(c_cm, s_cm, tries, opened, err, at_max, above) := c in
  let lim := if c_cm =? 0 then (if s_cm =? 0 then 65535 else s_cm)
             else if s_cm =? 0 then c_cm else N.min c_cm s_cm in
  (opened =? N.min tries lim) && (if lim <? tries then err =? 1 else err =? 0) && at_max &&
  (above || (lim =? 65535)).

Fixpoint bad_idx {A} (f : A -> bool) (i : N) (l : list A) : list N :=
  match l with [] => [] | x :: r => if f x then bad_idx f (i + 1) r else i :: bad_idx f (i + 1) r end.
Definition bad_model (cs : list case) : list N := bad_idx model_agrees 0 cs.
Definition bad_oracle (cs : list case) : list N := bad_idx oracle_ok 0 cs.
