(* C04 oracle: every reply-class frame of a channel is carried, unchanged and in order, by
   that channel's reply queue and by no other. *)
From Amq Require Export Check.CoreOracles.

Definition oracle_ok (c : case) : bool :=
  let '(_, _, ops, obs, aux) := c in
  let rc := received ops obs in
  let fs := frames_of ops in
  oracle_no_panic obs && all_ok obs &&
  forallb (fun '(q, a) =>
             match a with
             | AGetter ch =>
                 qitem_list_eqb (flat_map reply_item_norm (items_from q rc))
                                (flat_map (reply_item_of_frame ch) fs)
             | _ => true
             end) aux.
Definition bad_oracle (cs : list case) : list N := bad_idx oracle_ok 0 cs.
