(* C13 end to end: a real connection; the listener comes from the PUBLIC API
   (Channel::listen_for_publisher_confirms / listen_for_returns,
   Connection::listen_for_connection_blocked); the broker pushes a long run of confirms /
   returns / blocked notices before the client reads anything; then the client drains its
   receiver.  Kinds 3 (confirms) and 4 (returns): a few notices that the server sends between
   the client's Channel.Close and its own CloseOk - the listener registered before must still
   get them.  case = (kind 0 confirms / 1 returns / 2 blocked / 3 / 4, frames pushed in order,
   items received in order, the connection was still fine afterwards) *)
From Amq Require Export Check.Core.

Definition case := (N * list dframe * list qitem * bool)%type.

Definition wstep (w : world) (o : cop) : world := snd (step w o).
Definition wrun (w : world) (ops : list cop) : world := fold_left wstep ops w.

Definition w0 : world := {| w_core := init_core 100 16; w_handles := []; w_torn := false |}.

(* the model of the same history: a listener queue is created and installed the way the
   handle does it, then the frames are processed; what that queue accepted, in order *)
Definition model_out (c : case) : list qitem :=
  let '(kind, frames, _, _) := c in
  let '(w2, q) :=
    if kind =? 2 then
      let q := c_nextq (w_core w0) in
      (wrun w0 [OClSetBlocked; OEvent EvSetBlocked], q)
    else
      let w1 := wrun w0 [OClAllocReq None; OEvent EvAlloc; OClRecv 1] in
      let q := c_nextq (w_core w1) in
      (wrun w1 [OClNewQ; OClSend 1 (if (kind =? 0) || (kind =? 3) then MsgSetConfirm (Some q) else MsgSetReturn (Some q));
                OEvent (EvChan 1)], q) in
  let w3 := wrun w2 (map OFrame frames) in
  match alookup q (c_qs (w_core w3)) with
  | Some qu => q_hist qu
  | None => []
  end.

Definition model_agrees (c : case) : bool :=
  let '(_, _, got, _) := c in list_eqb qitem_eqb (model_out c) got.

(* the property on the observations alone: what the listener yields is what the server sent,
   verbatim and in order, nothing missing at any length *)
Definition item_of_frames (fs : list dframe) : list qitem :=
  let fix go (fs : list dframe) (pend : option (N * str * str * str * N * bytes * N)) : list qitem :=
    match fs with
    | [] => []
    | (f, _) :: r =>
        match f, pend with
        | FMethod _ (MAck t m), _ => IConfirm true t m :: go r None
        | FMethod _ (MNack t m), _ => IConfirm false t m :: go r None
        | FMethod 0 (MBlocked s), _ => IBlocked s :: go r None
        | FMethod 0 MUnblocked, _ => IUnblocked :: go r None
        | FMethod _ (MReturn code text exch rk), _ => go r (Some (code, text, exch, rk, 0, [], 0))
        | FHeader _ size props, Some (code, text, exch, rk, _, _, _) =>
            if size =? 0 then IReturn code text exch rk [] props :: go r None
            else go r (Some (code, text, exch, rk, size, [], props))
        | FBody _ b, Some (code, text, exch, rk, size, acc, props) =>
            let acc' := acc ++ b in
            if N.of_nat (length acc') =? size then IReturn code text exch rk acc' props :: go r None
            else go r (Some (code, text, exch, rk, size, acc', props))
        | _, _ => go r pend
        end
    end in go fs None.

Definition oracle_ok (c : case) : bool :=
  let '(_, frames, got, fine) := c in fine && list_eqb qitem_eqb (item_of_frames frames) got.

Definition bad_model (cs : list case) : list N := bad_idx model_agrees 0 cs.
Definition bad_oracle (cs : list case) : list N := bad_idx oracle_ok 0 cs.
