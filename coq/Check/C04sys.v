(* Correspondence + oracle for the system-level statement of C04 (Model/Sys.v, Proofs/Sys.v):
   a case is one yrun of the REAL connection - K caller threads with their programs on K
   channels, a broker answering the channels in any relative order - and what every call
   returned.  The model is yrun under a pseudo-random schedule of its own (then flushed); by
   C04_system_own_reply its results do not depend on the schedule, and the real program's
   must be the same. *)
From Amq Require Export Lib.Base Model.Sys.
From Coq Require Import Bool.

(* shared with the harness (c04sys.rs) *)
Definition answer (n r : N) : N := (n * 7919 + r * 104729 + 13) mod 1000003.

(* channel id, program, what the calls returned, what the broker saw on that channel, whether a
   call failed, and whether the server closes the channel (C09): Some (k, false) - instead of
   answering the k-th synchronous request; Some (k, true) - right behind its answer to it;
   last: the first error a call returned - 0 none, 1 ServerClosedChannel naming this channel with
   the server's code and text, 2 any other *)
Definition chanrec := (N * list call * list N * list call * bool * option (N * bool) * N)%type.
(* mailbox bound, channels, a schedule seed for the model, hung, close() = Ok, the broker could
   not parse the client's stream, the server went away (end of stream) at some point *)
Definition case := (N * list chanrec * list N * bool * bool * bool * bool)%type.

Definition cr_id (c : chanrec) : N := let '(n, _, _, _, _, _, _) := c in n.
Definition cr_prog (c : chanrec) : list call := let '(_, p, _, _, _, _, _) := c in p.
Definition cr_results (c : chanrec) : list N := let '(_, _, r, _, _, _, _) := c in r.
Definition cr_seen (c : chanrec) : list call := let '(_, _, _, s, _, _, _) := c in s.
Definition cr_failed (c : chanrec) : bool := let '(_, _, _, _, f, _, _) := c in f.
Definition cr_close (c : chanrec) : option (N * bool) := let '(_, _, _, _, _, k, _) := c in k.
Definition cr_err (c : chanrec) : N := let '(_, _, _, _, _, _, e) := c in e.

Fixpoint progs_of (cs : list chanrec) (n : N) : list call :=
  match cs with
  | [] => []
  | c :: cs' => if cr_id c =? n then cr_prog c else progs_of cs' n
  end.

Definition nth_id (ids : list N) (x : N) : N := nth (N.to_nat (x mod N.of_nat (length ids))) ids 0.

(* a number of the harness's pseudo-random stream as an action of the system *)
Definition act_of (ids : list N) (x : N) : act :=
  let n := nth_id ids (x / 7) in
  match x mod 7 with
  | 0 => ASend n
  | 1 => ARecv n
  | 2 => ADrain n (N.to_nat ((x / 49) mod 3))
  | 3 => AWrite (N.to_nat ((x / 49) mod 4))
  | 4 => ASrvRead
  | 5 => ASrvAnswer n
  | _ => ARead
  end.

(* one round of everybody: every caller sends if it can, every mailbox is drained, everything
   is written, read by the server, answered, read by the client, received *)
Definition round (ids : list N) : list act :=
  map ASend ids ++ map (fun n => ADrain n 64) ids ++ [AWrite 4096] ++
  repeat ASrvRead (2 * length ids + 4) ++ map ASrvAnswer ids ++
  repeat ARead (length ids + 2) ++ map ARecv ids.

Definition max_len (cs : list chanrec) : nat :=
  fold_left (fun a c => Nat.max a (length (cr_prog c))) cs 0%nat.

Definition schedule (c : case) : list act :=
  let '(_, cs, seed, _, _, _, _) := c in
  let ids := map cr_id cs in
  match ids with
  | [] => []
  | _ => map (act_of ids) seed ++ concat (repeat (round ids) (max_len cs + 2))
  end.

Definition c_reply_cap : N := 2.

Fixpoint close_of (cs : list chanrec) (n : N) : option (N * bool) :=
  match cs with
  | [] => None
  | c :: cs' => if cr_id c =? n then cr_close c else close_of cs' n
  end.

(* how many synchronous requests of channel n the server has answered (while it has not closed n) *)
Definition answered (s : sys) (n : N) : N :=
  N.of_nat (length (syncs (projc n (y_seen s))) - length (yc_pend (y_ch s n))).

(* the server's side of the schedule follows the scenario: where the real broker closed the
   channel, the model's server does - each step below is one or two steps of ystep, so the run
   is a yrun and the system theorems speak about it *)
Definition pstep (cs : list chanrec) (bound : N) (s : sys) (a : act) : sys :=
  let st := ystep answer bound c_reply_cap in
  match a with
  | ASrvAnswer n =>
      match close_of cs n, yc_pend (y_ch s n), yc_srv_closed (y_ch s n) with
      | Some (k, after), _ :: _, false =>
          if answered s n + 1 =? k then
            if after : bool then st (st s (ASrvAnswer n)) (ASrvClose n) else st s (ASrvClose n)
          else st s a
      | _, _, _ => st s a
      end
  | _ => st s a
  end.

Definition model_final (c : case) : sys :=
  let '(bound, cs, _, _, _, _, _) := c in
  fold_left (pstep cs (N.max 1 bound)) (schedule c) (init_sys (progs_of cs)).

(* per channel: id, results, the caller has returned for good (finished its program, or failed),
   failed *)
Definition model_out (c : case) : list (N * list N * bool * bool) * bool :=
  let '(_, cs, _, _, _, _, _) := c in
  let s := model_final c in
  (map (fun r => let ch := y_ch s (cr_id r) in
                 (cr_id r, yc_results ch,
                  negb (yc_wait ch) && (yc_failed ch || match yc_prog ch with [] => true | _ => false end),
                  yc_failed ch)) cs,
   y_fail s).

Definition call_eqb (a b : call) : bool :=
  Bool.eqb (is_sync a) (is_sync b) && (snd a =? snd b).

Fixpoint is_prefix (a b : list N) : bool :=
  match a, b with
  | [], _ => true
  | x :: a', y :: b' => (x =? y) && is_prefix a' b'
  | _, _ => false
  end.

(* when the server went away the point at which each caller was cut off depends on the
   schedule; what the model fixes for EVERY schedule (C05_system_own_reply) is that the values
   returned are a prefix of the model's complete run *)
Definition model_agrees (c : case) : bool :=
  let '(_, cs, _, hung, _, _, died) := c in
  let '(rows, failed) := model_out c in
  negb failed && negb hung &&
  forallb (fun '(r, (n, res, done, mfailed)) =>
             done &&
             if died then is_prefix (cr_results r) res
             else list_eqb N.eqb res (cr_results r) &&
                  match cr_close r with
                  | Some (_, true) => true   (* when the next call notices depends on the schedule *)
                  | _ => Bool.eqb mfailed (cr_failed r)
                  end)
          (combine cs rows).

(* the property itself, on what the real program did. While the server answers: nobody hung, the connection closed
   cleanly, the client's stream was well-formed, every call returned, the i-th synchronous
   call of channel n returned the broker's answer to that channel's i-th synchronous request,
   and the broker saw each channel's requests exactly as issued, in order *)
Fixpoint is_prefix_calls (a b : list call) : bool :=
  match a, b with
  | [], _ => true
  | x :: a', y :: b' => call_eqb x y && is_prefix_calls a' b'
  | _, _ => false
  end.

(* ... and when the server goes away in the middle (C05): still nobody hangs - every caller
   returns, with an error unless it had finished -, what the calls returned before is a prefix
   of the right answers, and what the broker saw is a prefix of what was to be issued *)
(* the program up to and including its k-th synchronous call *)
Fixpoint upto_sync (k : nat) (p : list call) : list call :=
  match k, p with
  | O, _ => []
  | _, [] => []
  | S k', x :: p' => if is_sync x then x :: match k' with O => [] | _ => upto_sync k' p' end
                     else x :: upto_sync k p'
  end.

(* ... and when the server closes channel n (C09) - instead of its k-th answer, or right behind
   it: the calls of n before that returned their own answers, the call that was waiting (resp.
   the next synchronous call) and no other failed, the broker saw n's requests as issued up to
   there; every OTHER channel's calls all returned their own answers, and the connection closed
   cleanly *)
Definition chan_ok (r : chanrec) : bool :=
  let want := map (answer (cr_id r)) (syncs (cr_prog r)) in
  match cr_close r with
  | None =>
      negb (cr_failed r) && list_eqb N.eqb (cr_results r) want && list_eqb call_eqb (cr_seen r) (cr_prog r)
  | Some (k, false) =>
      (* the call in flight fails with ServerClosedChannel carrying n and the server's code and text *)
      cr_failed r && (cr_err r =? 1) && list_eqb N.eqb (cr_results r) (firstn (N.to_nat k - 1) want) &&
      list_eqb call_eqb (cr_seen r) (upto_sync (N.to_nat k) (cr_prog r))
  | Some (k, true) =>
      list_eqb N.eqb (cr_results r) (firstn (N.to_nat k) want) &&
      (if (N.to_nat k <? length want)%nat then cr_failed r else true) &&
      (* ... or the next call does, whenever it is made *)
      (if cr_failed r then cr_err r =? 1 else true) &&
      (* nowait calls accepted after that may be dropped with the slot's mailbox *)
      is_prefix_calls (upto_sync (N.to_nat k) (cr_prog r)) (cr_seen r) && is_prefix_calls (cr_seen r) (cr_prog r)
  end.

Definition oracle_ok (c : case) : bool :=
  let '(_, cs, _, hung, closed, bad, died) := c in
  negb hung && negb bad &&
  if died then
    forallb (fun r =>
               is_prefix (cr_results r) (map (answer (cr_id r)) (syncs (cr_prog r))) &&
               (cr_failed r || list_eqb N.eqb (cr_results r) (map (answer (cr_id r)) (syncs (cr_prog r)))) &&
               is_prefix_calls (cr_seen r) (cr_prog r)) cs
  else
    closed && forallb chan_ok cs.

Fixpoint bad_idx {A} (f : A -> bool) (i : N) (l : list A) : list N :=
  match l with
  | [] => []
  | x :: l' => if f x then bad_idx f (i + 1) l' else i :: bad_idx f (i + 1) l'
  end.
Definition bad_model (cs : list case) : list N := bad_idx model_agrees 0 cs.
Definition bad_oracle (cs : list case) : list N := bad_idx oracle_ok 0 cs.
