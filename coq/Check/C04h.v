(* The caller's side of a channel (C04): the REAL IoLoopHandle - call::<QosOk>, call::<DeclareOk>,
   get, consume, call_nowait - with replies queued beforehand and either end of its two
   queues optionally gone.
   case = (reply queue: 1 QosOk / 2 DeclareOk / 10 GetOk(None) / 11 ConsumeOk / 23 the error
           ServerClosedChannel / 24 ClientClosedConnection, the I/O thread's reply sender gone,
           the mailbox's receiver gone, calls: 1 qos / 2 declare / 10 get / 11 consume / 0 nowait,
           results: 0 Ok / 1 FrameUnexpected / 2 EventLoopDropped / 3 ServerClosedChannel /
           4 ClientClosedConnection, replies left, requests in the mailbox (None: it is gone)) *)
From Amq Require Export Lib.Base Model.Handle.

Definition case := (list N * bool * bool * list N * list N * N * option N)%type.

Definition item_of (x : N) : hitem :=
  if x =? 10 then HGet else if x =? 11 then HConsume else if 20 <=? x then HErr (x - 20) else HMethod x.
Definition call_of (x : N) : hcall :=
  if x =? 0 then CNowait else if x =? 10 then CGet else if x =? 11 then CConsume else CCall x.
Definition res_code (r : hres) : N :=
  match r with ROk _ => 0 | RFrameUnexpected => 1 | RDropped => 2 | RErrItem e => e end.

Definition model_out (c : case) : list N * N * option N :=
  let '(q, tx_gone, mail_gone, calls, _, _, _) := c in
  let s0 := {| h_replies := map item_of q; h_reply_tx := negb tx_gone; h_mail_rx := negb mail_gone; h_mail := 0 |} in
  let '(rs, s) := hrun (map call_of calls) s0 in
  (map res_code rs, N.of_nat (length (h_replies s)), if mail_gone then None else Some (h_mail s)).

Definition model_agrees (c : case) : bool :=
  let '(_, _, _, _, results, nleft, mail) := c in
  let '(rs, l, m) := model_out c in
  list_eqb N.eqb rs results && (l =? nleft) && option_eqb N.eqb m mail.

(* the property on the observations: a call that got Ok consumed exactly one reply of its own
   kind, in order; nothing is consumed by a nowait call; every request that was handed over
   sits in the mailbox *)
Fixpoint walk (q calls results : list N) (mail_gone : bool) : bool :=
  match calls, results with
  | [], [] => true
  | c :: calls', r :: results' =>
      if (c =? 0) && negb mail_gone then (r =? 0) && walk q calls' results' mail_gone
      else match q with
           | [] => (r =? 2) && walk [] calls' results' mail_gone
           | x :: q' =>
               (if r =? 0 then (x =? c) && negb mail_gone
                else if 20 <=? x then r =? x - 20 else (r =? 1) && (mail_gone || negb (x =? c))) &&
               walk q' calls' results' mail_gone
           end
  | _, _ => false
  end.

Definition oracle_ok (c : case) : bool :=
  let '(q, tx_gone, mail_gone, calls, results, nleft, mail) := c in
  walk q calls results mail_gone &&
  match mail with
  | Some m => negb mail_gone && (m =? N.of_nat (length calls))
  | None => mail_gone
  end.

Fixpoint bad_idx {A} (f : A -> bool) (i : N) (l : list A) : list N :=
  match l with [] => [] | x :: r => if f x then bad_idx f (i + 1) r else i :: bad_idx f (i + 1) r end.
Definition bad_model (cs : list case) : list N := bad_idx model_agrees 0 cs.
Definition bad_oracle (cs : list case) : list N := bad_idx oracle_ok 0 cs.
