(* C05 (and C04) end to end: 1-3 caller threads issuing synchronous calls on their own
   channels and checking each reply against its own call, plus a consumer, on a real
   connection that dies in one of seven ways at a random moment.
   case = (fault 0 the client closes the connection itself while the callers are busy / 1 EOF / 2 reset / 3 malformed data / 4 write error / 5 server close 320 /
           6 silence with h = 1 s / 7 a frame answered by a client exception,
           per thread (calls that succeeded, ended with an error, ms from the fault to it),
           number of threads, consumer (last terminal message 6 = ServerClosedConnection, queue
           disconnected), what close() returned (99: the connection was dropped instead, and drop
           came back), transport released, some thread never came
           back, some reply was not the reply to the call that got it, fault 0 only: the
           client's Connection.Close is the last frame it sent and the wire is whole frames,
           (close() was already in flight - its Connection.Close out, unanswered - when the failure
           landed, what released a publisher parked on a full mailbox behind a stalled, throttled
           transport: 0 no such publisher / 5 the server's close / 2 EventLoopDropped / 8 other)) *)
From Amq Require Export Lib.Base Gen.Consts Model.Wire Model.Frames Model.OutBuf Model.Collector
     Model.Slots Model.Core.

Definition case := (N * list (N * bool * N) * N * (N * bool) * N * bool * bool * bool * bool * (bool * N))%type.

Definition code_of (o : outcome) : N :=
  match o with
  | OOk => 0
  | OErr EUnexpectedSocketClose => 1
  | OErr EIoRead => 2
  | OErr EMalformed => 3
  | OErr EIoWrite => 4
  | OErr (EServerClosedConnection 320 _) => 5
  | OErr EMissedHeartbeats => 6
  | OErr EClientException => 7
  | _ => 8
  end.

(* what the model says run_connection ends with (Connection::close reports it) *)
Definition model_code (fault : N) : N :=
  let c0 := init_core 100 16 in
  match fault with
  | 0 => code_of (final_result (set_phase c0 PClientClosed))
  | 1 => code_of (term_outcome TEof)
  | 2 => code_of (term_outcome TIoErr)
  | 3 => code_of (term_outcome TMalformed)
  | 4 => code_of (fst (fst (handle_event (push_out c0 [1; 2; 3]) (EvStream (Some [WErr]) None))))
  | 5 => let '(_, c1) := process c0 (FMethod 0 (MConnClose 320 [102]), []) in code_of (final_result c1)
  | 6 => code_of (fst (heartbeat_timers [(HbTx, true); (HbRx, true)] c0))
  | _ => let '(_, c1) := process c0 (FMethod 1 MIllegal, []) in code_of (final_result c1)
  end.

Definition model_out (c : case) : N := let '(fault, _, _, _, _, _, _, _, _, _) := c in model_code fault.
Definition model_agrees (c : case) : bool :=
  let '(fault, _, _, _, code, _, _, _, _, _) := c in (code =? 99) || (code =? model_code fault).

(* the property on the observations: nobody hangs, every caller gets an error in bounded time,
   the consumer's queue ends, close() names the root cause, the transport is released - and
   (C04) no caller ever got somebody else's reply *)
Definition oracle_ok (c : case) : bool :=
  let '(fault, threads, nthreads, (terminal, disconnected), code, released, hang, misrouted, wire_ok, (close_first, parked_code)) := c in
  negb hang && (N.of_nat (length threads) =? nthreads) &&
  forallb (fun '(_, err, ms) => err && (ms <=? (if fault =? 6 then 4500 else 3000))) threads &&
  disconnected && released && negb misrouted &&
  ((code =? fault) || (code =? 99)) && wire_ok &&
  (* a caller parked in a blocking send is released with the close's own reason *)
  ((parked_code =? 0) || (parked_code =? 5)) &&
  (if fault =? 5 then terminal =? 6 else if fault =? 0 then terminal =? 5 else true).

Fixpoint bad_idx {A} (f : A -> bool) (i : N) (l : list A) : list N :=
  match l with [] => [] | x :: r => if f x then bad_idx f (i + 1) r else i :: bad_idx f (i + 1) r end.
Definition bad_model (cs : list case) : list N := bad_idx model_agrees 0 cs.
Definition bad_oracle (cs : list case) : list N := bad_idx oracle_ok 0 cs.
