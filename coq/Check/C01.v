(* Oracle for the end-to-end C01 check: the bytes a real connection wrote to a transport
   that fragments writes at random, split by the harness's own envelope splitter.
   case = (header ok, bytes left over after the last complete frame, per channel what its
           owner issued (checksums of whole frames, in issue order), the frames on the
           wire in wire order as (channel, checksum)) *)
From Amq Require Export Lib.Base.

Definition case := (bool * N * list (N * list N) * list (N * N))%type.

Definition on_channel (ch : N) (wire : list (N * N)) : list N :=
  flat_map (fun '(c, a) => if c =? ch then [a] else []) wire.

(* exactly the protocol header, then whole frames only; every channel's frames in the
   order it issued them, none lost, none duplicated; no frame of a channel nobody owns *)
Definition oracle_ok (c : case) : bool :=
  let '(hdr, leftover, issued, wire) := c in
  hdr && (leftover =? 0) &&
  forallb (fun '(ch, exp) => list_eqb N.eqb (on_channel ch wire) exp) issued &&
  forallb (fun '(ch, _) => existsb (fun '(c', _) => c' =? ch) issued) wire.

Definition model_agrees (c : case) : bool := oracle_ok c.
Definition model_out (c : case) : bool := oracle_ok c.

Fixpoint bad_idx {A} (f : A -> bool) (i : N) (l : list A) : list N :=
  match l with
  | [] => []
  | x :: l' => if f x then bad_idx f (i + 1) l' else i :: bad_idx f (i + 1) l'
  end.
Definition bad_model (cs : list case) : list N := bad_idx model_agrees 0 cs.
Definition bad_oracle (cs : list case) : list N := bad_idx oracle_ok 0 cs.
