(* C09 oracle: a server-initiated channel close affects that channel only. *)
From Amq Require Export Check.CoreOracles.

Definition chan_close_of (ops : list cop) : option (N * N * str) :=
  match flat_map (fun f => match f with FMethod n (MChanClose c t) => [(n, c, t)] | _ => [] end)
                 (frames_of ops) with
  | x :: _ => Some x
  | [] => None
  end.

Definition closeok_of (n : N) : bytes := [1; n / 256 mod 256; n mod 256; 0; 0; 0; 4; 0; 20; 0; 41; 206].

Definition has_chan_close (o : cop) : bool :=
  existsb (fun f => match f with FMethod _ (MChanClose _ _) => true | _ => false end) (frames_of_op o).

(* bytes written + buffered grows by exactly the 12 bytes of Channel.CloseOk over the op
   that carried the close (and its reads carry only replies, which queue nothing), and the
   buffer right after it ends with that frame *)
Fixpoint close_effect (n : N) (prev_total : N) (l : list (cop * cobs * digest * N)) : bool :=
  match l with
  | [] => true
  | (o, b, d, t) :: l' =>
      if has_chan_close o then
        (t =? prev_total + 12) &&
        match l' with
        | (OPeekOut, BBytes bs, _, _) :: _ => is_suffix (closeok_of n) bs || (N.of_nat (length bs) <? 12)
        | _ => true
        end
      else close_effect n t l'
  end.

(* the first reply queue and the consumer queues that belonged to channel n *)
Definition first_getter (n : N) (aux : list (N * addressee)) : option N :=
  match flat_map (fun '(q, a) => match a with AGetter c => if c =? n then [q] else [] | _ => [] end) aux with
  | q :: _ => Some q
  | [] => None
  end.

Definition oracle_ok (c : case) : bool :=
  let '(_, _, ops, obs, aux) := c in
  let rc := received ops obs in
  oracle_no_panic obs && all_ok obs && oracle_consumers ops obs &&
  match chan_close_of ops with
  | None => true
  | Some (n, code, text) =>
      let e := EServerClosedChannel n code text in
      close_effect n 0 (map (fun '(x, t) => (x, t)) (combine (zip3 ops obs) (totals 0 obs))) &&
      (* the closed channel: its caller gets the error as the last thing, its consumers too *)
      match first_getter n aux with
      | Some q => oitem_eqb (last_item q rc) (IReplyErr e) && is_disc (last_recv q ops obs)
      | None => true
      end &&
      forallb (fun '(q, a) =>
                 match a with
                 | AConsumer ch _ =>
                     if ch =? n then
                       (* consumers created on the re-opened channel are not concerned *)
                       match first_getter n aux with
                       | Some rq => if (4294967296 + rq * 1048576 <=? q) && (q <? 4294967296 + (rq + 1) * 1048576)
                                    then oitem_eqb (last_item q rc) (IServerClosedChannel e) else true
                       | None => true
                       end
                     else true
                 | _ => true
                 end) aux &&
      (* every other channel: its replies, all of them, in order, nothing else *)
      forallb (fun '(q, a) =>
                 match a with
                 | AGetter ch =>
                     if ch =? n then true
                     else qitem_list_eqb (flat_map reply_item_norm (items_from q rc))
                                         (flat_map (reply_item_of_frame ch) (frames_of ops))
                 | _ => true
                 end) aux &&
      (* the id is available again: a later explicit request for it is granted *)
      (fix reopen (seen_close : bool) (l : list (cop * cobs * digest)) : bool :=
         match l with
         | [] => true
         | (o, b, _) :: l' =>
             if has_chan_close o then reopen true l'
             else match o, b, l' with
                  | OClAllocReq (Some id), BSent true, (OEvent EvAlloc, _, _) :: (OClRecv 1, BRecv r, _) :: _ =>
                      (if seen_close && (id =? n)
                       then match r with RItem (IAllocOk id') => id' =? n | _ => false end
                       else true) && reopen seen_close l'
                  | _, _, _ => reopen seen_close l'
                  end
         end) false (zip3 ops obs)
  end.
Definition bad_oracle (cs : list case) : list N := bad_idx oracle_ok 0 cs.
