(* C08 oracle: the close handshake. *)
From Amq Require Export Check.CoreOracles.

Definition closeok0 : bytes := [1; 0; 0; 0; 0; 0; 4; 0; 10; 0; 51; 206].

(* index of the first op that seals the out-buffer, with the bytes of the client's Close if
   it was the client's *)
Fixpoint first_sealed (i : N) (obs : list (cobs * digest)) : option N :=
  match obs with
  | [] => None
  | (_, dg) :: obs' => if d_sealed dg then Some i else first_sealed (i + 1) obs'
  end.

(* once sealed, bytes written so far + bytes buffered never changes again: nothing
   submitted after the close point is ever written, and what was queued before is *)
Definition frozen_after_seal (obs : list (cobs * digest)) : bool :=
  match first_sealed 0 obs with
  | None => true
  | Some i =>
      let ts := skipn (N.to_nat i) (totals 0 obs) in
      let ds := skipn (N.to_nat i) obs in
      match ts with
      | [] => true
      | t0 :: _ =>
          forallb (fun '(t, (_, dg)) => (d_phase dg =? 9) || (t =? t0)) (combine ts ds)
      end
  end.

Definition client_close_bytes (ops : list cop) : option bytes :=
  match flat_map (fun o => match o with OClSend 0 (MsgConnClose b) => [b] | _ => [] end) ops with
  | b :: _ => Some b
  | [] => None
  end.

Definition server_close_of (ops : list cop) : option (N * str) :=
  match flat_map (fun f => match f with FMethod 0 (MConnClose c t) => [(c, t)] | _ => [] end)
                 (frames_of ops) with
  | x :: _ => Some x
  | [] => None
  end.

(* the first peek taken with the buffer sealed *)
Definition first_sealed_peek (ops : list cop) (obs : list (cobs * digest)) : option bytes :=
  match flat_map (fun '(o, b, d) =>
                    match b with BBytes bs => if d_sealed d then [bs] else [] | _ => [] end) (zip3 ops obs) with
  | b :: _ => Some b
  | [] => None
  end.

(* is_connection_done: after a close from either side it is true exactly when nothing is
   left to write (client side: when CloseOk has arrived, phase 3) *)
Definition done_ok (ops : list cop) (obs : list (cobs * digest)) : bool :=
  forallb (fun '(o, b, dg) =>
             let p := d_phase dg in let l := d_len dg in
             match o, b with
             | OIsDone, BDone d =>
                 match p with
                 | 0 => match d with DNotDone => true | _ => false end
                 | 3 => match d with DDone => true | _ => false end
                 | 9 => true
                 | _ => match d with
                        | DDone => l =? 0
                        | DNotDone => negb (l =? 0)
                        | DAssertFailed => false
                        end
                 end
             | _, _ => true
             end) (zip3 ops obs).

(* outcome of the op that fed the given channel-0 frame *)
Definition outcome_of_frame (is_it : frame -> bool) (ops : list cop) (obs : list (cobs * digest))
  : option outcome :=
  match flat_map (fun '(o, b, _) =>
                    if existsb is_it (frames_of_op o)
                    then match b with BOutcome out _ _ => [out] | _ => [] end else []) (zip3 ops obs) with
  | x :: _ => Some x
  | [] => None
  end.

Definition is_closeok (f : frame) : bool := match f with FMethod 0 MConnCloseOk => true | _ => false end.
Definition is_close (f : frame) : bool := match f with FMethod 0 (MConnClose _ _) => true | _ => false end.

(* every reply queue ends with `rep`, every consumer queue with `cons` *)
Definition notified (rc : list (N * qitem)) (aux : list (N * addressee)) (rep cons : qitem) : bool :=
  forallb (fun '(q, a) =>
             match a with
             | AGetter _ => oitem_eqb (last_item q rc) rep
             | AConsumer _ _ => oitem_eqb (last_item q rc) cons
             | _ => true
             end) aux.

(* the op that carries the server's Close (processed, buffer not sealed before): bytes
   written + buffered grows by exactly the 12 bytes of CloseOk - what was queued before
   stays queued *)
Fixpoint server_close_total (prev_total : N) (prev_sealed : bool)
         (l : list (cop * cobs * digest * N)) : bool :=
  match l with
  | [] => true
  | (o, b, d, t) :: l' =>
      (if existsb is_close (frames_of_op o) && negb prev_sealed &&
          match b with BOutcome OOk _ _ => true | _ => false end
       then t =? prev_total + 12 else true) &&
      server_close_total t (d_sealed d) l'
  end.

Definition oracle_ok (c : case) : bool :=
  let '(_, _, ops, obs, aux) := c in
  let rc := received ops obs in
  server_close_total 0 false (map (fun '(x, t) => (x, t)) (combine (zip3 ops obs) (totals 0 obs))) &&
  oracle_no_panic obs && frozen_after_seal obs && done_ok ops obs && oracle_consumers ops obs &&
  oracle_heartbeats ops obs &&
  match server_close_of ops, client_close_bytes ops with
  | Some (code, text), _ =>
      (* server close (first): the buffer ends with CloseOk when sealed; everyone is told *)
      match outcome_of_frame is_close ops obs with
      | Some OOk =>
          match first_sealed_peek ops obs with
          | Some [] | None => true
          | Some bs => is_suffix closeok0 bs
          end &&
          notified rc aux (IReplyErr (EServerClosedConnection code text))
                   (IServerClosedConnection (EServerClosedConnection code text))
      | _ => true
      end
  | None, Some cb =>
      match first_sealed_peek ops obs with
      | Some [] => true
      | Some bs => is_suffix cb bs
      | None => true
      end &&
      match outcome_of_frame is_closeok ops obs with
      | Some OOk =>
          oitem_eqb (last_item 0 rc) (IReplyMethod MConnCloseOk) &&
          notified rc aux (IReplyErr EClientClosedConnection) IClientClosedConnection
      | Some _ => false     (* CloseOk must complete the close, EOF right after it or not *)
      | None => true
      end
  | None, None => true
  end.
Definition bad_oracle (cs : list case) : list N := bad_idx oracle_ok 0 cs.
