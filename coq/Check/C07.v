(* C07 oracle: arbitrary (protocol-violating) frame sequences.  Nothing panics; what any
   client receives is, per queue and in order, among what the compliant reading yields;
   an error outcome of frame processing is one of the documented ones; and when the
   client raises an exception the out-buffer ends with Connection.Close carrying the hard
   error code that matches the offending frame, and is sealed. *)
From Amq Require Export Check.Core Check.CoreOracles.

Definition documented_error (e : err) : bool :=
  match e with
  | EFrameUnexpected | EBogusChannel _ | EUnknownConsumerTag _ _ | EDuplicateConsumerTag _ _
  | EClientDropped => true     (* the last one: the client itself dropped a handle / receiver *)
  | _ => false
  end.

(* only frame processing is judged here (transport failures are C05's) *)
Definition frame_outcomes_ok (ops : list cop) (obs : list (cobs * digest)) : bool :=
  forallb (fun '(o, (b, _)) =>
             match o, b with
             | OFrame _, BOutcome (OErr e) _ _ => documented_error e
             | _, _ => true
             end) (combine ops obs).

Definition offending_code (f : frame) : option N :=
  match f with
  | FMethod 0 (MConnClose _ _) | FMethod 0 MConnCloseOk | FMethod 0 (MBlocked _)
  | FMethod 0 MUnblocked => None
  | FMethod 0 _ => Some 540
  | FHeader 0 _ _ | FBody 0 _ => Some 530
  | FMethod _ MUnimpl => Some 540
  | FMethod _ MIllegal | FMethod _ (MConnClose _ _) | FMethod _ MConnCloseOk
  | FMethod _ (MBlocked _) | FMethod _ MUnblocked | FMethod _ MConnOther => Some 530
  | _ => None
  end.

Fixpoint first_some {A} (l : list (option A)) : option A :=
  match l with [] => None | Some x :: _ => Some x | None :: l' => first_some l' end.

(* the hard-error code of the first offending frame of the op after which the phase is
   ClientException for the first time *)
Fixpoint exception_code (prev : N) (ops : list cop) (obs : list (cobs * digest)) : option N :=
  match ops, obs with
  | o :: ops', (_, (p, _, _, _, _)) :: obs' =>
      if (p =? 2) && negb (prev =? 2) then first_some (map offending_code (frames_of_op o))
      else exception_code p ops' obs'
  | _, _ => None
  end.

(* the buffer may start in the middle of a frame (a partial write happened earlier), so the
   last frame is looked for from the end: some suffix is exactly one complete frame *)
Fixpoint suffixes (bs : bytes) : list bytes :=
  match bs with [] => [] | _ :: t => bs :: suffixes t end.
Definition is_one_frame (fr : bytes) : bool :=
  match parse_size fr with
  | Some n => (n =? N.of_nat (length fr)) && (last fr 0 =? frame_end)
  | None => false
  end.
(* the Close must be a well-formed method: class 10, method 50, reply code, reply text as a
   short string (one length byte, then exactly that many bytes), class id and method id
   (two bytes each), the frame end - and nothing else: a text of more than 255 bytes cannot
   be carried, its length byte wraps and the frame is garbage to the server *)
Definition close_code_of (fr : bytes) : option N :=
  match fr with
  | 1 :: 0 :: 0 :: _ :: _ :: _ :: _ :: 0 :: 10 :: 0 :: 50 :: hi :: lo :: tl :: rest =>
      if N.of_nat (length rest) =? tl + 5 then Some (hi * 256 + lo) else None
  | _ => None
  end.

(* out-buffer length right after the op that raised the exception *)
(* None also when the buffer was sealed already (the client itself was closing: its own
   Close stays the last frame, C08, and the exception's Close is dropped with everything else) *)
Fixpoint exception_len (prev : N) (prev_sealed : bool) (obs : list (cobs * digest)) : option N :=
  match obs with
  | (_, (p, l, _, z, _)) :: obs' =>
      if (p =? 2) && negb (prev =? 2) then (if prev_sealed then None else Some l)
      else exception_len p z obs'
  | [] => None
  end.

(* every out-buffer peek taken while in ClientException and before anything was written:
   sealed, and the last frame is the Close with the right code *)
Definition peeks_ok (ops : list cop) (obs : list (cobs * digest)) : bool :=
  let code := exception_code 0 ops obs in
  let len0 := exception_len 0 false obs in
  forallb (fun '(o, (b, (p, _, _, sealed, _))) =>
             match o, b with
             | OPeekOut, BBytes bs =>
                 if p =? 2 then
                   sealed &&
                   match bs with
                   | [] => true      (* already flushed *)
                   | _ =>
                     (* judged only while nothing has been written since (a partially
                        written Close can no longer be recognised in the buffer) *)
                     if negb (option_eqb N.eqb len0 (Some (N.of_nat (length bs)))) then true else
                          match code with
                          | Some cd =>
                              existsb (fun fr => is_one_frame fr &&
                                                 match close_code_of fr with
                                                 | Some x => x =? cd
                                                 | None => false
                                                 end) (suffixes bs)
                          | None => false
                          end
                   end
                 else true
             | _, _ => true
             end) (combine ops obs).

Definition oracle_ok (c : case) : bool :=
  let '(_, _, ops, obs, aux) := c in
  oracle_no_panic obs && oracle_content ops obs aux && oracle_consumers ops obs &&
  frame_outcomes_ok ops obs && peeks_ok ops obs && exception_quiet 0 (zip3 ops obs).
Definition bad_oracle (cs : list case) : list N := bad_idx oracle_ok 0 cs.
