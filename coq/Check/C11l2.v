(* C11 end to end: consumers from the public API on a real connection; consumer A is dropped
   (Drop cancels it), or cancelled, read to its terminal message and dropped, or cancelled
   twice and dropped; or dropped while the server answers its Cancel by closing the connection
   (mode 3) or the channel (mode 4), or dropped while its thread unwinds from a caught panic
   (mode 5), or dropped while bystander B sits on a backlog of more than 65535 unread deliveries
   (mode 6; there the long lists are compacted: expected = [how many], yielded = [length of the
   longest prefix that is exactly what was expected; whatever follows]) - in half of the scenarios while the I/O thread is slow
   between notifying consumers and releasing the caller (scheduling point 2).  The bystanders
   B (same channel) and C (another channel) end with exactly one terminal message naming the
   true cause.
   case = ((mode, slow), (channel 1 usable afterwards, channel 2 usable afterwards, close()
           result 0 Ok / 1 ServerClosedConnection 320 / 8 other error / 9 hang, Basic.Cancel
           frames sent for A's tag), (deliveries pushed to B, what B's receiver yielded,
           disconnected at the end), the same for C, (deliveries pushed to A before it was cancelled, what
           A's receiver yielded in mode 1)) *)
From Amq Require Export Lib.Base.

Definition case := ((N * bool) * (bool * bool * N * N) * (list N * list N * bool) * (list N * list N * bool) * (list N * list N))%type.

Definition t_client_cancelled : N := 1000001.
Definition t_server_closed_channel : N := 1000004.
Definition t_client_closed_connection : N := 1000005.
Definition t_server_closed_connection : N := 1000006.
Definition is_terminal (x : N) : bool := 1000000 <? x.

(* deliveries in order, then exactly one terminal message naming the true cause, then the
   queue is disconnected *)
Definition queue_ok (expect got : list N) (disc : bool) (terminal : N) : bool :=
  list_eqb N.eqb got (expect ++ [terminal]) && disc.

Definition oracle_ok (c : case) : bool :=
  let '((mode, _), (alive1, alive2, close_code, cancels), (eb, gb, db), (ec, gc, dc), (ea, a_seen)) := c in
  (* dropping a consumer cancels it; cancelling twice sends nothing the second time *)
  (cancels =? 1) &&
  (if mode =? 3 then
     (* the server closed the connection: everybody is told so, close() reports it *)
     negb alive1 && negb alive2 && (close_code =? 1) &&
     queue_ok eb gb db t_server_closed_connection && queue_ok ec gc dc t_server_closed_connection
   else if mode =? 4 then
     (* the server closed channel 1: its consumers are told so; channel 2 and the connection
        are not affected *)
     negb alive1 && alive2 && (close_code =? 0) &&
     queue_ok eb gb db t_server_closed_channel && queue_ok ec gc dc t_client_closed_connection
   else if mode =? 6 then
     (* a consumer that does not keep up loses nothing: every one of the deliveries, in order,
        then the terminal message *)
     alive1 && alive2 && (close_code =? 0) &&
     queue_ok eb gb db t_client_closed_connection && queue_ok ec gc dc t_client_closed_connection
   else
     alive1 && alive2 && (close_code =? 0) &&
     queue_ok eb gb db t_client_closed_connection && queue_ok ec gc dc t_client_closed_connection) &&
  (* the cancelled consumer itself: every delivery that was queued for it before the cancel is
     still there, in order - cancelling takes nothing out of the queue -, then ClientCancelled *)
  (if (mode =? 3) || (mode =? 4) then true else list_eqb N.eqb a_seen (ea ++ [t_client_cancelled])).

Definition model_agrees (c : case) : bool := oracle_ok c.
Definition model_out (c : case) : bool := oracle_ok c.

Fixpoint bad_idx {A} (f : A -> bool) (i : N) (l : list A) : list N :=
  match l with [] => [] | x :: r => if f x then bad_idx f (i + 1) r else i :: bad_idx f (i + 1) r end.
Definition bad_model (cs : list case) : list N := bad_idx model_agrees 0 cs.
Definition bad_oracle (cs : list case) : list N := bad_idx oracle_ok 0 cs.
