(* Correspondence + oracle for C12.
   case = (operation, what the broker saw on the operation's channel after it:
           None = the call panicked and nothing was sent; Some ms = the methods, in order,
           whether anything appeared on any OTHER channel, whether the call failed) *)
From Amq Require Export Lib.Base Model.ApiTable Spec.Api Model.Method.

(* ... and the raw method payloads behind `Some ms`, byte for byte as the client wrote them,
   with the encoded form of the argument tables of the pool (id, bytes without the length) *)
Definition case := (api_op * option (list meth) * bool * bool * list bytes * list (N * bytes))%type.

(* the server's reading of the bytes (Model/Method.v: decode (encode m) = m, C12_wire_roundtrip),
   in the vocabulary of the API table *)
Fixpoint table_id (dict : list (N * bytes)) (raw : bytes) : N :=
  match dict with
  | [] => 999
  | (id, b) :: d => if bytes_eqb b raw then id else table_id d raw
  end.
Definition abs_field (dict : list (N * bytes)) (f : field) : list fval :=
  match f with
  | FNum _ n => [VNum n]
  | FShortStr s | FLongStr s => [VStr s]
  | FTable raw => [VTab (table_id dict raw)]
  | FBits bs => map VBool bs
  end.
Definition read_payload (dict : list (N * bytes)) (p : bytes) : option meth :=
  match dec_method p with
  | Some (c, m, fs) => Some (c, m, flat_map (abs_field dict) fs)
  | None => None
  end.
Fixpoint read_all (dict : list (N * bytes)) (ps : list bytes) : option (list meth) :=
  match ps with
  | [] => Some []
  | p :: ps' => match read_payload dict p, read_all dict ps' with
                | Some m, Some ms => Some (m :: ms)
                | _, _ => None
                end
  end.
(* what the broker saw, as read from the bytes inside Coq: None when the call sent nothing
   because it panicked; a payload that does not read as a method of the table is reported as
   the impossible method (0, 0, []) so that it can equal nothing *)
Definition wire_obs (c : case) : option (list meth) :=
  let '(_, obs, _, _, raws, dict) := c in
  match obs with
  | None => None
  | Some _ => match read_all dict raws with Some ms => Some ms | None => Some [(0, 0, [])] end
  end.

Definition fval_eqb (a b : fval) : bool :=
  match a, b with
  | VStr x, VStr y => bytes_eqb x y
  | VNum x, VNum y => x =? y
  | VBool x, VBool y => Bool.eqb x y
  | VTab x, VTab y => x =? y
  | _, _ => false
  end.
Definition meth_eqb (a b : meth) : bool :=
  let '(c1, m1, f1) := a in let '(c2, m2, f2) := b in
  (c1 =? c2) && (m1 =? m2) && list_eqb fval_eqb f1 f2.

Definition obs_eqb (a b : option (list meth)) : bool := option_eqb (list_eqb meth_eqb) a b.

Definition model_out (c : case) : option (list meth) := let '(o, _, _, _, _, _) := c in emit o.

(* the model's methods are what the bytes read as - and the harness's own decoder (kept as a
   cross-check of the two readings) saw the same *)
Definition model_agrees (c : case) : bool :=
  let '(o, obs, other, failed, _, _) := c in
  obs_eqb (emit o) (wire_obs c) && obs_eqb obs (wire_obs c) && negb other && negb failed.

(* the documentation table: exactly the method it gives, on the right channel, once; or
   nothing at all (a panic, or an Ok that sends nothing) where it says nothing is sent *)
Definition oracle_ok (c : case) : bool :=
  let '(o, _, other, failed, _, _) := c in
  let obs := wire_obs c in
  negb other &&
  match documented o, obs with
  | Some m, Some ms => list_eqb meth_eqb ms [wire m] && negb failed
  | None, None => true                    (* panicked, sent nothing *)
  | None, Some [] => negb failed          (* returned without sending *)
  | _, _ => false
  end &&
  (* acknowledging through the wrong channel panics instead of sending *)
  match o, obs with
  | ASettle _ _ _ _ false, Some _ => false
  | _, _ => true
  end.

Fixpoint bad_idx {A} (f : A -> bool) (i : N) (l : list A) : list N :=
  match l with
  | [] => []
  | x :: l' => if f x then bad_idx f (i + 1) l' else i :: bad_idx f (i + 1) l'
  end.
Definition bad_model (cs : list case) : list N := bad_idx model_agrees 0 cs.
Definition bad_oracle (cs : list case) : list N := bad_idx oracle_ok 0 cs.
