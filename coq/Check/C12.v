(* Correspondence + oracle for C12.
   case = (operation, what the broker saw on the operation's channel after it:
           None = the call panicked and nothing was sent; Some ms = the methods, in order,
           whether anything appeared on any OTHER channel, whether the call failed) *)
From Amq Require Export Lib.Base Model.ApiTable Spec.Api.

Definition case := (api_op * option (list meth) * bool * bool)%type.

Definition fval_eqb (a b : fval) : bool :=
  match a, b with
  | VStr x, VStr y => bytes_eqb x y
  | VNum x, VNum y => x =? y
  | VBool x, VBool y => Bool.eqb x y
  | VTab x, VTab y => x =? y
  | _, _ => false
  end.
Definition meth_eqb (a b : meth) : bool :=
  let '(c1, m1, f1) := a in let '(c2, m2, f2) := b in
  (c1 =? c2) && (m1 =? m2) && list_eqb fval_eqb f1 f2.

Definition obs_eqb (a b : option (list meth)) : bool := option_eqb (list_eqb meth_eqb) a b.

Definition model_out (c : case) : option (list meth) := let '(o, _, _, _) := c in emit o.

Definition model_agrees (c : case) : bool :=
  let '(o, obs, other, failed) := c in obs_eqb (emit o) obs && negb other && negb failed.

(* the documentation table: exactly the method it gives, on the right channel, once; or
   nothing at all (a panic, or an Ok that sends nothing) where it says nothing is sent *)
Definition oracle_ok (c : case) : bool :=
  let '(o, obs, other, failed) := c in
  negb other &&
  match documented o, obs with
  | Some m, Some ms => list_eqb meth_eqb ms [wire m] && negb failed
  | None, None => true                    (* panicked, sent nothing *)
  | None, Some [] => negb failed          (* returned without sending *)
  | _, _ => false
  end &&
  (* acknowledging through the wrong channel panics instead of sending *)
  match o, obs with
  | ASettle _ _ _ _ false, Some _ => false
  | _, _ => true
  end.

Fixpoint bad_idx {A} (f : A -> bool) (i : N) (l : list A) : list N :=
  match l with
  | [] => []
  | x :: l' => if f x then bad_idx f (i + 1) l' else i :: bad_idx f (i + 1) l'
  end.
Definition bad_model (cs : list case) : list N := bad_idx model_agrees 0 cs.
Definition bad_oracle (cs : list case) : list N := bad_idx oracle_ok 0 cs.
