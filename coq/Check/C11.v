(* C11 oracle: a consumer's queue carries its deliveries, in order, then exactly one
   terminal message naming the true cause, then it is disconnected. *)
From Amq Require Export Check.CoreOracles.

(* the event that ends consumer (ch, tag), if this frame is one *)
Definition terminal_of (ch : N) (tag : str) (f : frame) : option qitem :=
  match f with
  | FMethod c (MCancelOk t) => if (c =? ch) && str_eqb t tag then Some IClientCancelled else None
  | FMethod c (MCancel t _) => if (c =? ch) && str_eqb t tag then Some IServerCancelled else None
  | FMethod c MChanCloseOk => if c =? ch then Some IClientClosedChannel else None
  | FMethod c (MChanClose code text) =>
      if c =? 0 then None
      else if c =? ch then Some (IServerClosedChannel (EServerClosedChannel ch code text)) else None
  | FMethod 0 MConnCloseOk => Some IClientClosedConnection
  | FMethod 0 (MConnClose code text) => Some (IServerClosedConnection (EServerClosedConnection code text))
  | _ => None
  end.

Definition is_consume_ok (ch : N) (tag : str) (f : frame) : bool :=
  match f with FMethod c (MConsumeOk t) => (c =? ch) && str_eqb t tag | _ => false end.

(* frames from the consumer's creation up to and including its terminal event; the
   terminal item if there is one *)
Fixpoint life (ch : N) (tag : str) (started : bool) (fs : list frame) : list frame * option qitem :=
  match fs with
  | [] => ([], None)
  | f :: fs' =>
      if started then
        match terminal_of ch tag f with
        | Some it => ([], Some it)
        | None => let '(l, t) := life ch tag true fs' in (f :: l, t)
        end
      else if is_consume_ok ch tag f then life ch tag true fs'
      else life ch tag false fs'
  end.

(* the deliveries for (ch, tag) among the frames of its life, by the compliant reading of
   ALL frames up to the terminal event (content may have started before the consumer) *)
Fixpoint upto_terminal (ch : N) (tag : str) (started : bool) (fs : list frame) : list frame :=
  match fs with
  | [] => []
  | f :: fs' =>
      if started then
        match terminal_of ch tag f with
        | Some _ => []
        | None => f :: upto_terminal ch tag true fs'
        end
      else f :: upto_terminal ch tag (is_consume_ok ch tag f) fs'
  end.

Definition oracle_ok (c : case) : bool :=
  let '(_, _, ops, obs, aux) := c in
  let rc := received ops obs in
  let fs := frames_of ops in
  (* the histories are protocol-valid: no frame may be answered with an error *)
  oracle_no_panic obs && oracle_consumers ops obs && all_ok obs &&
  (forallb (fun '(q, a) =>
              match a with
              | AConsumer ch tag =>
                  let '(_, term) := life ch tag false fs in
                  let want := map (fun m => match m with RDelivery d => IDelivery d | _ => IUnblocked end)
                                  (expected_for (AConsumer ch tag) (ref_read [] (upto_terminal ch tag false fs))) in
                  let got := items_from q rc in
                  match term with
                  | Some t => qitem_list_eqb got (want ++ [t]) && is_disc (last_recv q ops obs)
                  | None => qitem_list_eqb got want
                  end
              | _ => true
              end) aux).
Definition bad_oracle (cs : list case) : list N := bad_idx oracle_ok 0 cs.
