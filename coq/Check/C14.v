(* Correspondence + property oracle for C14, evaluated by vm_compute on case files
   written by the harness.  A case is what the REAL ConfirmSmoother did:
     (e0, steps, observed)    steps    : (tag, multiple, ack, take) ; take = None: all
                              observed : items yielded per step, (tag, multiple, ack)  *)
From Amq Require Export Lib.Base Model.Confirm Spec.Confirm.

Definition cstep := (N * bool * bool * option N)%type.
Definition cout := (N * bool * bool)%type.
Definition case := (N * list cstep * list (list cout))%type.

Definition mk_raw (s : cstep) : raw :=
  let '(t, m, a, _) := s in {| r_tag := t; r_multiple := m; r_ack := a |}.
Definition mk_step (s : cstep) : step :=
  let '(_, _, _, k) := s in (mk_raw s, option_map N.to_nat k).
Definition of_out (o : out) : cout := (o_tag o, o_multiple o, o_ack o).

Definition cout_eqb (a b : cout) : bool :=
  let '(t1, m1, a1) := a in let '(t2, m2, a2) := b in
  (t1 =? t2) && Bool.eqb m1 m2 && Bool.eqb a1 a2.

Definition model_out (c : case) : list (list cout) :=
  let '(e0, steps, _) := c in
  map (map of_out) (fst (run (new_smoother e0) (map mk_step steps))).

Definition model_agrees (c : case) : bool :=
  let '(_, _, obs) := c in
  list_eqb (list_eqb cout_eqb) (model_out c) obs.

(* ---- property oracle on the observed outputs ---- *)

Fixpoint nodupb (l : list N) : bool :=
  match l with
  | [] => true
  | x :: l' => negb (existsb (N.eqb x) l') && nodupb l'
  end.

Definition singles_distinctb (h : list raw) : bool :=
  nodupb (map r_tag (filter is_single h)).

(* exact half: step i must yield the first `take` items of
   spec(h[0..i]) minus spec(h[0..i-1]) *)
Fixpoint oracle_exact (e0 : N) (hprev : list raw) (nprev : nat)
         (steps : list cstep) (obs : list (list cout)) : bool :=
  match steps, obs with
  | [], [] => true
  | s :: steps', o :: obs' =>
      let h := hprev ++ [mk_raw s] in
      let full := spec_outs (span_fuel e0 h) e0 h in
      let delta := skipn nprev full in
      let want := match snd s with
                  | None => delta
                  | Some k => firstn (N.to_nat k) delta
                  end in
      list_eqb cout_eqb (map of_out want) o &&
      oracle_exact e0 h (length full) steps' obs'
  | _, _ => false
  end.

(* safety half for arbitrary histories (all steps fully consumed): consecutive from
   e0, non-multiple, every tag covered by a confirmation received so far *)
Fixpoint oracle_safe (e : N) (hprev : list raw)
         (steps : list cstep) (obs : list (list cout)) : bool :=
  match steps, obs with
  | [], [] => true
  | s :: steps', o :: obs' =>
      let h := hprev ++ [mk_raw s] in
      let fix go (e : N) (o : list cout) : bool * N :=
        match o with
        | [] => (true, e)
        | (t, m, _) :: o' =>
            if (t =? e) && negb m && existsb (fun r => covers r t) h
            then go (e + 1) o' else (false, e)
        end in
      let '(ok, e') := go e o in
      ok && oracle_safe e' h steps' obs'
  | _, _ => false
  end.

Definition oracle_ok (c : case) : bool :=
  let '(e0, steps, obs) := c in
  let h := map mk_raw steps in
  if singles_distinctb h then oracle_exact e0 [] 0 steps obs
  else if forallb (fun s => match snd s with None => true | Some _ => false end) steps
       then oracle_safe e0 [] steps obs
       else true.

(* indices (from 0) of the cases on which the model / the oracle disagree with
   what the implementation did *)
Fixpoint bad_idx {A} (f : A -> bool) (i : N) (l : list A) : list N :=
  match l with
  | [] => []
  | x :: l' => if f x then bad_idx f (i + 1) l' else i :: bad_idx f (i + 1) l'
  end.

Definition bad_model (cs : list case) : list N := bad_idx model_agrees 0 cs.
Definition bad_oracle (cs : list case) : list N := bad_idx oracle_ok 0 cs.
