(* Correspondence + property oracle for C10.  A case is what the REAL ChannelSlots did:
     (channel_max, ops, observed)  both run-length encoded *)
From Amq Require Export Lib.Base Model.Slots Spec.Slots.

Definition case := (N * list (N * op) * list (N * res))%type.

Fixpoint expand {A} (l : list (N * A)) : list A :=
  match l with
  | [] => []
  | (n, x) :: l' => repeat x (N.to_nat n) ++ expand l'
  end.

Definition res_eqb (a b : res) : bool :=
  match a, b with
  | ROk x, ROk y => x =? y
  | RUnavailable x, RUnavailable y => x =? y
  | RExhausted, RExhausted => true
  | RMakeEntryFailed, RMakeEntryFailed => true
  | RPanic, RPanic => true
  | RRemoved x, RRemoved y => Bool.eqb x y
  | RDrained x, RDrained y => list_eqb N.eqb x y
  | RFuel, RFuel => true
  | _, _ => false
  end.

Definition model_out (c : case) : list res :=
  let '(mx, ops, _) := c in fst (run (new_slots mx) (expand ops)).

(* a panic ends the run of the implementation: compare up to and including it *)
Fixpoint agree (m obs : list res) : bool :=
  match m, obs with
  | [], [] => true
  | _, [RPanic] => match m with RPanic :: _ => true | _ => false end
  | a :: m', b :: obs' => res_eqb a b && agree m' obs'
  | _, _ => false
  end.

Definition model_agrees (c : case) : bool :=
  let '(_, _, obs) := c in agree (model_out c) (expand obs).

Definition oracle_ok (c : case) : bool :=
  let '(mx, ops, obs) := c in
  let o := expand obs in
  negb (existsb (fun r => match r with RPanic => true | _ => false end) o) &&
  allowed_runb false mx [] (expand ops) o.

Fixpoint bad_idx {A} (f : A -> bool) (i : N) (l : list A) : list N :=
  match l with
  | [] => []
  | x :: l' => if f x then bad_idx f (i + 1) l' else i :: bad_idx f (i + 1) l'
  end.

Definition bad_model (cs : list case) : list N := bad_idx model_agrees 0 cs.
Definition bad_oracle (cs : list case) : list N := bad_idx oracle_ok 0 cs.
