(* Correspondence + oracle for C17.
   L1 cases: the real Heartbeat::fire asked about (interval, elapsed) through the backdate
   hook, and the real start_heartbeats about the intervals it starts.
   L2 cases: real-time scenarios with h = 1 s, judged against windows derived from the
   model with a stated slack. *)
From Amq Require Export Lib.Base Gen.Consts Model.Heartbeat Model.Frames Model.OutBuf Model.Core.

Inductive case :=
| Fire (interval elapsed : N) (expired : bool)               (* ms *)
| Intervals (secs : N) (started : option (N * N))            (* (rx, tx) in ms *)
| IdleSend (secs : N) (gaps : list N)                        (* ms between consecutive writes of an idle client *)
| Silent (secs : N) (failed_after : option N) (kind_ok : bool)     (* ms until MissedServerHeartbeats *)
| SilentBusy (secs : N) (last_byte : N) (failed_after : option N) (kind_ok : bool)
    (* the client has unsent data queued behind a stalled transport; the server's last byte came
       last_byte ms after the timers started; the I/O thread is kept busy for 0.4 s around the
       time the failure is due, so that it finds the tx and the rx timer due in one pass, tx
       first; ms from the timers' start until the failure *)
| HbPass (interval queued away : N) (missed ok : bool) (outlen : N)
    (* one pass of process_heartbeat_timers over real timers (interval in ms) after the thread
       was away for `away` ms with `queued` bytes of output pending: MissedServerHeartbeats
       reported in that pass? / pass Ok? / out-buffer length afterwards *)
| Live (secs : N) (period : N) (duration : N) (failed : bool)      (* server sends every `period` ms *)
| Zero (duration : N) (heartbeats failures : N).

Definition slack : N := 700.      (* timer tick, wake-up latency, a loaded machine *)

Definition model_agrees (c : case) : bool :=
  match c with
  | Fire i e x => Bool.eqb (fst (hb_fire e (hb_start 0 i))) x
  | Intervals s st =>
      match start_heartbeats 0 s, st with
      | None, None => true
      | Some (rx, tx), Some (r, t) => (h_interval rx =? r) && (h_interval tx =? t)
      | _, _ => false
      end
  | HbPass h queued away missed ok outlen =>
      (* what timer.poll() yields, in the order of the wheel: the tx entry (due at h) before the
         rx entry (due at 2h); both have seen no activity *)
      let fired := (if h <=? away + fudge_ms then [(HbTx, true)] else []) ++
                   (if 2 * h <=? away + fudge_ms then [(HbRx, true)] else []) in
      let c0 := set_out (init_core 10 16) {| ob := repeat 0 (N.to_nat queued); ob_sealed := false |} in
      let '(o, c1) := heartbeat_timers fired c0 in
      Bool.eqb missed (match o with OErr EMissedHeartbeats => true | _ => false end) &&
      Bool.eqb ok (match o with OOk => true | _ => false end) &&
      (N.of_nat (length (ob (c_out c1))) =? outlen)
  | _ => true
  end.

Definition oracle_ok (c : case) : bool :=
  match c with
  | Fire i e x => Bool.eqb x (i <=? e + 5)
  | Intervals s st =>
      match st with
      | None => s =? 0
      | Some (r, t) => negb (s =? 0) && (r =? 2000 * s) && (t =? 1000 * s)
      end
  | IdleSend s gaps =>
      (* at least once per h seconds (up to the slack), and not a burst either *)
      negb (length gaps <=? 1)%nat && forallb (fun g => (g <=? 1000 * s + slack) && (1000 * s <=? g + slack)) gaps
  | Silent s after ok =>
      match after with
      | Some t => ok && (2000 * s <=? t + 50) && (t <=? 2000 * s + 2 * slack)
      | None => false
      end
  | SilentBusy s last after ok =>
      (* a firing that finds traffic since re-arms the rx timer for the remaining time, so the
         failure comes 2h (less the 5 ms fudge) after the server's last byte - queued output
         and the tx timer falling due in the same pass must not delay it *)
      let due := last + 2000 * s - fudge_ms in
      match after with
      | Some t => ok && (due <=? t + 60) && (t <=? due + 450)
      | None => false
      end
  | HbPass h queued away missed ok outlen =>
      (* silence of 2h is reported in the pass that finds it, whatever else is due and whatever
         is queued; less than 2h is not *)
      Bool.eqb missed (2 * h <=? away + fudge_ms)
  | Live s period dur failed => negb failed
  | Zero dur hbs fails => (hbs =? 0) && (fails =? 0)
  end.

Fixpoint bad_idx {A} (f : A -> bool) (i : N) (l : list A) : list N :=
  match l with
  | [] => []
  | x :: l' => if f x then bad_idx f (i + 1) l' else i :: bad_idx f (i + 1) l'
  end.
Definition bad_model (cs : list case) : list N := bad_idx model_agrees 0 cs.
Definition bad_oracle (cs : list case) : list N := bad_idx oracle_ok 0 cs.
