(* Correspondence + oracle for C17.
   L1 cases: the real Heartbeat::fire asked about (interval, elapsed) through the backdate
   hook, and the real start_heartbeats about the intervals it starts.
   L2 cases: real-time scenarios with h = 1 s, judged against windows derived from the
   model with a stated slack. *)
From Amq Require Export Lib.Base Gen.Consts Model.Heartbeat.

Inductive case :=
| Fire (interval elapsed : N) (expired : bool)               (* ms *)
| Intervals (secs : N) (started : option (N * N))            (* (rx, tx) in ms *)
| IdleSend (secs : N) (gaps : list N)                        (* ms between consecutive writes of an idle client *)
| Silent (secs : N) (failed_after : option N) (kind_ok : bool)     (* ms until MissedServerHeartbeats *)
| Live (secs : N) (period : N) (duration : N) (failed : bool)      (* server sends every `period` ms *)
| Zero (duration : N) (heartbeats failures : N).

Definition slack : N := 700.      (* timer tick, wake-up latency, a loaded machine *)

Definition model_agrees (c : case) : bool :=
  match c with
  | Fire i e x => Bool.eqb (fst (hb_fire e (hb_start 0 i))) x
  | Intervals s st =>
      match start_heartbeats 0 s, st with
      | None, None => true
      | Some (rx, tx), Some (r, t) => (h_interval rx =? r) && (h_interval tx =? t)
      | _, _ => false
      end
  | _ => true
  end.

Definition oracle_ok (c : case) : bool :=
  match c with
  | Fire i e x => Bool.eqb x (i <=? e + 5)
  | Intervals s st =>
      match st with
      | None => s =? 0
      | Some (r, t) => negb (s =? 0) && (r =? 2000 * s) && (t =? 1000 * s)
      end
  | IdleSend s gaps =>
      (* at least once per h seconds (up to the slack), and not a burst either *)
      negb (length gaps <=? 1)%nat && forallb (fun g => (g <=? 1000 * s + slack) && (1000 * s <=? g + slack)) gaps
  | Silent s after ok =>
      match after with
      | Some t => ok && (2000 * s <=? t + 50) && (t <=? 2000 * s + 2 * slack)
      | None => false
      end
  | Live s period dur failed => negb failed
  | Zero dur hbs fails => (hbs =? 0) && (fails =? 0)
  end.

Fixpoint bad_idx {A} (f : A -> bool) (i : N) (l : list A) : list N :=
  match l with
  | [] => []
  | x :: l' => if f x then bad_idx f (i + 1) l' else i :: bad_idx f (i + 1) l'
  end.
Definition bad_model (cs : list case) : list N := bad_idx model_agrees 0 cs.
Definition bad_oracle (cs : list case) : list N := bad_idx oracle_ok 0 cs.
