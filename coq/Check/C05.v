(* C05 oracle: a fatal input is reported with the error that names it; after the thread's
   state is dropped every queue any client holds is disconnected (so every blocked or later
   call returns an error and every consumer iterator ends); nothing panics. *)
From Amq Require Export Check.CoreOracles.

Definition expected_of_term (t : rterm) : option err :=
  match t with
  | TBlock => None
  | TEof => Some EUnexpectedSocketClose
  | TIoErr => Some EIoRead
  | TMalformed => Some EMalformed
  end.

Definition has_werr (w : option (list wr)) : bool :=
  match w with Some l => existsb (fun x => match x with WErr => true | _ => false end) l | None => false end.

(* each stream event that carries a transport failure reports exactly that failure, unless
   a frame before it in the same read already failed *)
Definition causes_ok (ops : list cop) (obs : list (cobs * digest)) : bool :=
  forallb (fun '(o, b, dg) =>
             match o, b with
             | OEvent (EvStream w r), BOutcome out wl _ =>
                 if has_werr w then
                   outcome_eqb out (OErr EIoWrite)
                   (* nothing was queued: the transport is not touched at all *)
                   || (outcome_eqb out OOk && (wl =? 0) && (d_len dg =? 0) && match r with None => true | _ => false end)
                 else match r with
                      | Some (_, t) =>
                          match expected_of_term t, out with
                          | Some e, OErr e' => err_eqb e e' || negb (err_eqb e' EUnexpectedSocketClose || err_eqb e' EIoRead || err_eqb e' EMalformed || err_eqb e' EIoWrite)
                          | Some _, _ => false
                          | None, OErr e' => negb (err_eqb e' EUnexpectedSocketClose || err_eqb e' EIoRead || err_eqb e' EMalformed || err_eqb e' EIoWrite)
                          | None, _ => true
                          end
                      | None => match out with OErr EIoWrite => false | _ => true end
                      end
             | _, _ => true
             end) (zip3 ops obs).

Definition torn (ops : list cop) : bool :=
  existsb (fun o => match o with OTeardown => true | _ => false end) ops.

(* after teardown: the last receive on every queue that was received from at all is Disconnected *)
Definition released (ops : list cop) (obs : list (cobs * digest)) (aux : list (N * addressee)) : bool :=
  negb (torn ops) ||
  forallb (fun q => match last_recv q ops obs with
                    | Some RDisc | None => true
                    | _ => false
                    end) (0 :: 1 :: map fst aux).

Definition oracle_ok (c : case) : bool :=
  let '(_, _, ops, obs, aux) := c in
  oracle_no_panic obs && causes_ok ops obs && released ops obs aux && oracle_consumers ops obs &&
  oracle_heartbeats ops obs && exception_quiet 0 (zip3 ops obs).
Definition bad_oracle (cs : list case) : list N := bad_idx oracle_ok 0 cs.
