(* Correspondence + oracle for C19.
   case = (the URL as the real `url` crate splits it, what the generator MEANT (the
           components before percent-encoding), what amiquip decoded, what the
           secure-only Connection::open said) *)
From Amq Require Export Lib.Base Gen.Consts Model.Url.

Record intent := {
  i_user : option str; i_pass : option str; i_vhost : option str;   (* None: not present in the URL *)
  i_valid : bool }.                 (* the generator put nothing malformed into the URL *)

Inductive uobs :=
| UOk (amqps : bool) (host : str) (port : N) (auth : uauth) (vhost : str) (cm hb : N) (timeout : option N)
| UErr (e : uerr)
| UOther.        (* an error of a kind the model does not know: url crate parse errors etc. *)

(* secure-only open: 0 = not called (amqps), 1 = InsecureUrl, 2 = the URL's own error, 3 = anything else *)
Definition case := (surl * intent * uobs * N)%type.

Definition uauth_eqb (a b : uauth) : bool :=
  match a, b with
  | UPlain u1 p1, UPlain u2 p2 => bytes_eqb u1 u2 && bytes_eqb p1 p2
  | UExternal, UExternal => true
  | _, _ => false
  end.

Definition uerr_eqb (a b : uerr) : bool :=
  match a, b with
  | UeInvalidScheme, UeInvalidScheme | UeExtraPath, UeExtraPath | UeHeartbeat, UeHeartbeat
  | UeChannelMax, UeChannelMax | UeTimeout, UeTimeout | UeInsecure, UeInsecure => true
  | UeAuthMechanism x, UeAuthMechanism y | UeParameter x, UeParameter y => bytes_eqb x y
  | _, _ => false
  end.

Definition obs_of_plan (p : plan) : uobs :=
  match p with
  | PConnect s h port o => UOk s h port (v_auth o) (v_vhost o) (v_channel_max o) (v_heartbeat o) (v_timeout o)
  | PFail e => UErr e
  end.

Definition uobs_eqb (a b : uobs) : bool :=
  match a, b with
  | UOk s1 h1 p1 a1 v1 c1 b1 t1, UOk s2 h2 p2 a2 v2 c2 b2 t2 =>
      Bool.eqb s1 s2 && bytes_eqb h1 h2 && (p1 =? p2) && uauth_eqb a1 a2 && bytes_eqb v1 v2 &&
      (c1 =? c2) && (b1 =? b2) && option_eqb N.eqb t1 t2
  | UErr e1, UErr e2 => uerr_eqb e1 e2
  | UOther, UOther => true
  | _, _ => false
  end.

Definition model_out (c : case) : uobs * N :=
  let '(u, _, _, _) := c in
  (obs_of_plan (open_plan u true),
   if bytes_eqb (u_scheme u) s_amqp then
     match open_plan u false with PFail UeInsecure => 1 | PFail _ => 2 | PConnect _ _ _ _ => 3 end
   else 0).

Definition model_agrees (c : case) : bool :=
  let '(_, _, obs, sec) := c in
  let '(m, msec) := model_out c in uobs_eqb m obs && (msec =? sec).

(* ---- oracle: the property text, against what the generator meant ---- *)

Definition or_guest (o : option str) : str := match o with Some s => s | None => s_guest end.

(* last value of a key among the pairs *)
Definition last_of (key : str) (q : list (str * str)) : option str :=
  fold_left (fun acc '(k, v) => if bytes_eqb k key then Some v else acc) q None.

Definition all_digits (s : str) : bool :=
  match s with [] => false | _ => forallb (fun c => (48 <=? c) && (c <=? 57)) s end.
Definition to_num (s : str) : N := fold_left (fun a c => a * 10 + (c - 48)) s 0.
Definition strip_plus (s : str) : str := match s with 43 :: r => r | _ => s end.

Definition num_ok (max : N) (s : str) : bool :=
  let b := strip_plus s in all_digits b && (to_num b <=? max).

Definition known_key (k : str) : bool :=
  bytes_eqb k k_heartbeat || bytes_eqb k k_channel_max || bytes_eqb k k_timeout || bytes_eqb k k_auth.

Definition pair_ok (kv : str * str) : bool :=
  let '(k, v) := kv in
  if bytes_eqb k k_heartbeat || bytes_eqb k k_channel_max then num_ok 65535 v
  else if bytes_eqb k k_timeout then num_ok 18446744073709551615 v
  else if bytes_eqb k k_auth then bytes_eqb v s_external
  else false.

Definition oracle_ok (c : case) : bool :=
  let '(u, it, obs, sec) := c in
  let amqp := bytes_eqb (u_scheme u) s_amqp in
  let amqps := bytes_eqb (u_scheme u) s_amqps in
  let nseg := match u_segments u with Some l => length l | None => 0%nat end in
  let well_formed := (amqp || amqps) && (nseg <=? 1)%nat && forallb pair_ok (u_query u) in
  (* the secure-only entry never connects for amqp:// *)
  (if amqp then (sec =? 1) || (sec =? 2) else sec =? 0) &&
  (if amqp then (if well_formed then sec =? 1 else sec =? 2) else true) &&
  match obs with
  | UOther => false
  | UErr e => negb well_formed &&
              match e with UeInsecure => false | _ => true end
  | UOk s host port auth vhost cm hb tmo =>
      well_formed &&
      Bool.eqb s amqps &&
      bytes_eqb host (match u_host u with None | Some [] => s_localhost | Some h => h end) &&
      (port =? match u_port u with Some p => p | None => if amqps then 5671 else 5672 end) &&
      bytes_eqb vhost (match i_vhost it with Some v => (match v with [] => s_slash | _ => v end) | None => s_slash end) &&
      uauth_eqb auth
        (match last_of k_auth (u_query u) with
         | Some _ => UExternal
         | None => match i_user it, i_pass it with
                   | None, None => UPlain s_guest s_guest
                   | usr, pw => UPlain (match usr with Some [] | None => s_guest | Some x => x end) (or_guest pw)
                   end
         end) &&
      (hb =? match last_of k_heartbeat (u_query u) with Some v => to_num (strip_plus v) | None => c_default_heartbeat end) &&
      (cm =? match last_of k_channel_max (u_query u) with Some v => to_num (strip_plus v) | None => c_default_channel_max end) &&
      option_eqb N.eqb tmo (option_map (fun v => to_num (strip_plus v)) (last_of k_timeout (u_query u)))
  end.

Fixpoint bad_idx {A} (f : A -> bool) (i : N) (l : list A) : list N :=
  match l with
  | [] => []
  | x :: l' => if f x then bad_idx f (i + 1) l' else i :: bad_idx f (i + 1) l'
  end.
Definition bad_model (cs : list case) : list N := bad_idx model_agrees 0 cs.
Definition bad_oracle (cs : list case) : list N := bad_idx oracle_ok 0 cs.
