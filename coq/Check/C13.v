(* C13 oracle: confirms, returns and blocked notices reach the CURRENT listener verbatim
   and in order; a replaced listener is disconnected; with no listener or a dropped one
   the events are discarded and nothing else is disturbed. *)
From Amq Require Export Check.CoreOracles.

Record lst := {
  l_conf : alist N;                 (* channel -> current confirm listener queue *)
  l_ret : alist N;
  l_blocked : option N;
  l_dead : list N;                  (* receivers dropped *)
  l_replaced : list N;
  l_exp : alist (list qitem);       (* queue -> what it must have carried *)
  l_rs : alist rstate }.            (* compliant reader state, per channel *)

Definition memb (x : N) (l : list N) : bool := existsb (N.eqb x) l.

Definition push_exp (q : N) (it : qitem) (m : alist (list qitem)) : alist (list qitem) :=
  ainsert q (match alookup q m with Some l => l ++ [it] | None => [it] end) m.

(* an event for the listener registered under `cur`: delivered, or - if its receiver is
   gone - discarded and the registration cleared *)
Definition deliver (cur : option N) (it : qitem) (s : lst) : option N * lst :=
  match cur with
  | None => (None, s)
  | Some q =>
      if memb q (l_dead s) then (None, s)
      else (Some q, {| l_conf := l_conf s; l_ret := l_ret s; l_blocked := l_blocked s; l_dead := l_dead s;
                       l_replaced := l_replaced s; l_exp := push_exp q it (l_exp s); l_rs := l_rs s |})
  end.

Definition set_opt (k : N) (v : option N) (m : alist N) : alist N :=
  match v with Some q => ainsert k q m | None => aremove k m end.

Definition on_frame (s : lst) (f : frame) : lst :=
  match f with
  | FMethod 0 (MBlocked r) =>
      let '(h, s') := deliver (l_blocked s) (IBlocked r) s in
      {| l_conf := l_conf s'; l_ret := l_ret s'; l_blocked := h; l_dead := l_dead s';
         l_replaced := l_replaced s'; l_exp := l_exp s'; l_rs := l_rs s' |}
  | FMethod 0 MUnblocked =>
      let '(h, s') := deliver (l_blocked s) IUnblocked s in
      {| l_conf := l_conf s'; l_ret := l_ret s'; l_blocked := h; l_dead := l_dead s';
         l_replaced := l_replaced s'; l_exp := l_exp s'; l_rs := l_rs s' |}
  | FMethod ch (MAck d m) =>
      let '(h, s') := deliver (alookup ch (l_conf s)) (IConfirm true d m) s in
      {| l_conf := set_opt ch h (l_conf s'); l_ret := l_ret s'; l_blocked := l_blocked s'; l_dead := l_dead s';
         l_replaced := l_replaced s'; l_exp := l_exp s'; l_rs := l_rs s' |}
  | FMethod ch (MNack d m) =>
      let '(h, s') := deliver (alookup ch (l_conf s)) (IConfirm false d m) s in
      {| l_conf := set_opt ch h (l_conf s'); l_ret := l_ret s'; l_blocked := l_blocked s'; l_dead := l_dead s';
         l_replaced := l_replaced s'; l_exp := l_exp s'; l_rs := l_rs s' |}
  | _ =>
      match ref_step (l_rs s) f with
      | None => s
      | Some (rs', outs) =>
          fold_left (fun s0 '(a, m) =>
                       match a, m with
                       | AReturn ch, RReturned c t e k b p =>
                           let '(h, s1) := deliver (alookup ch (l_ret s0)) (IReturn c t e k b p) s0 in
                           {| l_conf := l_conf s1; l_ret := set_opt ch h (l_ret s1); l_blocked := l_blocked s1;
                              l_dead := l_dead s1; l_replaced := l_replaced s1; l_exp := l_exp s1; l_rs := l_rs s1 |}
                       | _, _ => s0
                       end) outs
                    {| l_conf := l_conf s; l_ret := l_ret s; l_blocked := l_blocked s; l_dead := l_dead s;
                       l_replaced := l_replaced s; l_exp := l_exp s; l_rs := rs' |}
      end
  end.

Definition olist (o : option N) : list N := match o with Some x => [x] | None => [] end.

Definition on_op (s : lst) (x : cop * cobs * digest) : lst :=
  let '(o, b, _) := x in
  match o, b with
  | OClSend ch (MsgSetConfirm h), BSent true =>
      {| l_conf := set_opt ch h (l_conf s); l_ret := l_ret s; l_blocked := l_blocked s; l_dead := l_dead s;
         l_replaced := olist (alookup ch (l_conf s)) ++ l_replaced s; l_exp := l_exp s; l_rs := l_rs s |}
  | OClSend ch (MsgSetReturn h), BSent true =>
      {| l_conf := l_conf s; l_ret := set_opt ch h (l_ret s); l_blocked := l_blocked s; l_dead := l_dead s;
         l_replaced := olist (alookup ch (l_ret s)) ++ l_replaced s; l_exp := l_exp s; l_rs := l_rs s |}
  | OClSetBlocked, BNewQ q true =>
      {| l_conf := l_conf s; l_ret := l_ret s; l_blocked := Some q; l_dead := l_dead s;
         l_replaced := olist (l_blocked s) ++ l_replaced s; l_exp := l_exp s; l_rs := l_rs s |}
  | OClDropRx q, _ =>
      {| l_conf := l_conf s; l_ret := l_ret s; l_blocked := l_blocked s; l_dead := q :: l_dead s;
         l_replaced := l_replaced s; l_exp := l_exp s; l_rs := l_rs s |}
  | _, _ => fold_left on_frame (frames_of_op o) s
  end.

Definition is_listener (a : addressee) : bool :=
  match a with AReturn _ | AConfirm _ | ABlocked => true | _ => false end.

(* all listener queues the case ever created *)
Definition listener_queues (ops : list cop) (obs : list (cobs * digest)) : list N :=
  flat_map (fun '(o, b, _) => match o, b with
                              | OClNewQ, BNewQ q _ | OClSetBlocked, BNewQ q _ => [q]
                              | _, _ => []
                              end) (zip3 ops obs).

Definition oracle_ok (c : case) : bool :=
  let '(_, _, ops, obs, aux) := c in
  let rc := received ops obs in
  oracle_no_panic obs && all_ok obs &&
  let s := fold_left on_op (zip3 ops obs)
                     {| l_conf := []; l_ret := []; l_blocked := None; l_dead := []; l_replaced := [];
                        l_exp := []; l_rs := [] |} in
  forallb (fun q =>
             memb q (l_dead s) ||
             (qitem_list_eqb (items_from q rc) (match alookup q (l_exp s) with Some l => l | None => [] end) &&
              (negb (memb q (l_replaced s)) || is_disc (last_recv q ops obs))))
          (listener_queues ops obs).
Definition bad_oracle (cs : list case) : list N := bad_idx oracle_ok 0 cs.
