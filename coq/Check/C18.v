(* Oracle for C18 (end to end): publishers against a transport that accepts nothing for a
   while.  case = (tuning (bound, high, low), channels, bytes one publish queues,
     publishes accepted when the stall ended, did every publisher stand still during the
     last part of the stall, did every publisher finish after the transport reopened,
     then the C01 observation: header, leftover, issued per channel, wire) *)
From Amq Require Export Lib.Base Check.C01.

Definition case18 := ((N * N * N) * N * N * N * bool * bool * C01.case)%type.
Definition case := case18.

(* "publishers block instead of memory growing without limit": every publisher stood still
   although it had plenty left to publish; "every blocked publisher resumes"; "every message
   accepted before, during and after the stall is transmitted exactly once and in order" *)
Definition oracle_ok (c : case) : bool :=
  let '(_, _, _, _, stable, resumed, c01) := c in
  stable && resumed && C01.oracle_ok c01.

(* the bound in terms of the tuning: high-water mark, plus what the bounded mailboxes and one
   blocked sender per channel can hold, plus the message in flight when the mark was passed *)
Definition tuning_bound (c : case) : N :=
  let '((bound, high, _), nch, msg, _, _, _, _) := c in high + nch * (bound + 2) * msg.
Definition within_tuning_bound (c : case) : bool :=
  let '(_, _, msg, accepted, _, _, _) := c in accepted * msg <=? tuning_bound c.

Definition model_agrees (c : case) : bool := oracle_ok c.
Definition model_out (c : case) : bool * bool := (oracle_ok c, within_tuning_bound c).

Definition bad_model (cs : list case) : list N := C01.bad_idx model_agrees 0 cs.
Definition bad_oracle (cs : list case) : list N := C01.bad_idx oracle_ok 0 cs.
