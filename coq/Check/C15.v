(* Correspondence + oracle for C15 (negotiation part).
   case = (client cm fm hb, server cm fm hb, observed) ; observed: inl (cm,fm,hb) | inr (min,requested) *)
From Amq Require Export Lib.Base Gen.Consts Model.Tune Spec.Tune.

Definition case := (N * N * N * (N * N * N) * tune_res)%type.

Definition tune_eqb (a b : tune_res) : bool :=
  match a, b with
  | TuneOk a1 a2 a3, TuneOk b1 b2 b3 => (a1 =? b1) && (a2 =? b2) && (a3 =? b3)
  | FrameMaxTooSmall a1 a2, FrameMaxTooSmall b1 b2 => (a1 =? b1) && (a2 =? b2)
  | _, _ => false
  end.

Definition model_out (c : case) : tune_res :=
  let '(c_cm, c_fm, c_hb, (s_cm, s_fm, s_hb), _) := c in
  make_tune_ok c_cm c_fm c_hb s_cm s_fm s_hb.

Definition model_agrees (c : case) : bool :=
  let '(_, _, _, _, obs) := c in tune_eqb (model_out c) obs.

(* the property, evaluated on what the implementation returned; 4096 is the
   protocol's frame-min-size as the property states it, NOT the generated constant *)
Definition oracle_ok (c : case) : bool :=
  let '(c_cm, c_fm, c_hb, (s_cm, s_fm, s_hb), obs) := c in
  let fm := negf 4294967295 c_fm s_fm in
  match obs with
  | TuneOk cm' fm' hb' =>
      (4096 <=? fm) && (cm' =? negf 65535 c_cm s_cm) && (fm' =? fm) && (hb' =? N.min c_hb s_hb)
  | FrameMaxTooSmall mn rq => (fm <? 4096) && (mn =? 4096) && (rq =? fm)
  end.

Fixpoint bad_idx {A} (f : A -> bool) (i : N) (l : list A) : list N :=
  match l with
  | [] => []
  | x :: l' => if f x then bad_idx f (i + 1) l' else i :: bad_idx f (i + 1) l'
  end.
Definition bad_model (cs : list case) : list N := bad_idx model_agrees 0 cs.
Definition bad_oracle (cs : list case) : list N := bad_idx oracle_ok 0 cs.
