(* C06 at the level of the I/O thread: a long run of frames in one readiness episode, or the
   same frames in several.  Besides agreement with the Core model: an episode that ends with
   "would block" reports no transport failure, and - when nothing failed except possibly the
   transport right behind the last complete frame of an episode - the client received as many
   deliveries as were sent, whatever the segmentation. *)
From Amq Require Export Check.C05.

Definition is_deliver (f : frame) : bool := match f with FMethod _ (MDeliver _ _ _ _ _) => true | _ => false end.

Definition all_ok (obs : list (cobs * digest)) : bool :=
  forallb (fun '(b, _) => match b with BOutcome OOk _ _ | BDone _ | BSent _ | BNewQ _ _ | BRecv _ | BBytes _ | BUnit => true | _ => false end) obs.

Definition deliveries_received (obs : list (cobs * digest)) : N :=
  N.of_nat (length (filter (fun '(b, _) => match b with BRecv (RItem (IDelivery _)) => true | _ => false end) obs)).

(* nothing went wrong except, possibly, the transport at the END of a read episode *)
Definition only_transport_ends (ops : list cop) (obs : list (cobs * digest)) : bool :=
  forallb (fun '(o, b, _) =>
             match b with
             | BOutcome OOk _ _ | BDone _ | BSent _ | BNewQ _ _ | BRecv _ | BBytes _ | BUnit => true
             | BOutcome (OErr e) _ _ =>
                 match o with
                 | OEvent (EvStream _ (Some (_, t))) =>
                     match expected_of_term t with Some e' => err_eqb e e' | None => false end
                 | _ => false
                 end
             | _ => false
             end) (zip3 ops obs).

(* every frame is handed on as soon as its last byte has arrived: when the only thing that
   went wrong is the end of the stream (or an I/O error, or an unparsable frame) BEHIND the
   complete frames of a read episode, every delivery completed before it has been delivered -
   in the same wake-up or not *)
Definition oracle_ok (c : case) : bool :=
  let '(_, _, ops, obs, aux) := c in
  oracle_core c && causes_ok ops obs &&
  (if only_transport_ends ops obs
   then deliveries_received obs =? N.of_nat (length (filter is_deliver (frames_of ops)))
   else true).
Definition bad_oracle (cs : list case) : list N := bad_idx oracle_ok 0 cs.
