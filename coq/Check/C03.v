(* C03 oracle: valid server histories.  Every queue with an addressee received EXACTLY the
   messages the compliant reading of the frames yields for it (once, in order, intact);
   nothing failed, nothing panicked; consumer queues keep their shape. *)
From Amq Require Export Check.Core.

Definition all_ok (obs : list (cobs * digest)) : bool :=
  forallb (fun '(b, _) => match b with BOutcome OOk _ _ => true | BOutcome _ _ _ => false | _ => true end) obs.

Definition oracle_ok (c : case) : bool :=
  let '(_, _, ops, obs, aux) := c in
  oracle_no_panic obs && all_ok obs && oracle_content_gen false ops obs aux && oracle_consumers ops obs.
Definition bad_oracle (cs : list case) : list N := bad_idx oracle_ok 0 cs.
