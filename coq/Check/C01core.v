(* C01 at the level of the I/O thread (CoreProbe): whole buffers from several channels'
   mailboxes, events in any order, writes fragmented at every offset.  Besides the
   step-by-step equality with the model: nothing fails, and bytes written + bytes buffered
   is exactly the sum of the buffers the thread has taken so far. *)
From Amq Require Export Check.CoreOracles.

(* lengths of the buffers submitted to each channel that the thread has taken: a Send is
   taken by the next EvChan of its channel (the mailbox is drained completely) *)
Fixpoint conserved (pending : alist N) (taken : N) (l : list (cop * cobs * digest * N)) : bool :=
  match l with
  | [] => true
  | (o, b, d, total) :: l' =>
      let '(pending', taken') :=
        match o, b with
        | OClSend ch (MsgSend buf), BSent true =>
            (ainsert ch (N.of_nat (length buf) + match alookup ch pending with Some x => x | None => 0 end) pending, taken)
        | OEvent (EvChan ch), BOutcome OOk _ _ =>
            (ainsert ch 0 pending, taken + match alookup ch pending with Some x => x | None => 0 end)
        | _, _ => (pending, taken)
        end in
      ((d_phase d =? 9) || d_sealed d || (total =? taken')) && conserved pending' taken' l'
  end.

Definition is_close (f : frame) : bool := match f with FMethod 0 (MConnClose _ _) => true | _ => false end.

(* the server's Close processed with the buffer not yet sealed: exactly CloseOk (12 bytes) is
   added behind what was queued - nothing queued is dropped *)
Fixpoint close_keeps_queue (prev_total : N) (prev_sealed : bool) (l : list (cop * cobs * digest * N)) : bool :=
  match l with
  | [] => true
  | (o, b, d, t) :: l' =>
      (if existsb is_close (frames_of_op o) && negb prev_sealed &&
          match b with BOutcome OOk _ _ => true | _ => false end
       then t =? prev_total + 12 else true) && close_keeps_queue t (d_sealed d) l'
  end.

Definition oracle_ok (c : case) : bool :=
  let '(_, _, ops, obs, _) := c in
  oracle_no_panic obs && all_ok obs &&
  conserved [] 0 (map (fun '(x, t) => (x, t)) (combine (zip3 ops obs) (totals 0 obs))) &&
  close_keeps_queue 0 false (map (fun '(x, t) => (x, t)) (combine (zip3 ops obs) (totals 0 obs))).
Definition bad_oracle (cs : list case) : list N := bad_idx oracle_ok 0 cs.
