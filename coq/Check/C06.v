(* Correspondence + oracle for C06.
   case = (script, accepts, observed)
     script   : list rd (chunks RLE-printed by the harness)
     accepts  : per complete frame of the stream (in order), does amq-protocol parse it
     observed : per episode, frames handed on as (index, length, adler32) and the result *)
From Amq Require Export Lib.Base Gen.Consts Model.Wire Model.FrameBuf Spec.FrameBuf.

Definition rep (n b : N) : bytes := repeat b (N.to_nat n).

Definition adler (bs : bytes) : N :=
  let '(a, b) := fold_left (fun '(a, b) x => let a' := (a + x) mod 65521 in (a', (b + a') mod 65521))
                           bs (1, 0) in b * 65536 + a.

Definition fobs := (N * N * N)%type.   (* index, length, adler32 *)
Definition eobs := (list fobs * ep_result)%type.
Definition case := (list rd * list bool * list eobs)%type.

Definition acc_of (l : list bool) (i : N) : bool := nth (N.to_nat i) l true.

Definition obs_frame (x : N * bytes) : fobs :=
  (fst x, N.of_nat (length (snd x)), adler (snd x)).

Definition model_out (c : case) : list eobs :=
  let '(sc, acc, _) := c in
  map (fun '(hs, r) => (map obs_frame hs, r))
      (fst (run_episodes (S (length sc)) (acc_of acc) new_fbuf sc)).

Definition res_eqb (a b : ep_result) : bool :=
  match a, b with
  | EpOk x, EpOk y => x =? y
  | EpClosed, EpClosed | EpIoErr, EpIoErr | EpMalformed, EpMalformed
  | EpHandlerErr, EpHandlerErr | EpStuck, EpStuck => true
  | _, _ => false
  end.
Definition fobs_eqb (a b : fobs) : bool :=
  let '(i, l, s) := a in let '(i', l', s') := b in (i =? i') && (l =? l') && (s =? s').
Definition eobs_eqb (a b : eobs) : bool :=
  list_eqb fobs_eqb (fst a) (fst b) && res_eqb (snd a) (snd b).

Definition model_agrees (c : case) : bool :=
  let '(_, _, obs) := c in list_eqb eobs_eqb (model_out c) obs.

(* ---- oracle: from the whole stream and the cut points only ---- *)

(* bytes delivered by each episode, and how the episode ends *)
Fixpoint episodes (sc : list rd) (cur : bytes) : list (bytes * rd) :=
  match sc with
  | [] => []
  | Chunk bs :: sc' => episodes sc' (cur ++ bs)
  | e :: sc' => (cur, e) :: episodes sc' []
  end.

(* expected observation: walk the episodes, keeping the total stream delivered so far;
   frames already handed on are the first `done` good frames *)
Fixpoint expect (acc : N -> bool) (eps : list (bytes * rd)) (sofar : bytes) (done : nat)
  : list eobs :=
  match eps with
  | [] => []
  | (bs, e) :: eps' =>
      let s := sofar ++ bs in
      let '(slices, _) := split_all s in
      let '(good, bad) := good_prefix acc 0 slices in
      let idx := seq 0 (length good) in
      let all := map (fun '(i, fr) => (N.of_nat i, N.of_nat (length fr), adler fr)) (combine idx good) in
      let new := skipn done all in
      if bad then [(new, EpMalformed)]
      else match e with
           | Block => (new, EpOk (N.of_nat (length bs))) :: expect acc eps' s (length good)
           | Eof => [(new, EpClosed)]
           | IoErr => [(new, EpIoErr)]
           | Chunk _ => []
           end
  end.

Definition oracle_ok (c : case) : bool :=
  let '(sc, acc, obs) := c in
  list_eqb eobs_eqb (expect (acc_of acc) (episodes sc []) [] 0) obs.

Fixpoint bad_idx {A} (f : A -> bool) (i : N) (l : list A) : list N :=
  match l with
  | [] => []
  | x :: l' => if f x then bad_idx f (i + 1) l' else i :: bad_idx f (i + 1) l'
  end.
Definition bad_model (cs : list case) : list N := bad_idx model_agrees 0 cs.
Definition bad_oracle (cs : list case) : list N := bad_idx oracle_ok 0 cs.
