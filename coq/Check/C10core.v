(* c10core (C10 / C09 at the level of the I/O thread): model agreement + the core oracles +
   "no id makes a call hang": a request that a channel's mailbox accepted is handed to the
   out-buffer by that channel's next wake-up whenever nothing stands in the way (connection
   steady, buffer not sealed and not above the default high-water mark) - whatever the id,
   65535 included (an id is also the poll token of the channel's mailbox). *)
From Amq Require Export Check.Core Check.CoreOracles.

Fixpoint taken_ok (l : list (cop * cobs * digest)) : bool :=
  match l with
  | (OClSend ch (MsgSend buf), BSent true, d0) :: l' =>
      match l' with
      | (OEvent (EvChan ch'), BOutcome OOk _ _, d1) :: _ =>
          (if (ch =? ch') && negb (ch =? 0) && (d_phase d0 =? 0) && negb (d_sealed d0)
              && (d_len d0 <=? c_default_high_water)
           then d_len d0 + N.of_nat (length buf) <=? d_len d1 else true)
          && taken_ok l'
      | _ => taken_ok l'
      end
  | _ :: l' => taken_ok l'
  | [] => true
  end.

Definition oracle_ok (c : case) : bool :=
  let '(_, _, ops, obs, _) := c in
  oracle_core c && taken_ok (zip3 ops obs).
Definition bad_oracle (cs : list case) : list N := bad_idx oracle_ok 0 cs.
