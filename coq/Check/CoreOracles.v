(* helpers shared by the per-property oracles over core-driver cases *)
From Amq Require Export Check.Core.

Definition all_ok (obs : list (cobs * digest)) : bool :=
  forallb (fun '(b, _) => match b with BOutcome OOk _ _ => true | BOutcome _ _ _ => false | _ => true end) obs.

Definition zip3 (ops : list cop) (obs : list (cobs * digest)) : list (cop * cobs * digest) :=
  map (fun '(o, (b, d)) => (o, b, d)) (combine ops obs).

Definition d_phase (d : digest) : N := let '(p, _, _, _, _) := d in p.
Definition d_len (d : digest) : N := let '(_, l, _, _, _) := d in l.
Definition d_sealed (d : digest) : bool := let '(_, _, _, z, _) := d in z.

Definition qitem_list_eqb := list_eqb qitem_eqb.

(* the last receive observation on queue q *)
Definition last_recv (q : N) (ops : list cop) (obs : list (cobs * digest)) : option recv_res :=
  fold_left (fun acc '(o, b, _) =>
               match o, b with
               | OClRecv q', BRecv r => if q' =? q then Some r else acc
               | _, _ => acc
               end) (zip3 ops obs) None.

Definition is_disc (r : option recv_res) : bool :=
  match r with Some RDisc => true | _ => false end.

Definition last_item (q : N) (rc : list (N * qitem)) : option qitem :=
  match rev (items_from q rc) with it :: _ => Some it | [] => None end.

Definition oitem_eqb (a : option qitem) (b : qitem) : bool :=
  match a with Some x => qitem_eqb x b | None => false end.

(* cumulative bytes written + bytes still buffered, after each op *)
Fixpoint totals (written : N) (obs : list (cobs * digest)) : list N :=
  match obs with
  | [] => []
  | (b, (_, l, _, _, _)) :: obs' =>
      let w := match b with BOutcome _ wl _ => written + wl | _ => written end in
      (w + l) :: totals w obs'
  end.

Fixpoint is_suffix (s l : bytes) : bool :=
  bytes_eqb s l || match l with [] => false | _ :: t => is_suffix s t end.

(* reply-class frames of a channel, as the items its reply queue must carry *)
Definition reply_item_of_frame (ch : N) (f : frame) : list qitem :=
  match f with
  | FMethod c m =>
      if c =? ch then
        match m with
        | MGeneric _ _ _ _ | MCancelOk _ => [IReplyMethod m]
        | MConsumeOk tag => [IReplyConsumeOk tag 0]
        | MGetEmpty => [IReplyGet None]
        | _ => []
        end
      else []
  | _ => []
  end.

(* the same class of items as received (consumer queue ids normalised away) *)
Definition reply_item_norm (it : qitem) : list qitem :=
  match it with
  | IReplyMethod (MGeneric _ _ _ _) | IReplyMethod (MCancelOk _) | IReplyGet None => [it]
  | IReplyConsumeOk tag _ => [IReplyConsumeOk tag 0]
  | _ => []
  end.

Definition frames_with_idx (ops : list cop) : list (N * frame) :=
  snd (fold_left (fun '(i, acc) o => (i + 1, acc ++ map (fun f => (i, f)) (frames_of_op o))) ops (0, [])).

(* Once the client has raised a protocol exception (its Connection.Close is queued, the phase is
   ClientException) whatever else the server sends is ignored until the Close has gone out: a
   frame processed in that phase - or behind the offending frame in the same read - is not an
   error, and a read episode that ends with "would block" reports none (C07, C05: the root
   cause stays ClientException) *)
Definition stream_has_werr (w : option (list wr)) : bool :=
  match w with Some l => existsb (fun x => match x with WErr => true | _ => false end) l | None => false end.
Fixpoint exception_quiet (prev : N) (l : list (cop * cobs * digest)) : bool :=
  match l with
  | [] => true
  | (o, b, d) :: l' =>
      (if (prev =? 2) || ((prev =? 0) && (d_phase d =? 2)) then
         match o, b with
         | OFrame _, BOutcome out _ _ => outcome_eqb out OOk
         | OEvent (EvStream w (Some (_, TBlock))), BOutcome out _ _ => stream_has_werr w || outcome_eqb out OOk
         | _, _ => true
         end
       else true) && exception_quiet (d_phase d) l'
  end.
