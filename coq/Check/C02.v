(* Correspondence + oracle for C02.
   case = (negotiated frame_max, publishes on one channel in order, frames the broker saw on
   that channel after Channel.Open, in order) *)
From Amq Require Export Lib.Base Gen.Consts Model.Publish.

Definition adler (bs : bytes) : N :=
  let '(a, b) := fold_left (fun '(a, b) x => let a' := (a + x) mod 65521 in (a', (b + a') mod 65521))
                           bs (1, 0) in b * 65536 + a.

(* bodies are not printed: both sides generate them from (a, b, len) *)
Fixpoint gen_body_from (i : N) (n : nat) (a b : N) : bytes :=
  match n with
  | O => []
  | S n' => ((a + i * b) mod 251) :: gen_body_from (i + 1) n' a b
  end.
Definition gen_body (a b len : N) : bytes := gen_body_from 0 (N.to_nat len) a b.

Definition pubspec := (bytes * bytes * bool * bool * N * (N * N * N))%type.

Inductive oframe :=
| OM (exchange rk : bytes) (mandatory immediate : bool) (ticket : N)
| OH (class_id size props : N)
| OB (len adl : N)
| OOther.

Definition case := (N * list pubspec * list oframe)%type.

Definition mkpub (s : pubspec) : publish :=
  let '(e, rk, m, i, p, (a, b, len)) := s in
  {| p_exchange := e; p_rk := rk; p_mandatory := m; p_immediate := i; p_props := p;
     p_body := gen_body a b len |}.

Definition oframe_of (f : pframe) : oframe :=
  match f with
  | PMethod e rk m i => OM e rk m i 0
  | PHeader c s p => OH c s p
  | PBody b => OB (N.of_nat (length b)) (adler b)
  end.

Definition model_out (c : case) : list oframe :=
  let '(fm, ps, _) := c in flat_map (fun s => map oframe_of (publish_frames fm (mkpub s))) ps.

Definition oframe_eqb (x y : oframe) : bool :=
  match x, y with
  | OM e1 r1 m1 i1 t1, OM e2 r2 m2 i2 t2 =>
      bytes_eqb e1 e2 && bytes_eqb r1 r2 && Bool.eqb m1 m2 && Bool.eqb i1 i2 && (t1 =? t2)
  | OH c1 s1 p1, OH c2 s2 p2 => (c1 =? c2) && (s1 =? s2) && (p1 =? p2)
  | OB l1 a1, OB l2 a2 => (l1 =? l2) && (a1 =? a2)
  | OOther, OOther => true
  | _, _ => false
  end.

Definition model_agrees (c : case) : bool :=
  let '(_, _, obs) := c in list_eqb oframe_eqb (model_out c) obs.

(* ---- oracle, independent of the splitter model: the property text itself ---- *)

(* take the body frames at the head of obs, checking each against the body bytes at the
   position reached: non-empty, within frame_max including 8 bytes of framing, and its
   checksum is that of exactly the next `len` body bytes *)
Fixpoint take_bodies (fuel : nat) (fm : N) (rest : bytes) (obs : list oframe) : option (list oframe) :=
  match fuel with
  | O => None
  | S f =>
      match obs with
      | OB len adl :: obs' =>
          let piece := firstn (N.to_nat len) rest in
          if (0 <? len) && ((fm =? 0) || (len + 8 <=? fm)) && (len <=? N.of_nat (length rest)) &&
             (adler piece =? adl)
          then take_bodies f fm (skipn (N.to_nat len) rest) obs'
          else None
      | _ => match rest with [] => Some obs | _ => None end
      end
  end.

Fixpoint oracle_run (fm : N) (ps : list pubspec) (obs : list oframe) : bool :=
  match ps with
  | [] => match obs with [] => true | _ => false end
  | s :: ps' =>
      let p := mkpub s in
      match obs with
      | OM e rk m i t :: OH c size props :: obs' =>
          bytes_eqb e (p_exchange p) && bytes_eqb rk (p_rk p) && Bool.eqb m (p_mandatory p) &&
          Bool.eqb i (p_immediate p) && (c =? 60) &&
          (size =? N.of_nat (length (p_body p))) && (props =? p_props p) &&
          match take_bodies (S (length obs')) fm (p_body p) obs' with
          | Some obs'' => oracle_run fm ps' obs''
          | None => false
          end
      | _ => false
      end
  end.

Definition oracle_ok (c : case) : bool := let '(fm, ps, obs) := c in oracle_run fm ps obs.

Fixpoint bad_idx {A} (f : A -> bool) (i : N) (l : list A) : list N :=
  match l with
  | [] => []
  | x :: l' => if f x then bad_idx f (i + 1) l' else i :: bad_idx f (i + 1) l'
  end.
Definition bad_model (cs : list case) : list N := bad_idx model_agrees 0 cs.
Definition bad_oracle (cs : list case) : list N := bad_idx oracle_ok 0 cs.
