(* The universal value type of the functions translated by tools/rs2sm.py (enum-and-match code),
   with the handful of primitives the translation uses.  What each Rust form means in terms of
   these is stated in tools/rs2sm.py.  No proofs. *)
From Coq Require Export String.
From Coq Require Export List.
From Amq Require Import Lib.Base.

Inductive val :=
| VN (n : N)                              (* unsigned integers *)
| VBytes (l : list N)                     (* Vec<u8> *)
| VO (id : N)                             (* data the function only passes on (method arguments, properties) *)
| VC (c : string) (args : list val)       (* an enum value, a tuple ("tuple"), unit ("()"), an uninterpreted constructor *)
| VR (fields : list (string * val))       (* a struct, read and updated by field *)
| VStuck.                                 (* ill-typed use: never reached from well-typed arguments *)

Fixpoint lookup_field (f : string) (fs : list (string * val)) : val :=
  match fs with
  | [] => VStuck
  | (g, v) :: fs' => if (f =? g)%string then v else lookup_field f fs'
  end.

Fixpoint update_field (f : string) (x : val) (fs : list (string * val)) : list (string * val) :=
  match fs with
  | [] => []
  | (g, v) :: fs' => if (f =? g)%string then (g, x) :: fs' else (g, v) :: update_field f x fs'
  end.

Definition v_field (f : string) (v : val) : val :=
  match v with VR fs => lookup_field f fs | _ => VStuck end.
Definition v_set (f : string) (x : val) (v : val) : val :=
  match v with VR fs => VR (update_field f x fs) | _ => VStuck end.
Definition v_len (v : val) : val :=
  match v with VBytes l => VN (N.of_nat (length l)) | _ => VStuck end.
Definition v_append (a b : val) : val :=
  match a, b with VBytes x, VBytes y => VBytes (x ++ y) | _, _ => VStuck end.
Definition v_min (a b : val) : val :=
  match a, b with VN x, VN y => VN (N.min x y) | _, _ => VStuck end.
Definition v_eqb (a b : val) : bool :=
  match a, b with VN x, VN y => (x =? y)%N | _, _ => false end.
(* Ord::cmp on unsigned integers *)
Definition v_cmp (a b : val) : val :=
  match a, b with
  | VN x, VN y => match (x ?= y)%N with
                  | Lt => VC "Ordering::Less" []
                  | Eq => VC "Ordering::Equal" []
                  | Gt => VC "Ordering::Greater" []
                  end
  | _, _ => VStuck
  end.

(* an effect call obj.m(args): appended to the object's log *)
Definition v_log (m : string) (args : list val) (obj : val) : val :=
  match obj with
  | VC c l => if (c =? "effects")%string then VC "effects" (l ++ [VC m args]) else VStuck
  | _ => VStuck
  end.

(* slices of a byte vector, comparisons on integers, emptiness *)
Definition v_take (n v : val) : val :=
  match n, v with VN k, VBytes l => VBytes (firstn (N.to_nat k) l) | _, _ => VStuck end.
Definition v_drop (n v : val) : val :=
  match n, v with VN k, VBytes l => VBytes (skipn (N.to_nat k) l) | _, _ => VStuck end.
Definition v_ltb (a b : val) : bool :=
  match a, b with VN x, VN y => (x <? y)%N | _, _ => false end.
Definition v_is_empty (v : val) : bool :=
  match v with VBytes [] => true | _ => false end.

(* integer addition (only through `+=` on a counter), truth of a bool value *)
Definition v_add (a b : val) : val :=
  match a, b with VN x, VN y => VN (x + y) | _, _ => VStuck end.
Definition v_is_true (v : val) : bool :=
  match v with VC c [] => (c =? "true")%string | _ => false end.

(* `x as u16`, Option::context(XSnafu) *)
Definition v_u16 (v : val) : val :=
  match v with VN x => VN (x mod 65536) | _ => VStuck end.
Definition v_context (err : string) (v : val) : val :=
  match v with
  | VC c [x] => if (c =? "Some")%string then VC "Ok" [x]
                else if (c =? "Ok")%string then VC "Ok" [x]
                else if (c =? "Err")%string then VC "Err" [VC err [x]]
                else VStuck
  | VC c [] => if (c =? "None")%string then VC "Err" [VC err []] else VStuck
  | _ => VStuck
  end.
Definition v_max (a b : val) : val :=
  match a, b with VN x, VN y => VN (N.max x y) | _, _ => VStuck end.
(* unsigned subtraction where it does not underflow (Rust panics where it would) *)
Definition v_sub (a b : val) : val :=
  match a, b with VN x, VN y => VN (x - y) | _, _ => VStuck end.
(* the items an iterator yields *)
Definition v_items (v : val) : list val := match v with VC _ l => l | _ => [] end.
