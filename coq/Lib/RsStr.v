(* More primitives of the translated code (tools/rs2sm.py), kept apart from Lib/RsVal.v:
   structural equality of values (strings and Options of strings are compared with `==` in the
   URL code), Option::unwrap_or.  No proofs. *)
From Amq Require Import Lib.Base Lib.RsVal.

Fixpoint v_beq (a b : val) : bool :=
  match a, b with
  | VN x, VN y => (x =? y)%N
  | VBytes x, VBytes y => list_eqb N.eqb x y
  | VO x, VO y => (x =? y)%N
  | VC c xs, VC d ys =>
      (c =? d)%string &&
      (fix all2 (l1 l2 : list val) : bool :=
         match l1, l2 with
         | [], [] => true
         | x :: l1', y :: l2' => v_beq x y && all2 l1' l2'
         | _, _ => false
         end) xs ys
  | _, _ => false
  end.

Definition v_unwrap_or (o d : val) : val :=
  match o with
  | VC c [x] => if (c =? "Some")%string then x else VStuck
  | VC c [] => if (c =? "None")%string then d else VStuck
  | _ => VStuck
  end.

(* Option::unwrap / is_some, Iterator::next on a list of items *)
Definition v_unwrap (o : val) : val :=
  match o with VC c [x] => if (c =? "Some")%string then x else VC "Panic" [] | _ => VC "Panic" [] end.
Definition v_is_some (o : val) : bool :=
  match o with VC c [_] => (c =? "Some")%string | _ => false end.
Definition v_next (it : val) : val :=
  match it with VC _ (x :: _) => VC "Some" [x] | _ => VC "None" [] end.
Definition v_rest (it : val) : val :=
  match it with VC c (_ :: l) => VC c l | _ => it end.

(* Duration * integer *)
Definition v_mul (a b : val) : val :=
  match a, b with VN x, VN y => VN (x * y) | _, _ => VStuck end.
