(* What a function translated by tools/rs2v.py returns: a constructor name with its (field,
   value) list - an Ok value / struct, or an error.  Shared by the generated files coq/Gen/Src*.v. *)
From Coq Require Export String.
(* the list functions keep their names (String has a length and an append of its own) *)
From Coq Require Export List.
From Amq Require Import Lib.Base.

Inductive rs_result :=
| RsOk (name : string) (fields : list (string * N))
| RsErr (name : string) (fields : list (string * N)).
