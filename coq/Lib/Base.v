(* Common imports, settings and small list / association-list lemmas.
   Stdlib only.  No axioms. *)
From Coq Require Export List Bool Arith NArith ZArith Lia.
From Coq Require Export ZifyBool ZifyNat ZifyN.
Export ListNotations.

#[global] Set Implicit Arguments.
#[global] Unset Strict Implicit.

Ltac Zify.zify_post_hook ::= Z.div_mod_to_equations.

#[global] Arguments N.add : simpl never.
#[global] Arguments N.sub : simpl never.
#[global] Arguments N.mul : simpl never.
#[global] Arguments N.eqb : simpl never.
#[global] Arguments N.ltb : simpl never.
#[global] Arguments N.leb : simpl never.
#[global] Arguments N.div : simpl never.
#[global] Arguments N.modulo : simpl never.
#[global] Arguments N.min : simpl never.
#[global] Arguments N.max : simpl never.
#[global] Arguments N.pow : simpl never.

Open Scope N_scope.

(* Bytes are N (values < 256 where it matters); byte strings are lists. *)
Definition byte := N.
Definition bytes := list N.

(* ---------- generic list facts ---------- *)

Lemma firstn_app_exact {A} (l1 l2 : list A) : firstn (length l1) (l1 ++ l2) = l1.
Proof. induction l1; simpl; congruence. Qed.

Lemma skipn_app_exact {A} (l1 l2 : list A) : skipn (length l1) (l1 ++ l2) = l2.
Proof. induction l1; simpl; congruence. Qed.

Lemma fold_left_app_step {A B} (f : A -> B -> A) l x a :
  fold_left f (l ++ [x]) a = f (fold_left f l a) x.
Proof. rewrite fold_left_app; reflexivity. Qed.

(* list equality decision for N lists, executable *)
Fixpoint list_eqb {A} (eqb : A -> A -> bool) (l1 l2 : list A) : bool :=
  match l1, l2 with
  | [], [] => true
  | x :: l1, y :: l2 => eqb x y && list_eqb eqb l1 l2
  | _, _ => false
  end.

Lemma list_eqb_spec {A} (eqb : A -> A -> bool)
      (H : forall x y, eqb x y = true <-> x = y) l1 l2 :
  list_eqb eqb l1 l2 = true <-> l1 = l2.
Proof.
  revert l2; induction l1 as [|x l1 IH]; intros [|y l2]; simpl; split; intro E;
    try reflexivity; try discriminate.
  - apply andb_true_iff in E as [E1 E2]. apply H in E1. apply IH in E2. congruence.
  - inversion E; subst. apply andb_true_iff; split; [apply H | apply IH]; reflexivity.
Qed.

Definition bytes_eqb := list_eqb N.eqb.

Lemma bytes_eqb_spec l1 l2 : bytes_eqb l1 l2 = true <-> l1 = l2.
Proof. apply list_eqb_spec. intros; apply N.eqb_eq. Qed.

Definition option_eqb {A} (eqb : A -> A -> bool) (a b : option A) : bool :=
  match a, b with
  | None, None => true
  | Some x, Some y => eqb x y
  | _, _ => false
  end.

(* ---------- association lists keyed by N (model of HashMap<uN, V>) ---------- *)

Section AList.
  Variable V : Type.
  Definition alist := list (N * V).

  Fixpoint alookup (k : N) (m : alist) : option V :=
    match m with
    | [] => None
    | (k', v) :: m => if k =? k' then Some v else alookup k m
    end.

  Fixpoint aremove (k : N) (m : alist) : alist :=
    match m with
    | [] => []
    | (k', v) :: m => if k =? k' then aremove k m else (k', v) :: aremove k m
    end.

  Definition ainsert (k : N) (v : V) (m : alist) : alist := (k, v) :: aremove k m.

  Definition amem (k : N) (m : alist) : bool :=
    match alookup k m with Some _ => true | None => false end.

  Lemma alookup_remove_eq k m : alookup k (aremove k m) = None.
  Proof.
    induction m as [|[k' v] m IH]; simpl; [reflexivity|].
    destruct (k =? k') eqn:E; [exact IH|]. simpl. rewrite E. exact IH.
  Qed.

  Lemma alookup_remove_neq k k' m : k <> k' -> alookup k (aremove k' m) = alookup k m.
  Proof.
    intro Hne. induction m as [|[k2 v] m IH]; simpl; [reflexivity|].
    destruct (k' =? k2) eqn:E.
    - apply N.eqb_eq in E; subst k2.
      destruct (k =? k') eqn:E2; [apply N.eqb_eq in E2; contradiction|exact IH].
    - simpl. destruct (k =? k2); [reflexivity|exact IH].
  Qed.

  Lemma alookup_insert_eq k v m : alookup k (ainsert k v m) = Some v.
  Proof. unfold ainsert; simpl. rewrite N.eqb_refl. reflexivity. Qed.

  Lemma alookup_insert_neq k k' v m : k <> k' -> alookup k (ainsert k' v m) = alookup k m.
  Proof.
    intro Hne. unfold ainsert; simpl.
    destruct (k =? k') eqn:E; [apply N.eqb_eq in E; contradiction|].
    apply alookup_remove_neq; assumption.
  Qed.

  Lemma aremove_length k m : (length (aremove k m) <= length m)%nat.
  Proof.
    induction m as [|[k' v] m IH]; simpl; [lia|]. destruct (k =? k'); simpl; lia.
  Qed.

  Lemma aremove_length_lt k m v :
    alookup k m = Some v -> (length (aremove k m) < length m)%nat.
  Proof.
    induction m as [|[k' v'] m IH]; simpl; [discriminate|].
    destruct (k =? k') eqn:E; intro H.
    - pose proof (aremove_length k m). lia.
    - simpl. specialize (IH H). lia.
  Qed.

  Lemma aremove_none k m : alookup k m = None -> aremove k m = m.
  Proof.
    induction m as [|[k' v'] m IH]; simpl; [reflexivity|].
    destruct (k =? k'); [discriminate|]. intro H. rewrite IH; auto.
  Qed.
End AList.

Arguments alookup {V}.
Arguments aremove {V}.
Arguments ainsert {V} k v m : simpl never.
Arguments amem {V}.
