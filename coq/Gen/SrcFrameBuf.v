(* GENERATED on every run by tools/rs2sm.py from /repo/src/frame_buffer.rs - do not edit.
   The subset of Rust it accepts and the meaning it gives to it are stated in that file. *)
From Coq Require Import String.
From Amq Require Import Lib.Base Lib.RsVal.
Open Scope string_scope.
Open Scope N_scope.

Section Gen.
(* T::new of the generic functions: which value it builds depends on the type parameter, that is,
   on the kind of its `start` argument; the theorems about these definitions quantify over it *)
Variable t_new : list val -> val.
(* the functions these call that are not translated here (by name, receiver first): the theorems
   state what they assume of them *)
Variable ext : string -> list val -> val.
(* operations on the channel ends a handle holds (self.tx.send(m), self.rx.recv()): given the name,
   the arguments and self, the result and self afterwards *)
Variable ext_st : string -> list val -> val -> val * val.


(* ---- /repo/src/frame_buffer.rs :: Inner.read_from ---- *)
Fixpoint gen_Inner_read_from_loop1 (fuel : nat) (self_l : val) (bytes_read_l : val) (handler_l : val) (stream_l : val) {struct fuel} : val * val :=
match fuel with
| O => (self_l, VStuck)
| S fuel_ =>
(if true then
let '(self_2, v_3) := ext_st "buf.chunk" [] self_l in
let v_4 := v_3 in
let v_5 := (ext "Kind::parse_size" [v_4]) in
let v_6 := (ext "MIN_READ" []) in
let v_7 := v_5 in
let rest_8 := fun _ : unit =>
(let '(self_9, v_10) := ext_st "buf.prepare_reserve.read_from" [v_6; stream_l] self_2 in
let scrut_11 := v_10 in
(let next_12 := fun _ : unit =>
(let next_13 := fun _ : unit =>
(let next_14 := fun _ : unit =>
(self_9, VStuck) in
match scrut_11 with
| VC c_ args_ =>
  if (c_ =? "Err")%string then
    match args_ with
    | [a_15] => (let scrut_16 := (ext "kind" [a_15]) in
(let next_17 := fun _ : unit =>
(let next_18 := fun _ : unit =>
(self_9, VStuck) in
(self_9, (v_context "Error::IoErrorReadingSocket" (VC "Err" [a_15])))) in
match scrut_16 with
| VC c_ args_ =>
  if (c_ =? "io::ErrorKind::WouldBlock")%string then
    match args_ with
    | [] => (self_9, (VC "Ok" [bytes_read_l]))
    | _ => next_17 tt
    end
  else next_17 tt
| _ => next_17 tt
end))
    | _ => next_14 tt
    end
  else next_14 tt
| _ => next_14 tt
end) in
match scrut_11 with
| VC c_ args_ =>
  if (c_ =? "Ok")%string then
    match args_ with
    | [a_19] => let bytes_read_20 := (v_add bytes_read_l a_19) in
(gen_Inner_read_from_loop1 fuel_ self_9 bytes_read_20 handler_l stream_l)
    | _ => next_13 tt
    end
  else next_13 tt
| _ => next_13 tt
end) in
match scrut_11 with
| VC c_ args_ =>
  if (c_ =? "Ok")%string then
    match args_ with
    | [a_21] => (if v_eqb a_21 (VN 0) then (self_9, (VC "Err" [VC "Error::UnexpectedSocketClose" []])) else next_12 tt)
    | _ => next_12 tt
    end
  else next_12 tt
| _ => next_12 tt
end)) in
match v_7 with
| VC c_ args_ =>
  if (c_ =? "Some")%string then
    match args_ with
    | [a_22] => (if (negb (v_ltb (v_len v_4) a_22)) then
let '(self_23, v_24) := ext_st "Kind::parse_frame" [(v_take a_22 v_4)] self_2 in
let tried_25 := v_24 in
let after_28 := fun okval_26 : val =>
let v_29 := okval_26 in
let '(self_30, v_31) := ext_st "handler" [v_29] self_23 in
let tried_32 := v_31 in
let after_35 := fun okval_33 : val =>
let '(self_36, v_37) := ext_st "buf.advance" [a_22] self_30 in
(gen_Inner_read_from_loop1 fuel_ self_36 bytes_read_l handler_l stream_l) in
match tried_32 with
| VC "Err" [err_34] => (self_30, (VC "Err" [err_34]))
| VC "Ok" [okval_33] => after_35 okval_33
| VC "None" [] => (self_30, (VC "None" []))
| VC "Some" [okval_33] => after_35 okval_33
| _ => (self_30, VStuck)
end in
match tried_25 with
| VC "Err" [err_27] => (self_23, (VC "Err" [err_27]))
| VC "Ok" [okval_26] => after_28 okval_26
| VC "None" [] => (self_23, (VC "None" []))
| VC "Some" [okval_26] => after_28 okval_26
| _ => (self_23, VStuck)
end
else
let reserve_38 := (v_max (ext "MIN_READ" []) a_22) in
(let '(self_39, v_40) := ext_st "buf.prepare_reserve.read_from" [reserve_38; stream_l] self_2 in
let scrut_41 := v_40 in
(let next_42 := fun _ : unit =>
(let next_43 := fun _ : unit =>
(let next_44 := fun _ : unit =>
(self_39, VStuck) in
match scrut_41 with
| VC c_ args_ =>
  if (c_ =? "Err")%string then
    match args_ with
    | [a_45] => (let scrut_46 := (ext "kind" [a_45]) in
(let next_47 := fun _ : unit =>
(let next_48 := fun _ : unit =>
(self_39, VStuck) in
(self_39, (v_context "Error::IoErrorReadingSocket" (VC "Err" [a_45])))) in
match scrut_46 with
| VC c_ args_ =>
  if (c_ =? "io::ErrorKind::WouldBlock")%string then
    match args_ with
    | [] => (self_39, (VC "Ok" [bytes_read_l]))
    | _ => next_47 tt
    end
  else next_47 tt
| _ => next_47 tt
end))
    | _ => next_44 tt
    end
  else next_44 tt
| _ => next_44 tt
end) in
match scrut_41 with
| VC c_ args_ =>
  if (c_ =? "Ok")%string then
    match args_ with
    | [a_49] => let bytes_read_50 := (v_add bytes_read_l a_49) in
(gen_Inner_read_from_loop1 fuel_ self_39 bytes_read_50 handler_l stream_l)
    | _ => next_43 tt
    end
  else next_43 tt
| _ => next_43 tt
end) in
match scrut_41 with
| VC c_ args_ =>
  if (c_ =? "Ok")%string then
    match args_ with
    | [a_51] => (if v_eqb a_51 (VN 0) then (self_39, (VC "Err" [VC "Error::UnexpectedSocketClose" []])) else next_42 tt)
    | _ => next_42 tt
    end
  else next_42 tt
| _ => next_42 tt
end)))
    | _ => rest_8 tt
    end
  else rest_8 tt
| _ => rest_8 tt
end
else
(self_l, (VC "()" [])))
end.

Definition gen_Inner_read_from (fuel : nat) (self : val) (stream : val) (handler : val) : val * val :=
let v_1 := (VN 0) in
(gen_Inner_read_from_loop1 fuel self v_1 handler stream).

End Gen.
