(* GENERATED on every run by tools/rs2sm.py from /repo/src/io_loop/heartbeat_timers.rs - do not edit.
   The subset of Rust it accepts and the meaning it gives to it are stated in that file. *)
From Coq Require Import String.
From Amq Require Import Lib.Base Lib.RsVal Lib.RsStr.
Open Scope string_scope.
Open Scope N_scope.

Section Gen.
(* T::new of the generic functions: which value it builds depends on the type parameter, that is,
   on the kind of its `start` argument; the theorems about these definitions quantify over it *)
Variable t_new : list val -> val.
(* the functions these call that are not translated here (by name, receiver first): the theorems
   state what they assume of them *)
Variable ext : string -> list val -> val.
(* operations on the channel ends a handle holds (self.tx.send(m), self.rx.recv()): given the name,
   the arguments and self, the result and self afterwards *)
Variable ext_st : string -> list val -> val -> val * val.


(* ---- /repo/src/io_loop/heartbeat_timers.rs :: RxTxHeartbeat.new ---- *)
Definition gen_RxTxHeartbeat_new (timer : val) (interval : val) : val :=
let v_1 := (ext "Heartbeat::start" [(VC "HeartbeatKind::Rx" []); (v_mul (VN 2) interval); timer]) in
let v_2 := (ext "Heartbeat::start" [(VC "HeartbeatKind::Tx" []); interval; timer]) in
(VR [("rx", v_1); ("tx", v_2)]).

End Gen.
