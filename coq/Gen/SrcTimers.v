(* GENERATED on every run by tools/rs2sm.py from /repo/src/io_loop/heartbeat_timers.rs - do not edit.
   The subset of Rust it accepts and the meaning it gives to it are stated in that file. *)
From Coq Require Import String.
From Amq Require Import Lib.Base Lib.RsVal Lib.RsStr.
Open Scope string_scope.
Open Scope N_scope.

Section Gen.
(* T::new of the generic functions: which value it builds depends on the type parameter, that is,
   on the kind of its `start` argument; the theorems about these definitions quantify over it *)
Variable t_new : list val -> val.
(* the functions these call that are not translated here (by name, receiver first): the theorems
   state what they assume of them *)
Variable ext : string -> list val -> val.
(* operations on the channel ends a handle holds (self.tx.send(m), self.rx.recv()): given the name,
   the arguments and self, the result and self afterwards *)
Variable ext_st : string -> list val -> val -> val * val.


(* ---- /repo/src/io_loop/heartbeat_timers.rs :: RxTxHeartbeat.new ---- *)
Definition gen_RxTxHeartbeat_new (timer : val) (interval : val) : val :=
let v_1 := (ext "Heartbeat::start" [(VC "HeartbeatKind::Rx" []); (v_mul (VN 2) interval); timer]) in
let v_2 := (ext "Heartbeat::start" [(VC "HeartbeatKind::Tx" []); interval; timer]) in
(VR [("rx", v_1); ("tx", v_2)]).

(* ---- /repo/src/io_loop/heartbeat_timers.rs :: HeartbeatTimers.start ---- *)
Definition gen_HeartbeatTimers_start (self : val) (interval : val) : val * val :=
let self_1 := (v_set "heartbeats" (VC "Some" [(ext "RxTxHeartbeat::new" [(v_field "timer" self); interval])]) self) in
(self_1, (VC "()" [])).

(* ---- /repo/src/io_loop/heartbeat_timers.rs :: HeartbeatTimers.fire_rx ---- *)
Definition gen_HeartbeatTimers_fire_rx (self : val) : val * val :=
(self, (ext "fire" [(v_field "rx" (ext "expect" [(ext "as_mut" [(v_field "heartbeats" self)]); (VBytes [102; 105; 114; 101; 95; 114; 120; 32; 99; 97; 108; 108; 101; 100; 32; 111; 110; 32; 101; 109; 112; 116; 121; 32; 104; 101; 97; 114; 116; 98; 101; 97; 116; 115])])); (v_field "timer" self)])).

(* ---- /repo/src/io_loop/heartbeat_timers.rs :: HeartbeatTimers.fire_tx ---- *)
Definition gen_HeartbeatTimers_fire_tx (self : val) : val * val :=
(self, (ext "fire" [(v_field "tx" (ext "expect" [(ext "as_mut" [(v_field "heartbeats" self)]); (VBytes [102; 105; 114; 101; 95; 116; 120; 32; 99; 97; 108; 108; 101; 100; 32; 111; 110; 32; 101; 109; 112; 116; 121; 32; 104; 101; 97; 114; 116; 98; 101; 97; 116; 115])])); (v_field "timer" self)])).

End Gen.
