(* GENERATED on every run by tools/rs2sm.py from /repo/src/io_loop/handshake_state.rs - do not edit.
   The subset of Rust it accepts and the meaning it gives to it are stated in that file. *)
From Coq Require Import String.
From Amq Require Import Lib.Base Lib.RsVal.
Open Scope string_scope.
Open Scope N_scope.

Section Gen.
(* T::new of the generic functions: which value it builds depends on the type parameter, that is,
   on the kind of its `start` argument; the theorems about these definitions quantify over it *)
Variable t_new : list val -> val.
(* the functions these call that are not translated here (by name, receiver first): the theorems
   state what they assume of them *)
Variable ext : string -> list val -> val.
(* operations on the channel ends a handle holds (self.tx.send(m), self.rx.recv()): given the name,
   the arguments and self, the result and self afterwards *)
Variable ext_st : string -> list val -> val -> val * val.


(* ---- /repo/src/io_loop/handshake_state.rs :: HandshakeState.process ---- *)
Fixpoint gen_HandshakeState_process (fuel : nat) (self : val) (inner : val) (frame : val) {struct fuel} : val * val * val :=
match fuel with
| O => (self, inner, VStuck)
| S fuel_ =>
let v_1 := frame in
let rest_2 := fun _ : unit =>
(let scrut_3 := self in
(let next_4 := fun _ : unit =>
(let next_5 := fun _ : unit =>
(let next_6 := fun _ : unit =>
(let next_7 := fun _ : unit =>
(let next_8 := fun _ : unit =>
(self, inner, VStuck) in
(let body_9 := fun _ : unit =>
(self, inner, (VC "Err" [VC "Error::FrameUnexpected" []])) in
match scrut_3 with
| VC c_ args_ =>
  if (c_ =? "HandshakeState::ServerClosing")%string then
    match args_ with
    | [a_12] => body_9 tt
    | _ => match scrut_3 with
| VC c_ args_ =>
  if (c_ =? "HandshakeState::Done")%string then
    match args_ with
    | [a_10; a_11] => body_9 tt
    | _ => next_8 tt
    end
  else next_8 tt
| _ => next_8 tt
end
    end
  else match scrut_3 with
| VC c_ args_ =>
  if (c_ =? "HandshakeState::Done")%string then
    match args_ with
    | [a_10; a_11] => body_9 tt
    | _ => next_8 tt
    end
  else next_8 tt
| _ => next_8 tt
end
| _ => match scrut_3 with
| VC c_ args_ =>
  if (c_ =? "HandshakeState::Done")%string then
    match args_ with
    | [a_10; a_11] => body_9 tt
    | _ => next_8 tt
    end
  else next_8 tt
| _ => next_8 tt
end
end)) in
match scrut_3 with
| VC c_ args_ =>
  if (c_ =? "HandshakeState::Open")%string then
    match args_ with
    | [a_13; a_14] => let v_15 := (ext "Close::try_from" [(VN 0); frame]) in
let rest_16 := fun _ : unit =>
let tried_17 := (ext "OpenOk::try_from" [(VN 0); frame]) in
let after_20 := fun okval_18 : val =>
let v_21 := okval_18 in
let self_22 := (VC "HandshakeState::Done" [a_13; a_14]) in
(self_22, inner, (VC "Ok" [(VC "()" [])])) in
match tried_17 with
| VC "Err" [err_19] => (self, inner, (VC "Err" [err_19]))
| VC "Ok" [okval_18] => after_20 okval_18
| VC "None" [] => (self, inner, (VC "None" []))
| VC "Some" [okval_18] => after_20 okval_18
| _ => (self, inner, VStuck)
end in
match v_15 with
| VC c_ args_ =>
  if (c_ =? "Ok")%string then
    match args_ with
    | [a_23] => let inner_24 := v_log "push_method" [(VN 0); (VC "AmqpConnection::CloseOk" [(VC "CloseOk" [])])] inner in
let inner_25 := v_log "seal_writes" [] inner_24 in
let self_26 := (VC "HandshakeState::ServerClosing" [a_23]) in
(self_26, inner_25, (VC "Ok" [(VC "()" [])]))
    | _ => rest_16 tt
    end
  else rest_16 tt
| _ => rest_16 tt
end
    | _ => next_7 tt
    end
  else next_7 tt
| _ => next_7 tt
end) in
match scrut_3 with
| VC c_ args_ =>
  if (c_ =? "HandshakeState::Tune")%string then
    match args_ with
    | [a_27; a_28] => let tried_29 := (ext "Tune::try_from" [(VN 0); frame]) in
let after_32 := fun okval_30 : val =>
let v_33 := okval_30 in
let tried_34 := (ext "make_tune_ok" [a_27; v_33]) in
let after_37 := fun okval_35 : val =>
let v_38 := okval_35 in
let inner_39 := v_log "start_heartbeats" [(v_field "heartbeat" v_38)] inner in
let inner_40 := v_log "push_method" [(VN 0); (VC "AmqpConnection::TuneOk" [v_38])] inner_39 in
let v_41 := (ext "make_open" [a_27]) in
let inner_42 := v_log "push_method" [(VN 0); (VC "AmqpConnection::Open" [v_41])] inner_40 in
let self_43 := (VC "HandshakeState::Open" [v_38; a_28]) in
(self_43, inner_42, (VC "Ok" [(VC "()" [])])) in
match tried_34 with
| VC "Err" [err_36] => (self, inner, (VC "Err" [err_36]))
| VC "Ok" [okval_35] => after_37 okval_35
| VC "None" [] => (self, inner, (VC "None" []))
| VC "Some" [okval_35] => after_37 okval_35
| _ => (self, inner, VStuck)
end in
match tried_29 with
| VC "Err" [err_31] => (self, inner, (VC "Err" [err_31]))
| VC "Ok" [okval_30] => after_32 okval_30
| VC "None" [] => (self, inner, (VC "None" []))
| VC "Some" [okval_30] => after_32 okval_30
| _ => (self, inner, VStuck)
end
    | _ => next_6 tt
    end
  else next_6 tt
| _ => next_6 tt
end) in
match scrut_3 with
| VC c_ args_ =>
  if (c_ =? "HandshakeState::Secure")%string then
    match args_ with
    | [a_44; a_45] => let v_46 := (ext "Secure::try_from" [(VN 0); frame]) in
let rest_47 := fun _ : unit =>
let self_48 := (VC "HandshakeState::Tune" [a_44; a_45]) in
(gen_HandshakeState_process fuel_ self_48 inner frame) in
match v_46 with
| VC c_ args_ =>
  if (c_ =? "Ok")%string then
    match args_ with
    | [a_49] => (self, inner, (VC "Err" [VC "Error::SaslSecureNotSupported" []]))
    | _ => rest_47 tt
    end
  else rest_47 tt
| _ => rest_47 tt
end
    | _ => next_5 tt
    end
  else next_5 tt
| _ => next_5 tt
end) in
match scrut_3 with
| VC c_ args_ =>
  if (c_ =? "HandshakeState::Start")%string then
    match args_ with
    | [a_50] => let tried_51 := (ext "Start::try_from" [(VN 0); frame]) in
let after_54 := fun okval_52 : val =>
let v_55 := okval_52 in
let tried_56 := (ext "make_start_ok" [a_50; v_55]) in
let after_59 := fun okval_57 : val =>
let v_60 := okval_57 in
match v_60 with
| VC c_ args_ =>
  if (c_ =? "tuple")%string then
    match args_ with
    | [a_61; a_62] => let inner_63 := v_log "push_method" [(VN 0); (VC "AmqpConnection::StartOk" [a_61])] inner in
let self_64 := (VC "HandshakeState::Secure" [a_50; a_62]) in
(self_64, inner_63, (VC "Ok" [(VC "()" [])]))
    | _ => (self, inner, VStuck)
    end
  else (self, inner, VStuck)
| _ => (self, inner, VStuck)
end in
match tried_56 with
| VC "Err" [err_58] => (self, inner, (VC "Err" [err_58]))
| VC "Ok" [okval_57] => after_59 okval_57
| VC "None" [] => (self, inner, (VC "None" []))
| VC "Some" [okval_57] => after_59 okval_57
| _ => (self, inner, VStuck)
end in
match tried_51 with
| VC "Err" [err_53] => (self, inner, (VC "Err" [err_53]))
| VC "Ok" [okval_52] => after_54 okval_52
| VC "None" [] => (self, inner, (VC "None" []))
| VC "Some" [okval_52] => after_54 okval_52
| _ => (self, inner, VStuck)
end
    | _ => next_4 tt
    end
  else next_4 tt
| _ => next_4 tt
end)) in
match v_1 with
| VC c_ args_ =>
  if (c_ =? "AMQPFrame::Heartbeat")%string then
    match args_ with
    | [a_65] => (if v_eqb a_65 (VN 0) then (self, inner, (VC "Ok" [(VC "()" [])])) else rest_2 tt)
    | _ => rest_2 tt
    end
  else rest_2 tt
| _ => rest_2 tt
end
end.

End Gen.
