(* GENERATED on every run by tools/rs2sm.py from /repo/src/io_loop/handshake_state.rs - do not edit.
   The subset of Rust it accepts and the meaning it gives to it are stated in that file. *)
From Coq Require Import String.
From Amq Require Import Lib.Base Lib.RsVal.
Open Scope string_scope.
Open Scope N_scope.

Section Gen.
(* T::new of the generic functions: which value it builds depends on the type parameter, that is,
   on the kind of its `start` argument; the theorems about these definitions quantify over it *)
Variable t_new : list val -> val.
(* the functions these call that are not translated here (by name, receiver first): the theorems
   state what they assume of them *)
Variable ext : string -> list val -> val.
(* operations on the channel ends a handle holds (self.tx.send(m), self.rx.recv()): given the name,
   the arguments and self, the result and self afterwards *)
Variable ext_st : string -> list val -> val -> val * val.


(* ---- /repo/src/io_loop/handshake_state.rs :: HandshakeState.process ---- *)
Fixpoint gen_HandshakeState_process (fuel : nat) (self : val) (inner : val) (frame : val) {struct fuel} : val * val * val :=
match fuel with
| O => (self, inner, VStuck)
| S fuel_ =>
let v_1 := frame in
let rest_2 := fun _ : unit =>
(let scrut_3 := self in
(let next_4 := fun _ : unit =>
(let next_5 := fun _ : unit =>
(let next_6 := fun _ : unit =>
(let next_7 := fun _ : unit =>
(let next_8 := fun _ : unit =>
(self, inner, VStuck) in
(let body_9 := fun _ : unit =>
(self, inner, (VC "Err" [VC "Error::FrameUnexpected" []])) in
match scrut_3 with
| VC c_ args_ =>
  if (c_ =? "HandshakeState::ServerClosing")%string then
    match args_ with
    | [a_12] => body_9 tt
    | _ => match scrut_3 with
| VC c_ args_ =>
  if (c_ =? "HandshakeState::Done")%string then
    match args_ with
    | [a_10; a_11] => body_9 tt
    | _ => next_8 tt
    end
  else next_8 tt
| _ => next_8 tt
end
    end
  else match scrut_3 with
| VC c_ args_ =>
  if (c_ =? "HandshakeState::Done")%string then
    match args_ with
    | [a_10; a_11] => body_9 tt
    | _ => next_8 tt
    end
  else next_8 tt
| _ => next_8 tt
end
| _ => match scrut_3 with
| VC c_ args_ =>
  if (c_ =? "HandshakeState::Done")%string then
    match args_ with
    | [a_10; a_11] => body_9 tt
    | _ => next_8 tt
    end
  else next_8 tt
| _ => next_8 tt
end
end)) in
match scrut_3 with
| VC c_ args_ =>
  if (c_ =? "HandshakeState::Open")%string then
    match args_ with
    | [a_13; a_14] => let v_15 := (ext "Close::try_from" [(VN 0); frame]) in
let rest_16 := fun _ : unit =>
let tried_17 := (ext "OpenOk::try_from" [(VN 0); frame]) in
match tried_17 with
| VC "Err" [err_19] => (self, inner, (VC "Err" [err_19]))
| VC "Ok" [okval_18] =>
let v_20 := okval_18 in
let self_21 := (VC "HandshakeState::Done" [a_13; a_14]) in
(self_21, inner, (VC "Ok" [(VC "()" [])]))
| _ => (self, inner, VStuck)
end in
match v_15 with
| VC c_ args_ =>
  if (c_ =? "Ok")%string then
    match args_ with
    | [a_22] => let inner_23 := v_log "push_method" [(VN 0); (VC "AmqpConnection::CloseOk" [(VC "CloseOk" [])])] inner in
let inner_24 := v_log "seal_writes" [] inner_23 in
let self_25 := (VC "HandshakeState::ServerClosing" [a_22]) in
(self_25, inner_24, (VC "Ok" [(VC "()" [])]))
    | _ => rest_16 tt
    end
  else rest_16 tt
| _ => rest_16 tt
end
    | _ => next_7 tt
    end
  else next_7 tt
| _ => next_7 tt
end) in
match scrut_3 with
| VC c_ args_ =>
  if (c_ =? "HandshakeState::Tune")%string then
    match args_ with
    | [a_26; a_27] => let tried_28 := (ext "Tune::try_from" [(VN 0); frame]) in
match tried_28 with
| VC "Err" [err_30] => (self, inner, (VC "Err" [err_30]))
| VC "Ok" [okval_29] =>
let v_31 := okval_29 in
let tried_32 := (ext "make_tune_ok" [a_26; v_31]) in
match tried_32 with
| VC "Err" [err_34] => (self, inner, (VC "Err" [err_34]))
| VC "Ok" [okval_33] =>
let v_35 := okval_33 in
let inner_36 := v_log "start_heartbeats" [(v_field "heartbeat" v_35)] inner in
let inner_37 := v_log "push_method" [(VN 0); (VC "AmqpConnection::TuneOk" [v_35])] inner_36 in
let v_38 := (ext "make_open" [a_26]) in
let inner_39 := v_log "push_method" [(VN 0); (VC "AmqpConnection::Open" [v_38])] inner_37 in
let self_40 := (VC "HandshakeState::Open" [v_35; a_27]) in
(self_40, inner_39, (VC "Ok" [(VC "()" [])]))
| _ => (self, inner, VStuck)
end
| _ => (self, inner, VStuck)
end
    | _ => next_6 tt
    end
  else next_6 tt
| _ => next_6 tt
end) in
match scrut_3 with
| VC c_ args_ =>
  if (c_ =? "HandshakeState::Secure")%string then
    match args_ with
    | [a_41; a_42] => let v_43 := (ext "Secure::try_from" [(VN 0); frame]) in
let rest_44 := fun _ : unit =>
let self_45 := (VC "HandshakeState::Tune" [a_41; a_42]) in
(gen_HandshakeState_process fuel_ self_45 inner frame) in
match v_43 with
| VC c_ args_ =>
  if (c_ =? "Ok")%string then
    match args_ with
    | [a_46] => (self, inner, (VC "Err" [VC "Error::SaslSecureNotSupported" []]))
    | _ => rest_44 tt
    end
  else rest_44 tt
| _ => rest_44 tt
end
    | _ => next_5 tt
    end
  else next_5 tt
| _ => next_5 tt
end) in
match scrut_3 with
| VC c_ args_ =>
  if (c_ =? "HandshakeState::Start")%string then
    match args_ with
    | [a_47] => let tried_48 := (ext "Start::try_from" [(VN 0); frame]) in
match tried_48 with
| VC "Err" [err_50] => (self, inner, (VC "Err" [err_50]))
| VC "Ok" [okval_49] =>
let v_51 := okval_49 in
let tried_52 := (ext "make_start_ok" [a_47; v_51]) in
match tried_52 with
| VC "Err" [err_54] => (self, inner, (VC "Err" [err_54]))
| VC "Ok" [okval_53] =>
let v_55 := okval_53 in
match v_55 with
| VC c_ args_ =>
  if (c_ =? "tuple")%string then
    match args_ with
    | [a_56; a_57] => let inner_58 := v_log "push_method" [(VN 0); (VC "AmqpConnection::StartOk" [a_56])] inner in
let self_59 := (VC "HandshakeState::Secure" [a_47; a_57]) in
(self_59, inner_58, (VC "Ok" [(VC "()" [])]))
    | _ => (self, inner, VStuck)
    end
  else (self, inner, VStuck)
| _ => (self, inner, VStuck)
end
| _ => (self, inner, VStuck)
end
| _ => (self, inner, VStuck)
end
    | _ => next_4 tt
    end
  else next_4 tt
| _ => next_4 tt
end)) in
match v_1 with
| VC c_ args_ =>
  if (c_ =? "AMQPFrame::Heartbeat")%string then
    match args_ with
    | [a_60] => (if v_eqb a_60 (VN 0) then (self, inner, (VC "Ok" [(VC "()" [])])) else rest_2 tt)
    | _ => rest_2 tt
    end
  else rest_2 tt
| _ => rest_2 tt
end
end.

End Gen.
