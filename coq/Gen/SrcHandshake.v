(* GENERATED on every run by tools/rs2sm.py from /repo/src/io_loop/handshake_state.rs - do not edit.
   The subset of Rust it accepts and the meaning it gives to it are stated in that file. *)
From Coq Require Import String.
From Amq Require Import Lib.Base Lib.RsVal.
Open Scope N_scope.

Section Gen.
(* T::new of the generic functions: which value it builds depends on the type parameter, that is,
   on the kind of its `start` argument; the theorems about these definitions quantify over it *)
Variable t_new : list val -> val.
(* the functions these call that are not translated here (by name, receiver first): the theorems
   state what they assume of them *)
Variable ext : string -> list val -> val.


(* ---- /repo/src/io_loop/handshake_state.rs :: HandshakeState.process ---- *)
Fixpoint gen_HandshakeState_process (fuel : nat) (self : val) (inner : val) (frame : val) {struct fuel} : val * val * val :=
match fuel with
| O => (self, inner, VStuck)
| S fuel_ =>
let v_1 := frame in
let rest_2 := fun _ : unit =>
(let scrut_3 := self in
(let next_4 := fun _ : unit =>
(let next_5 := fun _ : unit =>
(let next_6 := fun _ : unit =>
(let next_7 := fun _ : unit =>
(let next_8 := fun _ : unit =>
(self, inner, VStuck) in
(let body_9 := fun _ : unit =>
(self, inner, (VC "Err" [VC "FrameUnexpected" []])) in
match scrut_3 with
| VC c_ args_ =>
  if (c_ =? "HandshakeState::ServerClosing")%string then
    match args_ with
    | [a_12] => body_9 tt
    | _ => match scrut_3 with
| VC c_ args_ =>
  if (c_ =? "HandshakeState::Done")%string then
    match args_ with
    | [a_10; a_11] => body_9 tt
    | _ => next_8 tt
    end
  else next_8 tt
| _ => next_8 tt
end
    end
  else match scrut_3 with
| VC c_ args_ =>
  if (c_ =? "HandshakeState::Done")%string then
    match args_ with
    | [a_10; a_11] => body_9 tt
    | _ => next_8 tt
    end
  else next_8 tt
| _ => next_8 tt
end
| _ => match scrut_3 with
| VC c_ args_ =>
  if (c_ =? "HandshakeState::Done")%string then
    match args_ with
    | [a_10; a_11] => body_9 tt
    | _ => next_8 tt
    end
  else next_8 tt
| _ => next_8 tt
end
end)) in
match scrut_3 with
| VC c_ args_ =>
  if (c_ =? "HandshakeState::Open")%string then
    match args_ with
    | [a_13; a_14] => let v_15 := (ext "Close::try_from" [(VN 0); frame]) in
let rest_16 := fun _ : unit =>
let v_17 := (ext "OpenOk::try_from" [(VN 0); frame]) in
match v_17 with
| VC "Err" [err_19] => (self, inner, (VC "Err" [err_19]))
| VC "Ok" [okval_18] =>
let self_20 := (VC "HandshakeState::Done" [a_13; a_14]) in
(self_20, inner, (VC "Ok" [(VC "()" [])]))
| _ => (self, inner, VStuck)
end in
match v_15 with
| VC c_ args_ =>
  if (c_ =? "Ok")%string then
    match args_ with
    | [a_21] => let inner_22 := v_log "push_method" [(VN 0); (VC "AmqpConnection::CloseOk" [(VC "CloseOk" [])])] inner in
let inner_23 := v_log "seal_writes" [] inner_22 in
let self_24 := (VC "HandshakeState::ServerClosing" [a_21]) in
(self_24, inner_23, (VC "Ok" [(VC "()" [])]))
    | _ => rest_16 tt
    end
  else rest_16 tt
| _ => rest_16 tt
end
    | _ => next_7 tt
    end
  else next_7 tt
| _ => next_7 tt
end) in
match scrut_3 with
| VC c_ args_ =>
  if (c_ =? "HandshakeState::Tune")%string then
    match args_ with
    | [a_25; a_26] => let v_27 := (ext "Tune::try_from" [(VN 0); frame]) in
match v_27 with
| VC "Err" [err_29] => (self, inner, (VC "Err" [err_29]))
| VC "Ok" [okval_28] =>
let v_30 := (ext "make_tune_ok" [a_25; okval_28]) in
match v_30 with
| VC "Err" [err_32] => (self, inner, (VC "Err" [err_32]))
| VC "Ok" [okval_31] =>
let inner_33 := v_log "start_heartbeats" [(v_field "heartbeat" okval_31)] inner in
let inner_34 := v_log "push_method" [(VN 0); (VC "AmqpConnection::TuneOk" [okval_31])] inner_33 in
let v_35 := (ext "make_open" [a_25]) in
let inner_36 := v_log "push_method" [(VN 0); (VC "AmqpConnection::Open" [v_35])] inner_34 in
let self_37 := (VC "HandshakeState::Open" [okval_31; a_26]) in
(self_37, inner_36, (VC "Ok" [(VC "()" [])]))
| _ => (self, inner, VStuck)
end
| _ => (self, inner, VStuck)
end
    | _ => next_6 tt
    end
  else next_6 tt
| _ => next_6 tt
end) in
match scrut_3 with
| VC c_ args_ =>
  if (c_ =? "HandshakeState::Secure")%string then
    match args_ with
    | [a_38; a_39] => let v_40 := (ext "Secure::try_from" [(VN 0); frame]) in
let rest_41 := fun _ : unit =>
let self_42 := (VC "HandshakeState::Tune" [a_38; a_39]) in
(gen_HandshakeState_process fuel_ self_42 inner frame) in
match v_40 with
| VC c_ args_ =>
  if (c_ =? "Ok")%string then
    match args_ with
    | [a_43] => (self, inner, (VC "Err" [VC "SaslSecureNotSupported" []]))
    | _ => rest_41 tt
    end
  else rest_41 tt
| _ => rest_41 tt
end
    | _ => next_5 tt
    end
  else next_5 tt
| _ => next_5 tt
end) in
match scrut_3 with
| VC c_ args_ =>
  if (c_ =? "HandshakeState::Start")%string then
    match args_ with
    | [a_44] => let v_45 := (ext "Start::try_from" [(VN 0); frame]) in
match v_45 with
| VC "Err" [err_47] => (self, inner, (VC "Err" [err_47]))
| VC "Ok" [okval_46] =>
let v_48 := (ext "make_start_ok" [a_44; okval_46]) in
match v_48 with
| VC "Err" [err_50] => (self, inner, (VC "Err" [err_50]))
| VC "Ok" [okval_49] =>
match okval_49 with
| VC c_ args_ =>
  if (c_ =? "tuple")%string then
    match args_ with
    | [a_51; a_52] => let inner_53 := v_log "push_method" [(VN 0); (VC "AmqpConnection::StartOk" [a_51])] inner in
let self_54 := (VC "HandshakeState::Secure" [a_44; a_52]) in
(self_54, inner_53, (VC "Ok" [(VC "()" [])]))
    | _ => (self, inner, VStuck)
    end
  else (self, inner, VStuck)
| _ => (self, inner, VStuck)
end
| _ => (self, inner, VStuck)
end
| _ => (self, inner, VStuck)
end
    | _ => next_4 tt
    end
  else next_4 tt
| _ => next_4 tt
end)) in
match v_1 with
| VC c_ args_ =>
  if (c_ =? "AMQPFrame::Heartbeat")%string then
    match args_ with
    | [a_55] => (if v_eqb a_55 (VN 0) then (self, inner, (VC "Ok" [(VC "()" [])])) else rest_2 tt)
    | _ => rest_2 tt
    end
  else rest_2 tt
| _ => rest_2 tt
end
end.

End Gen.
