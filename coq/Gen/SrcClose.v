(* GENERATED on every run by tools/rs2sm.py from /repo/src/connection.rs - do not edit.
   The subset of Rust it accepts and the meaning it gives to it are stated in that file. *)
From Coq Require Import String.
From Amq Require Import Lib.Base Lib.RsVal.
Open Scope string_scope.
Open Scope N_scope.

Section Gen.
(* T::new of the generic functions: which value it builds depends on the type parameter, that is,
   on the kind of its `start` argument; the theorems about these definitions quantify over it *)
Variable t_new : list val -> val.
(* the functions these call that are not translated here (by name, receiver first): the theorems
   state what they assume of them *)
Variable ext : string -> list val -> val.
(* operations on the channel ends a handle holds (self.tx.send(m), self.rx.recv()): given the name,
   the arguments and self, the result and self afterwards *)
Variable ext_st : string -> list val -> val -> val * val.


(* ---- /repo/src/connection.rs :: Connection.close_impl ---- *)
Definition gen_Connection_close_impl (self : val) : val * val :=
let taken_2 := v_field "join_handle" self in
let self_1 := v_set "join_handle" (VC "None" []) self in
let v_3 := taken_2 in
let else_4 := fun _ : unit =>
(self_1, (VC "Ok" [(VC "()" [])])) in
match v_3 with
| VC c_ args_ =>
  if (c_ =? "Some")%string then
    match args_ with
    | [a_5] => let '(self_6, v_7) := ext_st "channel0.close_connection" [] self_1 in
let v_8 := v_7 in
let '(self_9, v_10) := ext_st "join_handle.join" [a_5] self_6 in
let res_11 := v_10 in
match res_11 with
| VC "Ok" [okval_12] =>
let tried_14 := (VC "Ok" [okval_12]) in
let after_17 := fun okval_15 : val =>
let tried_18 := okval_15 in
let after_21 := fun okval_19 : val =>
(self_9, v_8) in
match tried_18 with
| VC "Err" [err_20] => (self_9, (VC "Err" [err_20]))
| VC "Ok" [okval_19] => after_21 okval_19
| VC "None" [] => (self_9, (VC "None" []))
| VC "Some" [okval_19] => after_21 okval_19
| _ => (self_9, VStuck)
end in
match tried_14 with
| VC "Err" [err_16] => (self_9, (VC "Err" [err_16]))
| VC "Ok" [okval_15] => after_17 okval_15
| VC "None" [] => (self_9, (VC "None" []))
| VC "Some" [okval_15] => after_17 okval_15
| _ => (self_9, VStuck)
end
| VC "Err" [_] =>
let tried_22 := (VC "Err" [(VC "Error::IoThreadPanic" [])]) in
let after_25 := fun okval_23 : val =>
let tried_26 := okval_23 in
let after_29 := fun okval_27 : val =>
(self_9, v_8) in
match tried_26 with
| VC "Err" [err_28] => (self_9, (VC "Err" [err_28]))
| VC "Ok" [okval_27] => after_29 okval_27
| VC "None" [] => (self_9, (VC "None" []))
| VC "Some" [okval_27] => after_29 okval_27
| _ => (self_9, VStuck)
end in
match tried_22 with
| VC "Err" [err_24] => (self_9, (VC "Err" [err_24]))
| VC "Ok" [okval_23] => after_25 okval_23
| VC "None" [] => (self_9, (VC "None" []))
| VC "Some" [okval_23] => after_25 okval_23
| _ => (self_9, VStuck)
end
| _ => (self_9, VStuck)
end
    | _ => else_4 tt
    end
  else else_4 tt
| _ => else_4 tt
end.

End Gen.
