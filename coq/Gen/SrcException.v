(* GENERATED on every run by tools/rs2sm.py from /repo/src/io_loop/connection_state.rs - do not edit.
   The subset of Rust it accepts and the meaning it gives to it are stated in that file. *)
From Coq Require Import String.
From Amq Require Import Lib.Base Lib.RsVal.
Open Scope string_scope.
Open Scope N_scope.

Section Gen.
(* T::new of the generic functions: which value it builds depends on the type parameter, that is,
   on the kind of its `start` argument; the theorems about these definitions quantify over it *)
Variable t_new : list val -> val.
(* the functions these call that are not translated here (by name, receiver first): the theorems
   state what they assume of them *)
Variable ext : string -> list val -> val.
(* operations on the channel ends a handle holds (self.tx.send(m), self.rx.recv()): given the name,
   the arguments and self, the result and self afterwards *)
Variable ext_st : string -> list val -> val -> val * val.


(* ---- /repo/src/io_loop/connection_state.rs :: ConnectionState.client_exception ---- *)
Fixpoint gen_ConnectionState_client_exception_loop1 (fuel : nat) (self_l : val) (end_l : val) (inner_l : val) (reply_code_l : val) (reply_text_l : val) {struct fuel} : val * val * val :=
match fuel with
| O => (self_l, inner_l, VStuck)
| S fuel_ =>
(if (negb (v_is_true (ext "is_char_boundary" [reply_text_l; end_l]))) then
let end_2 := (v_sub end_l (VN 1)) in
(gen_ConnectionState_client_exception_loop1 fuel_ self_l end_2 inner_l reply_code_l reply_text_l)
else
let reply_text_3 := (v_take end_l reply_text_l) in
let v_4 := (VR [("reply_code", (ext "get_id" [reply_code_l])); ("reply_text", reply_text_3); ("class_id", (VN 0)); ("method_id", (VN 0))]) in
let inner_5 := v_log "push_method" [(VN 0); (VC "AmqpConnection::Close" [v_4])] inner_l in
let inner_6 := v_log "seal_writes" [] inner_5 in
let self_7 := (VC "ConnectionState::ClientException" []) in
(self_7, inner_6, (VC "Ok" [(VC "()" [])])))
end.

Definition gen_ConnectionState_client_exception (fuel : nat) (self : val) (inner : val) (reply_code : val) (reply_text : val) : val * val * val :=
(if (v_ltb (VN 255) (v_len reply_text)) then
let v_1 := (VN 255) in
(gen_ConnectionState_client_exception_loop1 fuel self v_1 inner reply_code reply_text)
else
let v_8 := (VR [("reply_code", (ext "get_id" [reply_code])); ("reply_text", reply_text); ("class_id", (VN 0)); ("method_id", (VN 0))]) in
let inner_9 := v_log "push_method" [(VN 0); (VC "AmqpConnection::Close" [v_8])] inner in
let inner_10 := v_log "seal_writes" [] inner_9 in
let self_11 := (VC "ConnectionState::ClientException" []) in
(self_11, inner_10, (VC "Ok" [(VC "()" [])]))).

End Gen.
