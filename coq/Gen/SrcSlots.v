(* GENERATED on every run by tools/rs2sm.py from /repo/src/io_loop/channel_slots.rs - do not edit.
   The subset of Rust it accepts and the meaning it gives to it are stated in that file. *)
From Coq Require Import String.
From Amq Require Import Lib.Base Lib.RsVal.
Open Scope string_scope.
Open Scope N_scope.

Section Gen.
(* T::new of the generic functions: which value it builds depends on the type parameter, that is,
   on the kind of its `start` argument; the theorems about these definitions quantify over it *)
Variable t_new : list val -> val.
(* the functions these call that are not translated here (by name, receiver first): the theorems
   state what they assume of them *)
Variable ext : string -> list val -> val.
(* operations on the channel ends a handle holds (self.tx.send(m), self.rx.recv()): given the name,
   the arguments and self, the result and self afterwards *)
Variable ext_st : string -> list val -> val -> val * val.


(* ---- /repo/src/io_loop/channel_slots.rs :: ChannelSlots.remove ---- *)
Definition gen_ChannelSlots_remove (self : val) (channel_id : val) : val * val :=
let '(self_1, v_2) := ext_st "slots.remove" [channel_id] self in
let tried_3 := v_2 in
let after_6 := fun okval_4 : val =>
let v_7 := okval_4 in
let '(self_8, v_9) := ext_st "freed_channel_ids.insert" [channel_id] self_1 in
(self_8, (VC "Some" [v_7])) in
match tried_3 with
| VC "Err" [err_5] => (self_1, (VC "Err" [err_5]))
| VC "Ok" [okval_4] => after_6 okval_4
| VC "None" [] => (self_1, (VC "None" []))
| VC "Some" [okval_4] => after_6 okval_4
| _ => (self_1, VStuck)
end.

(* ---- /repo/src/io_loop/channel_slots.rs :: ChannelSlots.insert_unused_channel_id ---- *)
Fixpoint gen_ChannelSlots_insert_unused_channel_id_loop1 (fuel : nat) (self_l : val) (make_entry_l : val) {struct fuel} : val * val :=
match fuel with
| O => (self_l, VStuck)
| S fuel_ =>
(if (negb (v_ltb (v_field "channel_max" self_l) (v_field "next_channel_id" self_l))) then
let v_1 := (v_u16 (v_field "next_channel_id" self_l)) in
let self_2 := (v_set "next_channel_id" (v_add (v_field "next_channel_id" self_l) (VN 1)) self_l) in
(let '(self_3, v_4) := ext_st "slots.entry" [v_1] self_2 in
let scrut_5 := v_4 in
(let next_6 := fun _ : unit =>
(let next_7 := fun _ : unit =>
(self_3, VStuck) in
match scrut_5 with
| VC c_ args_ =>
  if (c_ =? "Entry::Vacant")%string then
    match args_ with
    | [a_8] => let tried_9 := (ext "make_entry" [v_1]) in
let after_12 := fun okval_10 : val =>
let v_13 := okval_10 in
match v_13 with
| VC c_ args_ =>
  if (c_ =? "tuple")%string then
    match args_ with
    | [a_14; a_15] => let '(self_16, v_17) := ext_st "entry.insert" [a_8; a_14] self_3 in
let '(self_18, v_19) := ext_st "freed_channel_ids.shift_remove" [v_1] self_16 in
(self_18, (VC "Ok" [a_15]))
    | _ => (self_3, VStuck)
    end
  else (self_3, VStuck)
| _ => (self_3, VStuck)
end in
match tried_9 with
| VC "Err" [err_11] => (self_3, (VC "Err" [err_11]))
| VC "Ok" [okval_10] => after_12 okval_10
| VC "None" [] => (self_3, (VC "None" []))
| VC "Some" [okval_10] => after_12 okval_10
| _ => (self_3, VStuck)
end
    | _ => next_7 tt
    end
  else next_7 tt
| _ => next_7 tt
end) in
match scrut_5 with
| VC c_ args_ =>
  if (c_ =? "Entry::Occupied")%string then
    match args_ with
    | [a_20] => (gen_ChannelSlots_insert_unused_channel_id_loop1 fuel_ self_3 make_entry_l)
    | _ => next_6 tt
    end
  else next_6 tt
| _ => next_6 tt
end))
else
let '(self_21, v_22) := ext_st "freed_channel_ids.pop" [] self_l in
let tried_23 := (v_context "Error::ExhaustedChannelIds" v_22) in
let after_26 := fun okval_24 : val =>
let v_27 := okval_24 in
(let '(self_28, v_29) := ext_st "slots.entry" [v_27] self_21 in
let scrut_30 := v_29 in
(let next_31 := fun _ : unit =>
(let next_32 := fun _ : unit =>
(self_28, VStuck) in
match scrut_30 with
| VC c_ args_ =>
  if (c_ =? "Entry::Vacant")%string then
    match args_ with
    | [a_33] => let tried_34 := (ext "make_entry" [v_27]) in
let after_37 := fun okval_35 : val =>
let v_38 := okval_35 in
match v_38 with
| VC c_ args_ =>
  if (c_ =? "tuple")%string then
    match args_ with
    | [a_39; a_40] => let '(self_41, v_42) := ext_st "entry.insert" [a_33; a_39] self_28 in
(self_41, (VC "Ok" [a_40]))
    | _ => (self_28, VStuck)
    end
  else (self_28, VStuck)
| _ => (self_28, VStuck)
end in
match tried_34 with
| VC "Err" [err_36] => (self_28, (VC "Err" [err_36]))
| VC "Ok" [okval_35] => after_37 okval_35
| VC "None" [] => (self_28, (VC "None" []))
| VC "Some" [okval_35] => after_37 okval_35
| _ => (self_28, VStuck)
end
    | _ => next_32 tt
    end
  else next_32 tt
| _ => next_32 tt
end) in
match scrut_30 with
| VC c_ args_ =>
  if (c_ =? "Entry::Occupied")%string then
    match args_ with
    | [a_43] => (self_28, (VC "Panic" []))
    | _ => next_31 tt
    end
  else next_31 tt
| _ => next_31 tt
end)) in
match tried_23 with
| VC "Err" [err_25] => (self_21, (VC "Err" [err_25]))
| VC "Ok" [okval_24] => after_26 okval_24
| VC "None" [] => (self_21, (VC "None" []))
| VC "Some" [okval_24] => after_26 okval_24
| _ => (self_21, VStuck)
end)
end.

Definition gen_ChannelSlots_insert_unused_channel_id (fuel : nat) (self : val) (make_entry : val) : val * val :=
(gen_ChannelSlots_insert_unused_channel_id_loop1 fuel self make_entry).

(* ---- /repo/src/io_loop/channel_slots.rs :: ChannelSlots.insert ---- *)
Definition gen_ChannelSlots_insert (fuel : nat) (self : val) (channel_id : val) (make_entry : val) : val * val :=
(let scrut_1 := channel_id in
(let next_2 := fun _ : unit =>
(let next_3 := fun _ : unit =>
(self, VStuck) in
match scrut_1 with
| VC c_ args_ =>
  if (c_ =? "None")%string then
    match args_ with
    | [] => let '(self_4, v_5) := gen_ChannelSlots_insert_unused_channel_id fuel self make_entry in
(self_4, v_5)
    | _ => next_3 tt
    end
  else next_3 tt
| _ => next_3 tt
end) in
match scrut_1 with
| VC c_ args_ =>
  if (c_ =? "Some")%string then
    match args_ with
    | [a_6] => let v_7 := a_6 in
(if ((v_eqb v_7 (VN 0)) || (v_ltb (v_field "channel_max" self) v_7)) then
(self, (VC "Err" [VC "Error::UnavailableChannelId" [v_7]]))
else
(let '(self_8, v_9) := ext_st "slots.entry" [v_7] self in
let scrut_10 := v_9 in
(let next_11 := fun _ : unit =>
(let next_12 := fun _ : unit =>
(self_8, VStuck) in
match scrut_10 with
| VC c_ args_ =>
  if (c_ =? "Entry::Vacant")%string then
    match args_ with
    | [a_13] => let tried_14 := (ext "make_entry" [v_7]) in
let after_17 := fun okval_15 : val =>
let v_18 := okval_15 in
match v_18 with
| VC c_ args_ =>
  if (c_ =? "tuple")%string then
    match args_ with
    | [a_19; a_20] => let '(self_21, v_22) := ext_st "entry.insert" [a_13; a_19] self_8 in
let '(self_23, v_24) := ext_st "freed_channel_ids.shift_remove" [v_7] self_21 in
(self_23, (VC "Ok" [a_20]))
    | _ => (self_8, VStuck)
    end
  else (self_8, VStuck)
| _ => (self_8, VStuck)
end in
match tried_14 with
| VC "Err" [err_16] => (self_8, (VC "Err" [err_16]))
| VC "Ok" [okval_15] => after_17 okval_15
| VC "None" [] => (self_8, (VC "None" []))
| VC "Some" [okval_15] => after_17 okval_15
| _ => (self_8, VStuck)
end
    | _ => next_12 tt
    end
  else next_12 tt
| _ => next_12 tt
end) in
match scrut_10 with
| VC c_ args_ =>
  if (c_ =? "Entry::Occupied")%string then
    match args_ with
    | [a_25] => (self_8, (VC "Err" [VC "Error::UnavailableChannelId" [v_7]]))
    | _ => next_11 tt
    end
  else next_11 tt
| _ => next_11 tt
end)))
    | _ => next_2 tt
    end
  else next_2 tt
| _ => next_2 tt
end)).

End Gen.
