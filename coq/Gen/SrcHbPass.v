(* GENERATED on every run by tools/rs2sm.py from /repo/src/io_loop/mod.rs - do not edit.
   The subset of Rust it accepts and the meaning it gives to it are stated in that file. *)
From Coq Require Import String.
From Amq Require Import Lib.Base Lib.RsVal Lib.RsStr.
Open Scope string_scope.
Open Scope N_scope.

Section Gen.
(* T::new of the generic functions: which value it builds depends on the type parameter, that is,
   on the kind of its `start` argument; the theorems about these definitions quantify over it *)
Variable t_new : list val -> val.
(* the functions these call that are not translated here (by name, receiver first): the theorems
   state what they assume of them *)
Variable ext : string -> list val -> val.
(* operations on the channel ends a handle holds (self.tx.send(m), self.rx.recv()): given the name,
   the arguments and self, the result and self afterwards *)
Variable ext_st : string -> list val -> val -> val * val.


(* ---- /repo/src/io_loop/mod.rs :: Inner.process_heartbeat_timers ---- *)
Fixpoint gen_Inner_process_heartbeat_timers_loop1 (fuel : nat) (self_l : val) {struct fuel} : val * val :=
match fuel with
| O => (self_l, VStuck)
| S fuel_ =>
(let '(self_1, v_2) := ext_st "timer.poll" [] self_l in
let v_3 := v_2 in
let rest_4 := fun _ : unit =>
(self_1, (VC "Ok" [(VC "()" [])])) in
match v_3 with
| VC c_ args_ =>
  if (c_ =? "Some")%string then
    match args_ with
    | [a_5] => (let scrut_6 := a_5 in
(let next_7 := fun _ : unit =>
(let next_8 := fun _ : unit =>
(self_1, VStuck) in
match scrut_6 with
| VC c_ args_ =>
  if (c_ =? "HeartbeatKind::Tx")%string then
    match args_ with
    | [] => (let '(self_9, v_10) := ext_st "heartbeats.fire_tx" [] self_1 in
let scrut_11 := v_10 in
(let next_12 := fun _ : unit =>
(let next_13 := fun _ : unit =>
(self_9, VStuck) in
match scrut_11 with
| VC c_ args_ =>
  if (c_ =? "HeartbeatState::Expired")%string then
    match args_ with
    | [] => (if (v_is_empty (v_field "outbuf" self_9)) then
let '(self_14, v_15) := ext_st "outbuf.push_heartbeat" [] self_9 in
(gen_Inner_process_heartbeat_timers_loop1 fuel_ self_14)
else
(gen_Inner_process_heartbeat_timers_loop1 fuel_ self_9))
    | _ => next_13 tt
    end
  else next_13 tt
| _ => next_13 tt
end) in
match scrut_11 with
| VC c_ args_ =>
  if (c_ =? "HeartbeatState::StillRunning")%string then
    match args_ with
    | [] => (gen_Inner_process_heartbeat_timers_loop1 fuel_ self_9)
    | _ => next_12 tt
    end
  else next_12 tt
| _ => next_12 tt
end))
    | _ => next_8 tt
    end
  else next_8 tt
| _ => next_8 tt
end) in
match scrut_6 with
| VC c_ args_ =>
  if (c_ =? "HeartbeatKind::Rx")%string then
    match args_ with
    | [] => (let '(self_16, v_17) := ext_st "heartbeats.fire_rx" [] self_1 in
let scrut_18 := v_17 in
(let next_19 := fun _ : unit =>
(let next_20 := fun _ : unit =>
(self_16, VStuck) in
match scrut_18 with
| VC c_ args_ =>
  if (c_ =? "HeartbeatState::Expired")%string then
    match args_ with
    | [] => (self_16, (VC "Err" [VC "Error::MissedServerHeartbeats" []]))
    | _ => next_20 tt
    end
  else next_20 tt
| _ => next_20 tt
end) in
match scrut_18 with
| VC c_ args_ =>
  if (c_ =? "HeartbeatState::StillRunning")%string then
    match args_ with
    | [] => (gen_Inner_process_heartbeat_timers_loop1 fuel_ self_16)
    | _ => next_19 tt
    end
  else next_19 tt
| _ => next_19 tt
end))
    | _ => next_7 tt
    end
  else next_7 tt
| _ => next_7 tt
end))
    | _ => rest_4 tt
    end
  else rest_4 tt
| _ => rest_4 tt
end)
end.

Definition gen_Inner_process_heartbeat_timers (fuel : nat) (self : val) : val * val :=
(gen_Inner_process_heartbeat_timers_loop1 fuel self).

End Gen.
