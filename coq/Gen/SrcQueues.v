(* GENERATED on every run by tools/rs2sm.py from /repo/src/io_loop/connection_state.rs - do not edit.
   The subset of Rust it accepts and the meaning it gives to it are stated in that file. *)
From Coq Require Import String.
From Amq Require Import Lib.Base Lib.RsVal.
Open Scope string_scope.
Open Scope N_scope.

Section Gen.
(* T::new of the generic functions: which value it builds depends on the type parameter, that is,
   on the kind of its `start` argument; the theorems about these definitions quantify over it *)
Variable t_new : list val -> val.
(* the functions these call that are not translated here (by name, receiver first): the theorems
   state what they assume of them *)
Variable ext : string -> list val -> val.
(* operations on the channel ends a handle holds (self.tx.send(m), self.rx.recv()): given the name,
   the arguments and self, the result and self afterwards *)
Variable ext_st : string -> list val -> val -> val * val.


(* ---- /repo/src/io_loop/connection_state.rs :: send ---- *)
Definition gen_send (self : val) (item : val) : val * val :=
(let '(self_1, v_2) := ext_st "self.try_send" [item] self in
let scrut_3 := v_2 in
(let next_4 := fun _ : unit =>
(let next_5 := fun _ : unit =>
(let next_6 := fun _ : unit =>
(self_1, VStuck) in
match scrut_3 with
| VC c_ args_ =>
  if (c_ =? "Err")%string then
    match args_ with
    | [a_7] => match a_7 with
| VC c_ args_ =>
  if (c_ =? "TrySendError::Disconnected")%string then
    match args_ with
    | [a_8] => (self_1, (VC "Err" [VC "Error::EventLoopClientDropped" []]))
    | _ => next_6 tt
    end
  else next_6 tt
| _ => next_6 tt
end
    | _ => next_6 tt
    end
  else next_6 tt
| _ => next_6 tt
end) in
match scrut_3 with
| VC c_ args_ =>
  if (c_ =? "Err")%string then
    match args_ with
    | [a_9] => match a_9 with
| VC c_ args_ =>
  if (c_ =? "TrySendError::Full")%string then
    match args_ with
    | [a_10] => (self_1, (VC "Err" [VC "Error::FrameUnexpected" []]))
    | _ => next_5 tt
    end
  else next_5 tt
| _ => next_5 tt
end
    | _ => next_5 tt
    end
  else next_5 tt
| _ => next_5 tt
end) in
match scrut_3 with
| VC c_ args_ =>
  if (c_ =? "Ok")%string then
    match args_ with
    | [a_11] => match a_11 with
| VC c_ args_ =>
  if (c_ =? "()")%string then
    match args_ with
    | [] => (self_1, (VC "Ok" [(VC "()" [])]))
    | _ => next_4 tt
    end
  else next_4 tt
| _ => next_4 tt
end
    | _ => next_4 tt
    end
  else next_4 tt
| _ => next_4 tt
end)).

(* ---- /repo/src/io_loop/connection_state.rs :: try_send_return ---- *)
Definition gen_try_send_return (self : val) (return_ : val) : val * val :=
let v_1 := (v_field "return_handler" self) in
let else_2 := fun _ : unit =>
let v_3 := return_ in
(self, (VC "()" [])) in
match v_1 with
| VC c_ args_ =>
  if (c_ =? "Some")%string then
    match args_ with
    | [a_4] => (let '(self_5, v_6) := ext_st "tx.try_send" [a_4; return_] self in
let scrut_7 := v_6 in
(let next_8 := fun _ : unit =>
(let next_9 := fun _ : unit =>
(self_5, VStuck) in
(let alt_15 := fun _ : unit =>
(let alt_10 := fun _ : unit =>
next_9 tt in
match scrut_7 with
| VC c_ args_ =>
  if (c_ =? "Err")%string then
    match args_ with
    | [a_11] => match a_11 with
| VC c_ args_ =>
  if (c_ =? "TrySendError::Disconnected")%string then
    match args_ with
    | [a_12] => let self_13 := (v_set "return_handler" (VC "None" []) self_5) in
let v_14 := a_12 in
(self_13, (VC "()" []))
    | _ => alt_10 tt
    end
  else alt_10 tt
| _ => alt_10 tt
end
    | _ => alt_10 tt
    end
  else alt_10 tt
| _ => alt_10 tt
end) in
match scrut_7 with
| VC c_ args_ =>
  if (c_ =? "Err")%string then
    match args_ with
    | [a_16] => match a_16 with
| VC c_ args_ =>
  if (c_ =? "TrySendError::Full")%string then
    match args_ with
    | [a_17] => let self_18 := (v_set "return_handler" (VC "None" []) self_5) in
let v_19 := a_17 in
(self_18, (VC "()" []))
    | _ => alt_15 tt
    end
  else alt_15 tt
| _ => alt_15 tt
end
    | _ => alt_15 tt
    end
  else alt_15 tt
| _ => alt_15 tt
end)) in
match scrut_7 with
| VC c_ args_ =>
  if (c_ =? "Ok")%string then
    match args_ with
    | [a_20] => match a_20 with
| VC c_ args_ =>
  if (c_ =? "()")%string then
    match args_ with
    | [] => (self_5, (VC "()" []))
    | _ => next_8 tt
    end
  else next_8 tt
| _ => next_8 tt
end
    | _ => next_8 tt
    end
  else next_8 tt
| _ => next_8 tt
end))
    | _ => else_2 tt
    end
  else else_2 tt
| _ => else_2 tt
end.

(* ---- /repo/src/io_loop/connection_state.rs :: try_send_confirm ---- *)
Definition gen_try_send_confirm (self : val) (confirm : val) : val * val :=
let v_1 := (v_field "pub_confirm_handler" self) in
let else_2 := fun _ : unit =>
let v_3 := confirm in
(self, (VC "()" [])) in
match v_1 with
| VC c_ args_ =>
  if (c_ =? "Some")%string then
    match args_ with
    | [a_4] => (let '(self_5, v_6) := ext_st "tx.try_send" [a_4; confirm] self in
let scrut_7 := v_6 in
(let next_8 := fun _ : unit =>
(let next_9 := fun _ : unit =>
(self_5, VStuck) in
(let alt_15 := fun _ : unit =>
(let alt_10 := fun _ : unit =>
next_9 tt in
match scrut_7 with
| VC c_ args_ =>
  if (c_ =? "Err")%string then
    match args_ with
    | [a_11] => match a_11 with
| VC c_ args_ =>
  if (c_ =? "TrySendError::Disconnected")%string then
    match args_ with
    | [a_12] => let self_13 := (v_set "pub_confirm_handler" (VC "None" []) self_5) in
let v_14 := a_12 in
(self_13, (VC "()" []))
    | _ => alt_10 tt
    end
  else alt_10 tt
| _ => alt_10 tt
end
    | _ => alt_10 tt
    end
  else alt_10 tt
| _ => alt_10 tt
end) in
match scrut_7 with
| VC c_ args_ =>
  if (c_ =? "Err")%string then
    match args_ with
    | [a_16] => match a_16 with
| VC c_ args_ =>
  if (c_ =? "TrySendError::Full")%string then
    match args_ with
    | [a_17] => let self_18 := (v_set "pub_confirm_handler" (VC "None" []) self_5) in
let v_19 := a_17 in
(self_18, (VC "()" []))
    | _ => alt_15 tt
    end
  else alt_15 tt
| _ => alt_15 tt
end
    | _ => alt_15 tt
    end
  else alt_15 tt
| _ => alt_15 tt
end)) in
match scrut_7 with
| VC c_ args_ =>
  if (c_ =? "Ok")%string then
    match args_ with
    | [a_20] => match a_20 with
| VC c_ args_ =>
  if (c_ =? "()")%string then
    match args_ with
    | [] => (self_5, (VC "()" []))
    | _ => next_8 tt
    end
  else next_8 tt
| _ => next_8 tt
end
    | _ => next_8 tt
    end
  else next_8 tt
| _ => next_8 tt
end))
    | _ => else_2 tt
    end
  else else_2 tt
| _ => else_2 tt
end.

End Gen.
