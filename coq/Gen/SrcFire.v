(* GENERATED on every run by tools/rs2v.py from /repo/src/heartbeats.rs - do not edit.
   The subset of Rust it accepts and the meaning it gives to it are stated in that file. *)
From Coq Require Import String.
From Amq Require Import Lib.Base Lib.RsResult Gen.Consts.
Open Scope string_scope.
Open Scope N_scope.


(* ---- /repo/src/heartbeats.rs :: Heartbeat.fire ---- *)
(* parameters (the fields the function reads, sorted): self.interval, self.last_elapsed *)
Definition gen_Heartbeat_fire (self_interval : N) (self_last_elapsed : N) : rs_result :=
  (let elapsed := self_last_elapsed in (let '(when, state) := (if (self_interval <=? (elapsed + 5)) then (self_interval, 1) else ((self_interval - elapsed), 0)) in (RsOk "Heartbeat_fire" [("result", state); ("timer.set_timeout#0", when)]))).
