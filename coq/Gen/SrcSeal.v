(* GENERATED on every run by tools/rs2v.py from /repo/src/serialize.rs - do not edit.
   The subset of Rust it accepts and the meaning it gives to it are stated in that file. *)
From Coq Require Import String.
From Amq Require Import Lib.Base Lib.RsResult Gen.Consts.
Open Scope string_scope.
Open Scope N_scope.


(* ---- /repo/src/serialize.rs :: SealableOutputBuffer.append ---- *)
(* parameters (the fields the function reads, sorted): self.sealed *)
Definition gen_SealableOutputBuffer_append (self_sealed : N) : rs_result :=
  (RsOk "SealableOutputBuffer_append" [("self.buf.append#called", (if (negb (self_sealed =? 1)) then 1 else 0))]).

(* ---- /repo/src/serialize.rs :: SealableOutputBuffer.push_heartbeat ---- *)
(* parameters (the fields the function reads, sorted): self.sealed *)
Definition gen_SealableOutputBuffer_push_heartbeat (self_sealed : N) : rs_result :=
  (RsOk "SealableOutputBuffer_push_heartbeat" [("self.buf.push_heartbeat#called", (if (negb (self_sealed =? 1)) then 1 else 0))]).

(* ---- /repo/src/serialize.rs :: SealableOutputBuffer.push_method ---- *)
(* parameters (the fields the function reads, sorted): self.sealed *)
Definition gen_SealableOutputBuffer_push_method (self_sealed : N) (channel_id : N) : rs_result :=
  (RsOk "SealableOutputBuffer_push_method" [("self.buf.push_method#called", (if (negb (self_sealed =? 1)) then 1 else 0))]).

(* ---- /repo/src/serialize.rs :: SealableOutputBuffer.seal ---- *)
(* parameters (the fields the function reads, sorted):  *)
Definition gen_SealableOutputBuffer_seal : rs_result :=
  (RsOk "SealableOutputBuffer_seal" [("self.sealed:=", 1)]).
