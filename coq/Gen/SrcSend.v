(* GENERATED on every run by tools/rs2sm.py from /repo/src/io_loop/channel_handle.rs - do not edit.
   The subset of Rust it accepts and the meaning it gives to it are stated in that file. *)
From Coq Require Import String.
From Amq Require Import Lib.Base Lib.RsVal.
Open Scope string_scope.
Open Scope N_scope.

Section Gen.
(* T::new of the generic functions: which value it builds depends on the type parameter, that is,
   on the kind of its `start` argument; the theorems about these definitions quantify over it *)
Variable t_new : list val -> val.
(* the functions these call that are not translated here (by name, receiver first): the theorems
   state what they assume of them *)
Variable ext : string -> list val -> val.
(* operations on the channel ends a handle holds (self.tx.send(m), self.rx.recv()): given the name,
   the arguments and self, the result and self afterwards *)
Variable ext_st : string -> list val -> val -> val * val.


(* ---- /repo/src/io_loop/channel_handle.rs :: ChannelHandle.send_content ---- *)
Fixpoint gen_ChannelHandle_send_content_loop1 (fuel : nat) (self_l : val) (class_id_l : val) (content_l : val) (properties_l : val) {struct fuel} : val * val :=
match fuel with
| O => (self_l, VStuck)
| S fuel_ =>
(if (v_ltb (v_field "frame_max" self_l) (v_len content_l)) then
let '(self_7, v_8) := ext_st "handle.send_content_body" [(v_take (v_field "frame_max" self_l) content_l)] self_l in
let tried_9 := v_8 in
let after_12 := fun okval_10 : val =>
let content_13 := (v_drop (v_field "frame_max" self_7) content_l) in
(gen_ChannelHandle_send_content_loop1 fuel_ self_7 class_id_l content_13 properties_l) in
match tried_9 with
| VC "Err" [err_11] => (self_7, (VC "Err" [err_11]))
| VC "Ok" [okval_10] => after_12 okval_10
| VC "None" [] => (self_7, (VC "None" []))
| VC "Some" [okval_10] => after_12 okval_10
| _ => (self_7, VStuck)
end
else
(if (negb (v_is_empty content_l)) then
let '(self_14, v_15) := ext_st "handle.send_content_body" [content_l] self_l in
let tried_16 := v_15 in
let after_19 := fun okval_17 : val =>
(self_14, (VC "Ok" [(VC "()" [])])) in
match tried_16 with
| VC "Err" [err_18] => (self_14, (VC "Err" [err_18]))
| VC "Ok" [okval_17] => after_19 okval_17
| VC "None" [] => (self_14, (VC "None" []))
| VC "Some" [okval_17] => after_19 okval_17
| _ => (self_14, VStuck)
end
else
(self_l, (VC "Ok" [(VC "()" [])]))))
end.

Definition gen_ChannelHandle_send_content (fuel : nat) (self : val) (content : val) (class_id : val) (properties : val) : val * val :=
let '(self_1, v_2) := ext_st "handle.send_content_header" [class_id; (v_len content); properties] self in
let tried_3 := v_2 in
let after_6 := fun okval_4 : val =>
(gen_ChannelHandle_send_content_loop1 fuel self_1 class_id content properties) in
match tried_3 with
| VC "Err" [err_5] => (self_1, (VC "Err" [err_5]))
| VC "Ok" [okval_4] => after_6 okval_4
| VC "None" [] => (self_1, (VC "None" []))
| VC "Some" [okval_4] => after_6 okval_4
| _ => (self_1, VStuck)
end.

End Gen.
