(* GENERATED on every run by tools/rs2sm.py from /repo/src/connection.rs - do not edit.
   The subset of Rust it accepts and the meaning it gives to it are stated in that file. *)
From Coq Require Import String.
From Amq Require Import Lib.Base Lib.RsVal Lib.RsStr.
Open Scope string_scope.
Open Scope N_scope.

Section Gen.
(* T::new of the generic functions: which value it builds depends on the type parameter, that is,
   on the kind of its `start` argument; the theorems about these definitions quantify over it *)
Variable t_new : list val -> val.
(* the functions these call that are not translated here (by name, receiver first): the theorems
   state what they assume of them *)
Variable ext : string -> list val -> val.
(* operations on the channel ends a handle holds (self.tx.send(m), self.rx.recv()): given the name,
   the arguments and self, the result and self afterwards *)
Variable ext_st : string -> list val -> val -> val * val.


(* ---- /repo/src/connection.rs :: populate_host_and_port ---- *)
Definition gen_populate_host_and_port (self : val) : val * val :=
(if ((negb (v_is_true (ext "has_host" [self]))) || (v_beq (ext "host_str" [self]) (VC "Some" [(VBytes [])]))) then
let '(self_1, v_2) := ext_st "self.set_host" [(VC "Some" [(VBytes [108; 111; 99; 97; 108; 104; 111; 115; 116])])] self in
let tried_3 := (v_context "Error::UrlParse" v_2) in
let after_6 := fun okval_4 : val =>
(let scrut_7 := (ext "scheme" [self_1]) in
(let next_8 := fun _ : unit =>
(let next_9 := fun _ : unit =>
(let next_10 := fun _ : unit =>
(self_1, VStuck) in
(self_1, (VC "Err" [VC "Error::InvalidUrlScheme" [self_1]]))) in
(if v_beq scrut_7 (VBytes [97; 109; 113; 112; 115]) then let '(self_11, v_12) := ext_st "self.set_port" [(VC "Some" [(v_unwrap_or (ext "port" [self_1]) (VN 5671))])] self_1 in
let res_13 := v_12 in
match res_13 with
| VC "Ok" [okval_14] =>
let tried_16 := (VC "Ok" [okval_14]) in
let after_19 := fun okval_17 : val =>
(self_11, (VC "Ok" [(VC "Scheme::Amqps" [])])) in
match tried_16 with
| VC "Err" [err_18] => (self_11, (VC "Err" [err_18]))
| VC "Ok" [okval_17] => after_19 okval_17
| VC "None" [] => (self_11, (VC "None" []))
| VC "Some" [okval_17] => after_19 okval_17
| _ => (self_11, VStuck)
end
| VC "Err" [_] =>
let tried_20 := (VC "Err" [(VC "Error::SpecifyUrlPort" [(VR [("self", self_11)])])]) in
let after_23 := fun okval_21 : val =>
(self_11, (VC "Ok" [(VC "Scheme::Amqps" [])])) in
match tried_20 with
| VC "Err" [err_22] => (self_11, (VC "Err" [err_22]))
| VC "Ok" [okval_21] => after_23 okval_21
| VC "None" [] => (self_11, (VC "None" []))
| VC "Some" [okval_21] => after_23 okval_21
| _ => (self_11, VStuck)
end
| _ => (self_11, VStuck)
end else next_9 tt)) in
(if v_beq scrut_7 (VBytes [97; 109; 113; 112]) then let '(self_24, v_25) := ext_st "self.set_port" [(VC "Some" [(v_unwrap_or (ext "port" [self_1]) (VN 5672))])] self_1 in
let res_26 := v_25 in
match res_26 with
| VC "Ok" [okval_27] =>
let tried_29 := (VC "Ok" [okval_27]) in
let after_32 := fun okval_30 : val =>
(self_24, (VC "Ok" [(VC "Scheme::Amqp" [])])) in
match tried_29 with
| VC "Err" [err_31] => (self_24, (VC "Err" [err_31]))
| VC "Ok" [okval_30] => after_32 okval_30
| VC "None" [] => (self_24, (VC "None" []))
| VC "Some" [okval_30] => after_32 okval_30
| _ => (self_24, VStuck)
end
| VC "Err" [_] =>
let tried_33 := (VC "Err" [(VC "Error::SpecifyUrlPort" [(VR [("self", self_24)])])]) in
let after_36 := fun okval_34 : val =>
(self_24, (VC "Ok" [(VC "Scheme::Amqp" [])])) in
match tried_33 with
| VC "Err" [err_35] => (self_24, (VC "Err" [err_35]))
| VC "Ok" [okval_34] => after_36 okval_34
| VC "None" [] => (self_24, (VC "None" []))
| VC "Some" [okval_34] => after_36 okval_34
| _ => (self_24, VStuck)
end
| _ => (self_24, VStuck)
end else next_8 tt))) in
match tried_3 with
| VC "Err" [err_5] => (self_1, (VC "Err" [err_5]))
| VC "Ok" [okval_4] => after_6 okval_4
| VC "None" [] => (self_1, (VC "None" []))
| VC "Some" [okval_4] => after_6 okval_4
| _ => (self_1, VStuck)
end
else
(let scrut_37 := (ext "scheme" [self]) in
(let next_38 := fun _ : unit =>
(let next_39 := fun _ : unit =>
(let next_40 := fun _ : unit =>
(self, VStuck) in
(self, (VC "Err" [VC "Error::InvalidUrlScheme" [self]]))) in
(if v_beq scrut_37 (VBytes [97; 109; 113; 112; 115]) then let '(self_41, v_42) := ext_st "self.set_port" [(VC "Some" [(v_unwrap_or (ext "port" [self]) (VN 5671))])] self in
let res_43 := v_42 in
match res_43 with
| VC "Ok" [okval_44] =>
let tried_46 := (VC "Ok" [okval_44]) in
let after_49 := fun okval_47 : val =>
(self_41, (VC "Ok" [(VC "Scheme::Amqps" [])])) in
match tried_46 with
| VC "Err" [err_48] => (self_41, (VC "Err" [err_48]))
| VC "Ok" [okval_47] => after_49 okval_47
| VC "None" [] => (self_41, (VC "None" []))
| VC "Some" [okval_47] => after_49 okval_47
| _ => (self_41, VStuck)
end
| VC "Err" [_] =>
let tried_50 := (VC "Err" [(VC "Error::SpecifyUrlPort" [(VR [("self", self_41)])])]) in
let after_53 := fun okval_51 : val =>
(self_41, (VC "Ok" [(VC "Scheme::Amqps" [])])) in
match tried_50 with
| VC "Err" [err_52] => (self_41, (VC "Err" [err_52]))
| VC "Ok" [okval_51] => after_53 okval_51
| VC "None" [] => (self_41, (VC "None" []))
| VC "Some" [okval_51] => after_53 okval_51
| _ => (self_41, VStuck)
end
| _ => (self_41, VStuck)
end else next_39 tt)) in
(if v_beq scrut_37 (VBytes [97; 109; 113; 112]) then let '(self_54, v_55) := ext_st "self.set_port" [(VC "Some" [(v_unwrap_or (ext "port" [self]) (VN 5672))])] self in
let res_56 := v_55 in
match res_56 with
| VC "Ok" [okval_57] =>
let tried_59 := (VC "Ok" [okval_57]) in
let after_62 := fun okval_60 : val =>
(self_54, (VC "Ok" [(VC "Scheme::Amqp" [])])) in
match tried_59 with
| VC "Err" [err_61] => (self_54, (VC "Err" [err_61]))
| VC "Ok" [okval_60] => after_62 okval_60
| VC "None" [] => (self_54, (VC "None" []))
| VC "Some" [okval_60] => after_62 okval_60
| _ => (self_54, VStuck)
end
| VC "Err" [_] =>
let tried_63 := (VC "Err" [(VC "Error::SpecifyUrlPort" [(VR [("self", self_54)])])]) in
let after_66 := fun okval_64 : val =>
(self_54, (VC "Ok" [(VC "Scheme::Amqp" [])])) in
match tried_63 with
| VC "Err" [err_65] => (self_54, (VC "Err" [err_65]))
| VC "Ok" [okval_64] => after_66 okval_64
| VC "None" [] => (self_54, (VC "None" []))
| VC "Some" [okval_64] => after_66 okval_64
| _ => (self_54, VStuck)
end
| _ => (self_54, VStuck)
end else next_38 tt)))).

End Gen.
