(* GENERATED on every check by `vh consts` from the compiled amiquip crate
   (amiquip::verif::consts()).  Do not edit: edits are overwritten. *)
From Coq Require Import NArith List.
Import ListNotations.
Open Scope N_scope.
Definition c_frame_overhead : N := 8.
Definition c_max_missed_server_heartbeats : N := 2.
Definition c_rx_interval_ms_per_s : N := 2000.
Definition c_tx_interval_ms_per_s : N := 1000.
Definition c_frame_min_size : N := 4096.
Definition c_min_read : N := 4096.
Definition c_reply_queue_bound : N := 2.
Definition c_default_channel_max : N := 0.
Definition c_default_frame_max : N := 0.
Definition c_default_heartbeat : N := 60.
Definition c_default_mem_channel_bound : N := 16.
Definition c_default_high_water : N := 16777216.
Definition c_default_low_water : N := 0.
Definition c_reply_success : N := 200.
Definition c_token_stream : N := 65536.
Definition c_token_heartbeat : N := 65537.
Definition c_token_alloc : N := 65538.
Definition c_token_set_blocked : N := 65539.
Definition c_protocol_header : list N := [65; 77; 81; 80; 0; 0; 9; 1].
