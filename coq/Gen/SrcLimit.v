(* GENERATED on every run by tools/rs2v.py from /repo/src/io_loop/channel_handle.rs - do not edit.
   The subset of Rust it accepts and the meaning it gives to it are stated in that file. *)
From Coq Require Import String.
From Amq Require Import Lib.Base Lib.RsResult Gen.Consts.
Open Scope string_scope.
Open Scope N_scope.


(* ---- /repo/src/io_loop/channel_handle.rs :: Channel0Handle.new ---- *)
(* parameters (the fields the function reads, sorted):  *)
Definition gen_Channel0Handle_new (frame_max : N) : rs_result :=
  (let frame_max := (if (frame_max =? 0) then 18446744073709551615 else frame_max) in (let frame_max := (frame_max - c_frame_overhead) in (RsOk "Channel0Handle" [("frame_max", frame_max)]))).
