(* GENERATED on every run by tools/rs2sm.py from /repo/src/io_loop/io_loop_handle.rs - do not edit.
   The subset of Rust it accepts and the meaning it gives to it are stated in that file. *)
From Coq Require Import String.
From Amq Require Import Lib.Base Lib.RsVal.
Open Scope string_scope.
Open Scope N_scope.

Section Gen.
(* T::new of the generic functions: which value it builds depends on the type parameter, that is,
   on the kind of its `start` argument; the theorems about these definitions quantify over it *)
Variable t_new : list val -> val.
(* the functions these call that are not translated here (by name, receiver first): the theorems
   state what they assume of them *)
Variable ext : string -> list val -> val.
(* operations on the channel ends a handle holds (self.tx.send(m), self.rx.recv()): given the name,
   the arguments and self, the result and self afterwards *)
Variable ext_st : string -> list val -> val -> val * val.


(* ---- /repo/src/io_loop/io_loop_handle.rs :: IoLoopHandle.recv ---- *)
Definition gen_IoLoopHandle_recv (self : val) : val * val :=
let '(self_1, v_2) := ext_st "rx.recv" [] self in
let res_3 := v_2 in
match res_3 with
| VC "Ok" [okval_4] =>
let tried_6 := (VC "Ok" [okval_4]) in
let after_9 := fun okval_7 : val =>
(self_1, okval_7) in
match tried_6 with
| VC "Err" [err_8] => (self_1, (VC "Err" [err_8]))
| VC "Ok" [okval_7] => after_9 okval_7
| VC "None" [] => (self_1, (VC "None" []))
| VC "Some" [okval_7] => after_9 okval_7
| _ => (self_1, VStuck)
end
| VC "Err" [_] =>
let tried_10 := (VC "Err" [(VC "Error::EventLoopDropped" [])]) in
let after_13 := fun okval_11 : val =>
(self_1, okval_11) in
match tried_10 with
| VC "Err" [err_12] => (self_1, (VC "Err" [err_12]))
| VC "Ok" [okval_11] => after_13 okval_11
| VC "None" [] => (self_1, (VC "None" []))
| VC "Some" [okval_11] => after_13 okval_11
| _ => (self_1, VStuck)
end
| _ => (self_1, VStuck)
end.

(* ---- /repo/src/io_loop/io_loop_handle.rs :: IoLoopHandle.check_recv_for_error ---- *)
Definition gen_IoLoopHandle_check_recv_for_error (self : val) : val * val :=
(let '(self_1, v_2) := gen_IoLoopHandle_recv self in
let scrut_3 := v_2 in
(let next_4 := fun _ : unit =>
(let next_5 := fun _ : unit =>
(self_1, VStuck) in
match scrut_3 with
| VC c_ args_ =>
  if (c_ =? "Err")%string then
    match args_ with
    | [a_6] => (self_1, a_6)
    | _ => next_5 tt
    end
  else next_5 tt
| _ => next_5 tt
end) in
match scrut_3 with
| VC c_ args_ =>
  if (c_ =? "Ok")%string then
    match args_ with
    | [a_7] => (self_1, (VC "Error::FrameUnexpected" []))
    | _ => next_4 tt
    end
  else next_4 tt
| _ => next_4 tt
end)).

(* ---- /repo/src/io_loop/io_loop_handle.rs :: IoLoopHandle.send ---- *)
Definition gen_IoLoopHandle_send (self : val) (message : val) : val * val :=
let '(self_1, v_2) := ext_st "tx.send" [message] self in
let res_3 := v_2 in
match res_3 with
| VC "Ok" [okval_4] =>
(self_1, (VC "Ok" [okval_4]))
| VC "Err" [_] =>
let '(self_6, v_7) := gen_IoLoopHandle_check_recv_for_error self_1 in
(self_6, (VC "Err" [v_7]))
| _ => (self_1, VStuck)
end.

(* ---- /repo/src/io_loop/io_loop_handle.rs :: IoLoopHandle.call_message ---- *)
Definition gen_IoLoopHandle_call_message (self : val) (message : val) : val * val :=
let '(self_1, v_2) := gen_IoLoopHandle_send self message in
let tried_3 := v_2 in
let after_6 := fun okval_4 : val =>
(let '(self_7, v_8) := gen_IoLoopHandle_recv self_1 in
let tried_9 := v_8 in
let after_12 := fun okval_10 : val =>
let scrut_13 := okval_10 in
(let next_14 := fun _ : unit =>
(let next_15 := fun _ : unit =>
(self_7, VStuck) in
(let body_16 := fun _ : unit =>
(self_7, (VC "Err" [VC "Error::FrameUnexpected" []])) in
match scrut_13 with
| VC c_ args_ =>
  if (c_ =? "ChannelMessage::ConsumeOk")%string then
    match args_ with
    | [a_18; a_19] => body_16 tt
    | _ => match scrut_13 with
| VC c_ args_ =>
  if (c_ =? "ChannelMessage::GetOk")%string then
    match args_ with
    | [a_17] => body_16 tt
    | _ => next_15 tt
    end
  else next_15 tt
| _ => next_15 tt
end
    end
  else match scrut_13 with
| VC c_ args_ =>
  if (c_ =? "ChannelMessage::GetOk")%string then
    match args_ with
    | [a_17] => body_16 tt
    | _ => next_15 tt
    end
  else next_15 tt
| _ => next_15 tt
end
| _ => match scrut_13 with
| VC c_ args_ =>
  if (c_ =? "ChannelMessage::GetOk")%string then
    match args_ with
    | [a_17] => body_16 tt
    | _ => next_15 tt
    end
  else next_15 tt
| _ => next_15 tt
end
end)) in
match scrut_13 with
| VC c_ args_ =>
  if (c_ =? "ChannelMessage::Method")%string then
    match args_ with
    | [a_20] => (self_7, (ext "T::try_from" [a_20]))
    | _ => next_14 tt
    end
  else next_14 tt
| _ => next_14 tt
end) in
match tried_9 with
| VC "Err" [err_11] => (self_7, (VC "Err" [err_11]))
| VC "Ok" [okval_10] => after_12 okval_10
| VC "None" [] => (self_7, (VC "None" []))
| VC "Some" [okval_10] => after_12 okval_10
| _ => (self_7, VStuck)
end) in
match tried_3 with
| VC "Err" [err_5] => (self_1, (VC "Err" [err_5]))
| VC "Ok" [okval_4] => after_6 okval_4
| VC "None" [] => (self_1, (VC "None" []))
| VC "Some" [okval_4] => after_6 okval_4
| _ => (self_1, VStuck)
end.

(* ---- /repo/src/io_loop/io_loop_handle.rs :: IoLoopHandle.call_nowait ---- *)
Definition gen_IoLoopHandle_call_nowait (self : val) (method : val) : val * val :=
let v_1 := (ext "make_buf" [self; method]) in
let '(self_2, v_3) := gen_IoLoopHandle_send self (VC "IoLoopMessage::Send" [v_1]) in
(self_2, v_3).

(* ---- /repo/src/io_loop/io_loop_handle.rs :: IoLoopHandle.get ---- *)
Definition gen_IoLoopHandle_get (self : val) (get : val) : val * val :=
let v_1 := (ext "make_buf" [self; (VC "AmqpBasic::Get" [get])]) in
let '(self_2, v_3) := gen_IoLoopHandle_send self (VC "IoLoopMessage::Send" [v_1]) in
let tried_4 := v_3 in
let after_7 := fun okval_5 : val =>
(let '(self_8, v_9) := gen_IoLoopHandle_recv self_2 in
let tried_10 := v_9 in
let after_13 := fun okval_11 : val =>
let scrut_14 := okval_11 in
(let next_15 := fun _ : unit =>
(let next_16 := fun _ : unit =>
(self_8, VStuck) in
(let body_17 := fun _ : unit =>
(self_8, (VC "Err" [VC "Error::FrameUnexpected" []])) in
match scrut_14 with
| VC c_ args_ =>
  if (c_ =? "ChannelMessage::Method")%string then
    match args_ with
    | [a_20] => body_17 tt
    | _ => match scrut_14 with
| VC c_ args_ =>
  if (c_ =? "ChannelMessage::ConsumeOk")%string then
    match args_ with
    | [a_18; a_19] => body_17 tt
    | _ => next_16 tt
    end
  else next_16 tt
| _ => next_16 tt
end
    end
  else match scrut_14 with
| VC c_ args_ =>
  if (c_ =? "ChannelMessage::ConsumeOk")%string then
    match args_ with
    | [a_18; a_19] => body_17 tt
    | _ => next_16 tt
    end
  else next_16 tt
| _ => next_16 tt
end
| _ => match scrut_14 with
| VC c_ args_ =>
  if (c_ =? "ChannelMessage::ConsumeOk")%string then
    match args_ with
    | [a_18; a_19] => body_17 tt
    | _ => next_16 tt
    end
  else next_16 tt
| _ => next_16 tt
end
end)) in
match scrut_14 with
| VC c_ args_ =>
  if (c_ =? "ChannelMessage::GetOk")%string then
    match args_ with
    | [a_21] => (self_8, (VC "Ok" [a_21]))
    | _ => next_15 tt
    end
  else next_15 tt
| _ => next_15 tt
end) in
match tried_10 with
| VC "Err" [err_12] => (self_8, (VC "Err" [err_12]))
| VC "Ok" [okval_11] => after_13 okval_11
| VC "None" [] => (self_8, (VC "None" []))
| VC "Some" [okval_11] => after_13 okval_11
| _ => (self_8, VStuck)
end) in
match tried_4 with
| VC "Err" [err_6] => (self_2, (VC "Err" [err_6]))
| VC "Ok" [okval_5] => after_7 okval_5
| VC "None" [] => (self_2, (VC "None" []))
| VC "Some" [okval_5] => after_7 okval_5
| _ => (self_2, VStuck)
end.

(* ---- /repo/src/io_loop/io_loop_handle.rs :: IoLoopHandle.consume ---- *)
Definition gen_IoLoopHandle_consume (self : val) (consume : val) : val * val :=
let v_1 := (ext "make_buf" [self; (VC "AmqpBasic::Consume" [consume])]) in
let '(self_2, v_3) := gen_IoLoopHandle_send self (VC "IoLoopMessage::Send" [v_1]) in
let tried_4 := v_3 in
let after_7 := fun okval_5 : val =>
(let '(self_8, v_9) := gen_IoLoopHandle_recv self_2 in
let tried_10 := v_9 in
let after_13 := fun okval_11 : val =>
let scrut_14 := okval_11 in
(let next_15 := fun _ : unit =>
(let next_16 := fun _ : unit =>
(self_8, VStuck) in
(let body_17 := fun _ : unit =>
(self_8, (VC "Err" [VC "Error::FrameUnexpected" []])) in
match scrut_14 with
| VC c_ args_ =>
  if (c_ =? "ChannelMessage::Method")%string then
    match args_ with
    | [a_19] => body_17 tt
    | _ => match scrut_14 with
| VC c_ args_ =>
  if (c_ =? "ChannelMessage::GetOk")%string then
    match args_ with
    | [a_18] => body_17 tt
    | _ => next_16 tt
    end
  else next_16 tt
| _ => next_16 tt
end
    end
  else match scrut_14 with
| VC c_ args_ =>
  if (c_ =? "ChannelMessage::GetOk")%string then
    match args_ with
    | [a_18] => body_17 tt
    | _ => next_16 tt
    end
  else next_16 tt
| _ => next_16 tt
end
| _ => match scrut_14 with
| VC c_ args_ =>
  if (c_ =? "ChannelMessage::GetOk")%string then
    match args_ with
    | [a_18] => body_17 tt
    | _ => next_16 tt
    end
  else next_16 tt
| _ => next_16 tt
end
end)) in
match scrut_14 with
| VC c_ args_ =>
  if (c_ =? "ChannelMessage::ConsumeOk")%string then
    match args_ with
    | [a_20; a_21] => (self_8, (VC "Ok" [(VC "tuple" [a_20; a_21])]))
    | _ => next_15 tt
    end
  else next_15 tt
| _ => next_15 tt
end) in
match tried_10 with
| VC "Err" [err_12] => (self_8, (VC "Err" [err_12]))
| VC "Ok" [okval_11] => after_13 okval_11
| VC "None" [] => (self_8, (VC "None" []))
| VC "Some" [okval_11] => after_13 okval_11
| _ => (self_8, VStuck)
end) in
match tried_4 with
| VC "Err" [err_6] => (self_2, (VC "Err" [err_6]))
| VC "Ok" [okval_5] => after_7 okval_5
| VC "None" [] => (self_2, (VC "None" []))
| VC "Some" [okval_5] => after_7 okval_5
| _ => (self_2, VStuck)
end.

End Gen.
