(* GENERATED on every run by tools/rs2sm.py from /repo/src/io_loop/mod.rs - do not edit.
   The subset of Rust it accepts and the meaning it gives to it are stated in that file. *)
From Coq Require Import String.
From Amq Require Import Lib.Base Lib.RsVal.
Open Scope string_scope.
Open Scope N_scope.

Section Gen.
(* T::new of the generic functions: which value it builds depends on the type parameter, that is,
   on the kind of its `start` argument; the theorems about these definitions quantify over it *)
Variable t_new : list val -> val.
(* the functions these call that are not translated here (by name, receiver first): the theorems
   state what they assume of them *)
Variable ext : string -> list val -> val.
(* operations on the channel ends a handle holds (self.tx.send(m), self.rx.recv()): given the name,
   the arguments and self, the result and self afterwards *)
Variable ext_st : string -> list val -> val -> val * val.


(* ---- /repo/src/io_loop/mod.rs :: Inner.write_to_stream ---- *)
Fixpoint gen_Inner_write_to_stream_loop1 (fuel : nat) (self_l : val) (len_l : val) (pos_l : val) (stream_l : val) {struct fuel} : val * val :=
match fuel with
| O => (self_l, VStuck)
| S fuel_ =>
(if (v_ltb pos_l len_l) then
(let '(self_3, v_4) := ext_st "stream.write" [stream_l; (v_drop pos_l (v_field "outbuf" self_l))] self_l in
let scrut_5 := v_4 in
(let next_6 := fun _ : unit =>
(let next_7 := fun _ : unit =>
(self_3, VStuck) in
match scrut_5 with
| VC c_ args_ =>
  if (c_ =? "Err")%string then
    match args_ with
    | [a_8] => (let scrut_9 := (ext "kind" [a_8]) in
(let next_10 := fun _ : unit =>
(let next_11 := fun _ : unit =>
(self_3, VStuck) in
(self_3, (v_context "Error::IoErrorWritingSocket" (VC "Err" [a_8])))) in
match scrut_9 with
| VC c_ args_ =>
  if (c_ =? "io::ErrorKind::WouldBlock")%string then
    match args_ with
    | [] => let '(self_12, v_13) := ext_st "outbuf.drain_written" [pos_l] self_3 in
(self_12, (VC "Ok" [(VC "()" [])]))
    | _ => next_10 tt
    end
  else next_10 tt
| _ => next_10 tt
end))
    | _ => next_7 tt
    end
  else next_7 tt
| _ => next_7 tt
end) in
match scrut_5 with
| VC c_ args_ =>
  if (c_ =? "Ok")%string then
    match args_ with
    | [a_14] => let '(self_15, v_16) := ext_st "heartbeats.record_tx_activity" [] self_3 in
let v_17 := a_14 in
let pos_18 := (v_add pos_l v_17) in
(gen_Inner_write_to_stream_loop1 fuel_ self_15 len_l pos_18 stream_l)
    | _ => next_6 tt
    end
  else next_6 tt
| _ => next_6 tt
end))
else
let '(self_19, v_20) := ext_st "outbuf.clear" [] self_l in
(self_19, (VC "Ok" [(VC "()" [])])))
end.

Definition gen_Inner_write_to_stream (fuel : nat) (self : val) (stream : val) : val * val :=
let v_1 := (v_len (v_field "outbuf" self)) in
let v_2 := (VN 0) in
(gen_Inner_write_to_stream_loop1 fuel self v_1 v_2 stream).

End Gen.
