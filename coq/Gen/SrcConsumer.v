(* GENERATED on every run by tools/rs2sm.py from /repo/src/consumer.rs - do not edit.
   The subset of Rust it accepts and the meaning it gives to it are stated in that file. *)
From Coq Require Import String.
From Amq Require Import Lib.Base Lib.RsVal.
Open Scope string_scope.
Open Scope N_scope.

Section Gen.
(* T::new of the generic functions: which value it builds depends on the type parameter, that is,
   on the kind of its `start` argument; the theorems about these definitions quantify over it *)
Variable t_new : list val -> val.
(* the functions these call that are not translated here (by name, receiver first): the theorems
   state what they assume of them *)
Variable ext : string -> list val -> val.
(* operations on the channel ends a handle holds (self.tx.send(m), self.rx.recv()): given the name,
   the arguments and self, the result and self afterwards *)
Variable ext_st : string -> list val -> val -> val * val.


(* ---- /repo/src/consumer.rs :: Consumer.cancel ---- *)
Definition gen_Consumer_cancel (self : val) : val * val :=
(if (v_is_true (v_field "cancelled" self)) then
(self, (VC "Ok" [(VC "()" [])]))
else
let self_1 := (v_set "cancelled" (VC "true" []) self) in
let '(self_2, v_3) := ext_st "channel.basic_cancel" [self_1] self_1 in
(self_2, v_3)).

(* ---- /repo/src/consumer.rs :: Consumer.drop ---- *)
Definition gen_Consumer_drop (self : val) : val * val :=
let '(self_1, v_2) := gen_Consumer_cancel self in
let v_3 := v_2 in
(self_1, (VC "()" [])).

End Gen.
