(* GENERATED on every run by tools/rs2sm.py from /repo/src/exchange.rs, /repo/src/queue.rs - do not edit.
   The subset of Rust it accepts and the meaning it gives to it are stated in that file. *)
From Coq Require Import String.
From Amq Require Import Lib.Base Lib.RsVal.
Open Scope string_scope.
Open Scope N_scope.

Section Gen.
(* T::new of the generic functions: which value it builds depends on the type parameter, that is,
   on the kind of its `start` argument; the theorems about these definitions quantify over it *)
Variable t_new : list val -> val.
(* the functions these call that are not translated here (by name, receiver first): the theorems
   state what they assume of them *)
Variable ext : string -> list val -> val.
(* operations on the channel ends a handle holds (self.tx.send(m), self.rx.recv()): given the name,
   the arguments and self, the result and self afterwards *)
Variable ext_st : string -> list val -> val -> val * val.


(* ---- /repo/src/queue.rs :: QueueDeclareOptions.into_declare ---- *)
Definition gen_QueueDeclareOptions_into_declare (self : val) (queue : val) (passive : val) (nowait : val) : val :=
(VR [("ticket", (VN 0)); ("queue", queue); ("passive", passive); ("durable", (v_field "durable" self)); ("exclusive", (v_field "exclusive" self)); ("auto_delete", (v_field "auto_delete" self)); ("nowait", nowait); ("arguments", (v_field "arguments" self))]).

(* ---- /repo/src/queue.rs :: QueueDeleteOptions.into_delete ---- *)
Definition gen_QueueDeleteOptions_into_delete (self : val) (queue : val) (nowait : val) : val :=
(VR [("ticket", (VN 0)); ("queue", queue); ("if_unused", (v_field "if_unused" self)); ("if_empty", (v_field "if_empty" self)); ("nowait", nowait)]).

(* ---- /repo/src/exchange.rs :: ExchangeDeclareOptions.into_declare ---- *)
Definition gen_ExchangeDeclareOptions_into_declare (self : val) (type_ : val) (name : val) (passive : val) (nowait : val) : val :=
(VR [("ticket", (VN 0)); ("exchange", name); ("passive", passive); ("type_", type_); ("durable", (v_field "durable" self)); ("auto_delete", (v_field "auto_delete" self)); ("internal", (v_field "internal" self)); ("nowait", nowait); ("arguments", (v_field "arguments" self))]).

End Gen.
