(* GENERATED on every run by tools/rs2sm.py from /repo/src/io_loop/mod.rs - do not edit.
   The subset of Rust it accepts and the meaning it gives to it are stated in that file. *)
From Coq Require Import String.
From Amq Require Import Lib.Base Lib.RsVal.
Open Scope string_scope.
Open Scope N_scope.

Section Gen.
(* T::new of the generic functions: which value it builds depends on the type parameter, that is,
   on the kind of its `start` argument; the theorems about these definitions quantify over it *)
Variable t_new : list val -> val.
(* the functions these call that are not translated here (by name, receiver first): the theorems
   state what they assume of them *)
Variable ext : string -> list val -> val.
(* operations on the channel ends a handle holds (self.tx.send(m), self.rx.recv()): given the name,
   the arguments and self, the result and self afterwards *)
Variable ext_st : string -> list val -> val -> val * val.


(* ---- /repo/src/io_loop/mod.rs :: Inner.deregister_nonzero_channels ---- *)
Fixpoint gen_Inner_deregister_nonzero_channels_loop1 (items_ : list val) (self_l : val) (poll_l : val) {struct items_} : val * val :=
match items_ with
| [] =>
let self_11 := (v_set "channels_are_registered" (VC "false" []) self_l) in
(self_11, (VC "Ok" [(VC "()" [])]))
| x_ :: rest_ =>
match x_ with
| VC c_ args_ =>
  if (c_ =? "tuple")%string then
    match args_ with
    | [a_3; a_4] => let '(self_5, v_6) := ext_st "poll.deregister" [poll_l; (v_field "rx" a_4)] self_l in
let tried_7 := (v_context "Error::DeregisterWithPollHandle" v_6) in
let after_10 := fun okval_8 : val =>
(gen_Inner_deregister_nonzero_channels_loop1 rest_ self_5 poll_l) in
match tried_7 with
| VC "Err" [err_9] => (self_5, (VC "Err" [err_9]))
| VC "Ok" [okval_8] => after_10 okval_8
| VC "None" [] => (self_5, (VC "None" []))
| VC "Some" [okval_8] => after_10 okval_8
| _ => (self_5, VStuck)
end
    | _ => (self_l, VStuck)
    end
  else (self_l, VStuck)
| _ => (self_l, VStuck)
end
end.

Definition gen_Inner_deregister_nonzero_channels (self : val) (poll : val) : val * val :=
let '(self_1, v_2) := ext_st "chan_slots.iter" [] self in
(gen_Inner_deregister_nonzero_channels_loop1 (v_items v_2) self_1 poll).

(* ---- /repo/src/io_loop/mod.rs :: Inner.reregister_nonzero_channels ---- *)
Fixpoint gen_Inner_reregister_nonzero_channels_loop1 (items_ : list val) (self_l : val) (poll_l : val) {struct items_} : val * val :=
match items_ with
| [] =>
let self_11 := (v_set "channels_are_registered" (VC "true" []) self_l) in
let self_12 := (v_set "channels_need_repoll" (VC "false" []) self_11) in
(self_12, (VC "Ok" [(VC "()" [])]))
| x_ :: rest_ =>
match x_ with
| VC c_ args_ =>
  if (c_ =? "tuple")%string then
    match args_ with
    | [a_3; a_4] => let '(self_5, v_6) := ext_st "poll.reregister" [poll_l; (v_field "rx" a_4); (VC "Token" [a_3]); (ext "Ready::readable" []); (ext "PollOpt::edge" [])] self_l in
let tried_7 := (v_context "Error::RegisterWithPollHandle" v_6) in
let after_10 := fun okval_8 : val =>
(gen_Inner_reregister_nonzero_channels_loop1 rest_ self_5 poll_l) in
match tried_7 with
| VC "Err" [err_9] => (self_5, (VC "Err" [err_9]))
| VC "Ok" [okval_8] => after_10 okval_8
| VC "None" [] => (self_5, (VC "None" []))
| VC "Some" [okval_8] => after_10 okval_8
| _ => (self_5, VStuck)
end
    | _ => (self_l, VStuck)
    end
  else (self_l, VStuck)
| _ => (self_l, VStuck)
end
end.

Definition gen_Inner_reregister_nonzero_channels (self : val) (poll : val) : val * val :=
let '(self_1, v_2) := ext_st "chan_slots.iter" [] self in
(gen_Inner_reregister_nonzero_channels_loop1 (v_items v_2) self_1 poll).

End Gen.
