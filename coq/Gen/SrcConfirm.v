(* GENERATED on every run by tools/rs2sm.py from /repo/src/confirm.rs - do not edit.
   The subset of Rust it accepts and the meaning it gives to it are stated in that file. *)
From Coq Require Import String.
From Amq Require Import Lib.Base Lib.RsVal.
Open Scope string_scope.
Open Scope N_scope.

Section Gen.
(* T::new of the generic functions: which value it builds depends on the type parameter, that is,
   on the kind of its `start` argument; the theorems about these definitions quantify over it *)
Variable t_new : list val -> val.
(* the functions these call that are not translated here (by name, receiver first): the theorems
   state what they assume of them *)
Variable ext : string -> list val -> val.
(* operations on the channel ends a handle holds (self.tx.send(m), self.rx.recv()): given the name,
   the arguments and self, the result and self afterwards *)
Variable ext_st : string -> list val -> val -> val * val.


(* ---- /repo/src/confirm.rs :: ConfirmSmoother.new_iter ---- *)
Definition gen_ConfirmSmoother_new_iter (self : val) (payload : val) (to_confirm : val) : val * val :=
(self, (VR [("parent", self); ("payload", payload); ("next", (VC "None" [])); ("to_confirm", (VC "closure" [to_confirm])); ("done", (VC "false" []))])).

(* ---- /repo/src/confirm.rs :: ConfirmSmoother.process ---- *)
Definition gen_ConfirmSmoother_process (self : val) (confirm : val) : val * val :=
(let scrut_1 := confirm in
(let next_2 := fun _ : unit =>
(let next_3 := fun _ : unit =>
(self, VStuck) in
match scrut_1 with
| VC c_ args_ =>
  if (c_ =? "Confirm::Nack")%string then
    match args_ with
    | [a_4] => let '(self_5, v_6) := gen_ConfirmSmoother_new_iter self a_4 (VC "Confirm::Nack" []) in
(self_5, v_6)
    | _ => next_3 tt
    end
  else next_3 tt
| _ => next_3 tt
end) in
match scrut_1 with
| VC c_ args_ =>
  if (c_ =? "Confirm::Ack")%string then
    match args_ with
    | [a_7] => let '(self_8, v_9) := gen_ConfirmSmoother_new_iter self a_7 (VC "Confirm::Ack" []) in
(self_8, v_9)
    | _ => next_2 tt
    end
  else next_2 tt
| _ => next_2 tt
end)).

(* ---- /repo/src/confirm.rs :: Iter.next ---- *)
Definition gen_Iter_next (self : val) : val * val :=
(if (v_is_true (v_field "done" self)) then
(self, (VC "None" []))
else
let v_1 := (v_field "payload" self) in
(if (v_eqb (v_field "delivery_tag" v_1) (v_field "expected" (v_field "parent" self))) then
let '(self_2, v_3) := ext_st "out_of_order.remove" [(v_field "delivery_tag" v_1)] self in
let opt_4 := v_3 in
match opt_4 with
| VC "Some" [somev_5] =>
let v_6 := somev_5 in
let self_7 := (v_set "parent" (v_set "expected" (v_add (v_field "expected" (v_field "parent" self_2)) (VN 1)) (v_field "parent" self_2)) self_2) in
let '(self_8, v_9) := ext_st "out_of_order.remove" [(v_field "expected" (v_field "parent" self_7))] self_7 in
let self_10 := (v_set "next" v_9 self_8) in
(self_10, (VC "Some" [v_6]))
| VC "None" [] =>
let v_11 := (ext "to_confirm" [self_2; (v_field "delivery_tag" v_1)]) in
let self_12 := (v_set "parent" (v_set "expected" (v_add (v_field "expected" (v_field "parent" self_2)) (VN 1)) (v_field "parent" self_2)) self_2) in
let '(self_13, v_14) := ext_st "out_of_order.remove" [(v_field "expected" (v_field "parent" self_12))] self_12 in
let self_15 := (v_set "next" v_14 self_13) in
(self_15, (VC "Some" [v_11]))
| _ => (self_2, VStuck)
end
else
(if (v_ltb (v_field "expected" (v_field "parent" self)) (v_field "delivery_tag" v_1)) then
(if (v_is_true (v_field "multiple" v_1)) then
let v_16 := (v_field "expected" (v_field "parent" self)) in
let '(self_17, v_18) := ext_st "out_of_order.remove" [v_16] self in
let opt_19 := v_18 in
match opt_19 with
| VC "Some" [somev_20] =>
let v_21 := somev_20 in
let self_22 := (v_set "parent" (v_set "expected" (v_add (v_field "expected" (v_field "parent" self_17)) (VN 1)) (v_field "parent" self_17)) self_17) in
(self_22, (VC "Some" [v_21]))
| VC "None" [] =>
let v_23 := (ext "to_confirm" [self_17; v_16]) in
let self_24 := (v_set "parent" (v_set "expected" (v_add (v_field "expected" (v_field "parent" self_17)) (VN 1)) (v_field "parent" self_17)) self_17) in
(self_24, (VC "Some" [v_23]))
| _ => (self_17, VStuck)
end
else
let '(self_25, v_26) := ext_st "out_of_order.insert" [(v_field "delivery_tag" v_1); (ext "to_confirm" [self; (v_field "delivery_tag" v_1)])] self in
let self_27 := (v_set "done" (VC "true" []) self_25) in
(self_27, (VC "None" [])))
else
(let taken_28 := v_field "next" self in
let self_29 := v_set "next" (VC "None" []) self in
(let next_30 := fun _ : unit =>
(let next_31 := fun _ : unit =>
(self_29, VStuck) in
match taken_28 with
| VC c_ args_ =>
  if (c_ =? "None")%string then
    match args_ with
    | [] => let self_32 := (v_set "done" (VC "true" []) self_29) in
(self_32, (VC "None" []))
    | _ => next_31 tt
    end
  else next_31 tt
| _ => next_31 tt
end) in
match taken_28 with
| VC c_ args_ =>
  if (c_ =? "Some")%string then
    match args_ with
    | [a_33] => let self_34 := (v_set "parent" (v_set "expected" (v_add (v_field "expected" (v_field "parent" self_29)) (VN 1)) (v_field "parent" self_29)) self_29) in
let '(self_35, v_36) := ext_st "out_of_order.remove" [(v_field "expected" (v_field "parent" self_34))] self_34 in
let self_37 := (v_set "next" v_36 self_35) in
(self_37, (VC "Some" [a_33]))
    | _ => next_30 tt
    end
  else next_30 tt
| _ => next_30 tt
end))))).

(* ---- /repo/src/confirm.rs :: Iter.drop ---- *)
Fixpoint gen_Iter_drop_loop1 (fuel : nat) (self_l : val) {struct fuel} : val * val :=
match fuel with
| O => (self_l, VStuck)
| S fuel_ =>
(if (negb (v_is_true (v_field "done" self_l))) then
let '(self_1, v_2) := gen_Iter_next self_l in
let v_3 := v_2 in
(gen_Iter_drop_loop1 fuel_ self_1)
else
(self_l, (VC "()" [])))
end.

Definition gen_Iter_drop (fuel : nat) (self : val) : val * val :=
(gen_Iter_drop_loop1 fuel self).

End Gen.
