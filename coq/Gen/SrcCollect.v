(* GENERATED on every run by tools/rs2sm.py from /repo/src/io_loop/content_collector.rs - do not edit.
   The subset of Rust it accepts and the meaning it gives to it are stated in that file. *)
From Coq Require Import String.
From Amq Require Import Lib.Base Lib.RsVal.
Open Scope N_scope.

Section Gen.
(* T::new of the generic functions: which value it builds depends on the type parameter, that is,
   on the kind of its `start` argument; the theorems about these definitions quantify over it *)
Variable t_new : list val -> val.
(* the functions these call that are not translated here (by name, receiver first): the theorems
   state what they assume of them *)
Variable ext : string -> list val -> val.


(* ---- /repo/src/io_loop/content_collector.rs :: State.collect_header ---- *)
Definition gen_State_collect_header (self : val) (channel_id : val) (header : val) : val :=
(let scrut_1 := self in
(let next_2 := fun _ : unit =>
(let next_3 := fun _ : unit =>
VStuck in
match scrut_1 with
| VC c_ args_ =>
  if (c_ =? "State::Body")%string then
    match args_ with
    | [a_4; a_5; a_6] => (VC "Err" [VC "FrameUnexpected" []])
    | _ => next_3 tt
    end
  else next_3 tt
| _ => next_3 tt
end) in
match scrut_1 with
| VC c_ args_ =>
  if (c_ =? "State::Start")%string then
    match args_ with
    | [a_7] => (if v_eqb (v_field "body_size" header) (VN 0) then
(VC "Ok" [(VC "Content::Done" [(t_new [channel_id; a_7; (VBytes []); (v_field "properties" header)])])])
else
let v_8 := (v_min (v_field "body_size" header) (VN 1048576)) in
let v_9 := (VBytes []) in
(VC "Ok" [(VC "Content::NeedMore" [(VC "State::Body" [a_7; header; v_9])])]))
    | _ => next_2 tt
    end
  else next_2 tt
| _ => next_2 tt
end)).

(* TRANSLATION FAILED for State.collect_body: expected '==', found '>=' (at token 57) *)
Definition gen_State_collect_body : val := translation_failed.

(* ---- /repo/src/io_loop/content_collector.rs :: ContentCollector.collect_deliver ---- *)
Definition gen_ContentCollector_collect_deliver (self : val) (deliver : val) : val * val :=
(let taken_1 := v_field "kind" self in
let self_2 := v_set "kind" (VC "None" []) self in
(let next_3 := fun _ : unit =>
(let next_4 := fun _ : unit =>
(self_2, VStuck) in
match taken_1 with
| VC c_ args_ =>
  if (c_ =? "Some")%string then
    match args_ with
    | [a_5] => (self_2, (VC "Err" [VC "FrameUnexpected" []]))
    | _ => next_4 tt
    end
  else next_4 tt
| _ => next_4 tt
end) in
match taken_1 with
| VC c_ args_ =>
  if (c_ =? "None")%string then
    match args_ with
    | [] => let self_6 := v_set "kind" (VC "Some" [(VC "Kind::Delivery" [(VC "State::Start" [deliver])])]) self_2 in
(self_6, (VC "Ok" [(VC "()" [])]))
    | _ => next_3 tt
    end
  else next_3 tt
| _ => next_3 tt
end)).

(* ---- /repo/src/io_loop/content_collector.rs :: ContentCollector.collect_return ---- *)
Definition gen_ContentCollector_collect_return (self : val) (return_ : val) : val * val :=
(let taken_1 := v_field "kind" self in
let self_2 := v_set "kind" (VC "None" []) self in
(let next_3 := fun _ : unit =>
(let next_4 := fun _ : unit =>
(self_2, VStuck) in
match taken_1 with
| VC c_ args_ =>
  if (c_ =? "Some")%string then
    match args_ with
    | [a_5] => (self_2, (VC "Err" [VC "FrameUnexpected" []]))
    | _ => next_4 tt
    end
  else next_4 tt
| _ => next_4 tt
end) in
match taken_1 with
| VC c_ args_ =>
  if (c_ =? "None")%string then
    match args_ with
    | [] => let self_6 := v_set "kind" (VC "Some" [(VC "Kind::Return" [(VC "State::Start" [return_])])]) self_2 in
(self_6, (VC "Ok" [(VC "()" [])]))
    | _ => next_3 tt
    end
  else next_3 tt
| _ => next_3 tt
end)).

(* ---- /repo/src/io_loop/content_collector.rs :: ContentCollector.collect_get ---- *)
Definition gen_ContentCollector_collect_get (self : val) (get_ok : val) : val * val :=
(let taken_1 := v_field "kind" self in
let self_2 := v_set "kind" (VC "None" []) self in
(let next_3 := fun _ : unit =>
(let next_4 := fun _ : unit =>
(self_2, VStuck) in
match taken_1 with
| VC c_ args_ =>
  if (c_ =? "Some")%string then
    match args_ with
    | [a_5] => (self_2, (VC "Err" [VC "FrameUnexpected" []]))
    | _ => next_4 tt
    end
  else next_4 tt
| _ => next_4 tt
end) in
match taken_1 with
| VC c_ args_ =>
  if (c_ =? "None")%string then
    match args_ with
    | [] => let self_6 := v_set "kind" (VC "Some" [(VC "Kind::Get" [(VC "State::Start" [get_ok])])]) self_2 in
(self_6, (VC "Ok" [(VC "()" [])]))
    | _ => next_3 tt
    end
  else next_3 tt
| _ => next_3 tt
end)).

(* ---- /repo/src/io_loop/content_collector.rs :: ContentCollector.collect_header ---- *)
Definition gen_ContentCollector_collect_header (self : val) (header : val) : val * val :=
(let taken_1 := v_field "kind" self in
let self_2 := v_set "kind" (VC "None" []) self in
(let next_3 := fun _ : unit =>
(let next_4 := fun _ : unit =>
(let next_5 := fun _ : unit =>
(let next_6 := fun _ : unit =>
(self_2, VStuck) in
match taken_1 with
| VC c_ args_ =>
  if (c_ =? "None")%string then
    match args_ with
    | [] => (self_2, (VC "Err" [VC "FrameUnexpected" []]))
    | _ => next_6 tt
    end
  else next_6 tt
| _ => next_6 tt
end) in
match taken_1 with
| VC c_ args_ =>
  if (c_ =? "Some")%string then
    match args_ with
    | [a_7] => match a_7 with
| VC c_ args_ =>
  if (c_ =? "Kind::Get")%string then
    match args_ with
    | [a_8] => (let tried_9 := (gen_State_collect_header a_8 (v_field "channel_id" self_2) header) in
match tried_9 with
| VC "Err" [err_11] => (self_2, (VC "Err" [err_11]))
| VC "Ok" [okval_10] =>
(let next_12 := fun _ : unit =>
(let next_13 := fun _ : unit =>
(self_2, VStuck) in
match okval_10 with
| VC c_ args_ =>
  if (c_ =? "Content::NeedMore")%string then
    match args_ with
    | [a_14] => let self_15 := v_set "kind" (VC "Some" [(VC "Kind::Get" [a_14])]) self_2 in
(self_15, (VC "Ok" [(VC "None" [])]))
    | _ => next_13 tt
    end
  else next_13 tt
| _ => next_13 tt
end) in
match okval_10 with
| VC c_ args_ =>
  if (c_ =? "Content::Done")%string then
    match args_ with
    | [a_16] => let self_17 := v_set "kind" (VC "None" []) self_2 in
(self_17, (VC "Ok" [(VC "Some" [(VC "CollectorResult::Get" [a_16])])]))
    | _ => next_12 tt
    end
  else next_12 tt
| _ => next_12 tt
end)
| _ => (self_2, VStuck)
end)
    | _ => next_5 tt
    end
  else next_5 tt
| _ => next_5 tt
end
    | _ => next_5 tt
    end
  else next_5 tt
| _ => next_5 tt
end) in
match taken_1 with
| VC c_ args_ =>
  if (c_ =? "Some")%string then
    match args_ with
    | [a_18] => match a_18 with
| VC c_ args_ =>
  if (c_ =? "Kind::Return")%string then
    match args_ with
    | [a_19] => (let tried_20 := (gen_State_collect_header a_19 (v_field "channel_id" self_2) header) in
match tried_20 with
| VC "Err" [err_22] => (self_2, (VC "Err" [err_22]))
| VC "Ok" [okval_21] =>
(let next_23 := fun _ : unit =>
(let next_24 := fun _ : unit =>
(self_2, VStuck) in
match okval_21 with
| VC c_ args_ =>
  if (c_ =? "Content::NeedMore")%string then
    match args_ with
    | [a_25] => let self_26 := v_set "kind" (VC "Some" [(VC "Kind::Return" [a_25])]) self_2 in
(self_26, (VC "Ok" [(VC "None" [])]))
    | _ => next_24 tt
    end
  else next_24 tt
| _ => next_24 tt
end) in
match okval_21 with
| VC c_ args_ =>
  if (c_ =? "Content::Done")%string then
    match args_ with
    | [a_27] => let self_28 := v_set "kind" (VC "None" []) self_2 in
(self_28, (VC "Ok" [(VC "Some" [(VC "CollectorResult::Return" [a_27])])]))
    | _ => next_23 tt
    end
  else next_23 tt
| _ => next_23 tt
end)
| _ => (self_2, VStuck)
end)
    | _ => next_4 tt
    end
  else next_4 tt
| _ => next_4 tt
end
    | _ => next_4 tt
    end
  else next_4 tt
| _ => next_4 tt
end) in
match taken_1 with
| VC c_ args_ =>
  if (c_ =? "Some")%string then
    match args_ with
    | [a_29] => match a_29 with
| VC c_ args_ =>
  if (c_ =? "Kind::Delivery")%string then
    match args_ with
    | [a_30] => (let tried_31 := (gen_State_collect_header a_30 (v_field "channel_id" self_2) header) in
match tried_31 with
| VC "Err" [err_33] => (self_2, (VC "Err" [err_33]))
| VC "Ok" [okval_32] =>
(let next_34 := fun _ : unit =>
(let next_35 := fun _ : unit =>
(self_2, VStuck) in
match okval_32 with
| VC c_ args_ =>
  if (c_ =? "Content::NeedMore")%string then
    match args_ with
    | [a_36] => let self_37 := v_set "kind" (VC "Some" [(VC "Kind::Delivery" [a_36])]) self_2 in
(self_37, (VC "Ok" [(VC "None" [])]))
    | _ => next_35 tt
    end
  else next_35 tt
| _ => next_35 tt
end) in
match okval_32 with
| VC c_ args_ =>
  if (c_ =? "Content::Done")%string then
    match args_ with
    | [a_38] => match a_38 with
| VC c_ args_ =>
  if (c_ =? "tuple")%string then
    match args_ with
    | [a_39; a_40] => let self_41 := v_set "kind" (VC "None" []) self_2 in
(self_41, (VC "Ok" [(VC "Some" [(VC "CollectorResult::Delivery" [(VC "tuple" [a_39; a_40])])])]))
    | _ => next_34 tt
    end
  else next_34 tt
| _ => next_34 tt
end
    | _ => next_34 tt
    end
  else next_34 tt
| _ => next_34 tt
end)
| _ => (self_2, VStuck)
end)
    | _ => next_3 tt
    end
  else next_3 tt
| _ => next_3 tt
end
    | _ => next_3 tt
    end
  else next_3 tt
| _ => next_3 tt
end)).

(* ---- /repo/src/io_loop/content_collector.rs :: ContentCollector.collect_body ---- *)
Definition gen_ContentCollector_collect_body (self : val) (body : val) : val * val :=
(let taken_1 := v_field "kind" self in
let self_2 := v_set "kind" (VC "None" []) self in
(let next_3 := fun _ : unit =>
(let next_4 := fun _ : unit =>
(let next_5 := fun _ : unit =>
(let next_6 := fun _ : unit =>
(self_2, VStuck) in
match taken_1 with
| VC c_ args_ =>
  if (c_ =? "None")%string then
    match args_ with
    | [] => (self_2, (VC "Err" [VC "FrameUnexpected" []]))
    | _ => next_6 tt
    end
  else next_6 tt
| _ => next_6 tt
end) in
match taken_1 with
| VC c_ args_ =>
  if (c_ =? "Some")%string then
    match args_ with
    | [a_7] => match a_7 with
| VC c_ args_ =>
  if (c_ =? "Kind::Get")%string then
    match args_ with
    | [a_8] => (let tried_9 := (ext "collect_body" [a_8; (v_field "channel_id" self_2); body]) in
match tried_9 with
| VC "Err" [err_11] => (self_2, (VC "Err" [err_11]))
| VC "Ok" [okval_10] =>
(let next_12 := fun _ : unit =>
(let next_13 := fun _ : unit =>
(self_2, VStuck) in
match okval_10 with
| VC c_ args_ =>
  if (c_ =? "Content::NeedMore")%string then
    match args_ with
    | [a_14] => let self_15 := v_set "kind" (VC "Some" [(VC "Kind::Get" [a_14])]) self_2 in
(self_15, (VC "Ok" [(VC "None" [])]))
    | _ => next_13 tt
    end
  else next_13 tt
| _ => next_13 tt
end) in
match okval_10 with
| VC c_ args_ =>
  if (c_ =? "Content::Done")%string then
    match args_ with
    | [a_16] => let self_17 := v_set "kind" (VC "None" []) self_2 in
(self_17, (VC "Ok" [(VC "Some" [(VC "CollectorResult::Get" [a_16])])]))
    | _ => next_12 tt
    end
  else next_12 tt
| _ => next_12 tt
end)
| _ => (self_2, VStuck)
end)
    | _ => next_5 tt
    end
  else next_5 tt
| _ => next_5 tt
end
    | _ => next_5 tt
    end
  else next_5 tt
| _ => next_5 tt
end) in
match taken_1 with
| VC c_ args_ =>
  if (c_ =? "Some")%string then
    match args_ with
    | [a_18] => match a_18 with
| VC c_ args_ =>
  if (c_ =? "Kind::Return")%string then
    match args_ with
    | [a_19] => (let tried_20 := (ext "collect_body" [a_19; (v_field "channel_id" self_2); body]) in
match tried_20 with
| VC "Err" [err_22] => (self_2, (VC "Err" [err_22]))
| VC "Ok" [okval_21] =>
(let next_23 := fun _ : unit =>
(let next_24 := fun _ : unit =>
(self_2, VStuck) in
match okval_21 with
| VC c_ args_ =>
  if (c_ =? "Content::NeedMore")%string then
    match args_ with
    | [a_25] => let self_26 := v_set "kind" (VC "Some" [(VC "Kind::Return" [a_25])]) self_2 in
(self_26, (VC "Ok" [(VC "None" [])]))
    | _ => next_24 tt
    end
  else next_24 tt
| _ => next_24 tt
end) in
match okval_21 with
| VC c_ args_ =>
  if (c_ =? "Content::Done")%string then
    match args_ with
    | [a_27] => let self_28 := v_set "kind" (VC "None" []) self_2 in
(self_28, (VC "Ok" [(VC "Some" [(VC "CollectorResult::Return" [a_27])])]))
    | _ => next_23 tt
    end
  else next_23 tt
| _ => next_23 tt
end)
| _ => (self_2, VStuck)
end)
    | _ => next_4 tt
    end
  else next_4 tt
| _ => next_4 tt
end
    | _ => next_4 tt
    end
  else next_4 tt
| _ => next_4 tt
end) in
match taken_1 with
| VC c_ args_ =>
  if (c_ =? "Some")%string then
    match args_ with
    | [a_29] => match a_29 with
| VC c_ args_ =>
  if (c_ =? "Kind::Delivery")%string then
    match args_ with
    | [a_30] => (let tried_31 := (ext "collect_body" [a_30; (v_field "channel_id" self_2); body]) in
match tried_31 with
| VC "Err" [err_33] => (self_2, (VC "Err" [err_33]))
| VC "Ok" [okval_32] =>
(let next_34 := fun _ : unit =>
(let next_35 := fun _ : unit =>
(self_2, VStuck) in
match okval_32 with
| VC c_ args_ =>
  if (c_ =? "Content::NeedMore")%string then
    match args_ with
    | [a_36] => let self_37 := v_set "kind" (VC "Some" [(VC "Kind::Delivery" [a_36])]) self_2 in
(self_37, (VC "Ok" [(VC "None" [])]))
    | _ => next_35 tt
    end
  else next_35 tt
| _ => next_35 tt
end) in
match okval_32 with
| VC c_ args_ =>
  if (c_ =? "Content::Done")%string then
    match args_ with
    | [a_38] => match a_38 with
| VC c_ args_ =>
  if (c_ =? "tuple")%string then
    match args_ with
    | [a_39; a_40] => let self_41 := v_set "kind" (VC "None" []) self_2 in
(self_41, (VC "Ok" [(VC "Some" [(VC "CollectorResult::Delivery" [(VC "tuple" [a_39; a_40])])])]))
    | _ => next_34 tt
    end
  else next_34 tt
| _ => next_34 tt
end
    | _ => next_34 tt
    end
  else next_34 tt
| _ => next_34 tt
end)
| _ => (self_2, VStuck)
end)
    | _ => next_3 tt
    end
  else next_3 tt
| _ => next_3 tt
end
    | _ => next_3 tt
    end
  else next_3 tt
| _ => next_3 tt
end)).

End Gen.
