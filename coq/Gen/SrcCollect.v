(* GENERATED on every run by tools/rs2sm.py from /repo/src/io_loop/content_collector.rs - do not edit.
   The subset of Rust it accepts and the meaning it gives to it are stated in that file. *)
From Coq Require Import String.
From Amq Require Import Lib.Base Lib.RsVal.
Open Scope string_scope.
Open Scope N_scope.

Section Gen.
(* T::new of the generic functions: which value it builds depends on the type parameter, that is,
   on the kind of its `start` argument; the theorems about these definitions quantify over it *)
Variable t_new : list val -> val.
(* the functions these call that are not translated here (by name, receiver first): the theorems
   state what they assume of them *)
Variable ext : string -> list val -> val.
(* operations on the channel ends a handle holds (self.tx.send(m), self.rx.recv()): given the name,
   the arguments and self, the result and self afterwards *)
Variable ext_st : string -> list val -> val -> val * val.


(* ---- /repo/src/io_loop/content_collector.rs :: State.collect_header ---- *)
Definition gen_State_collect_header (self : val) (channel_id : val) (header : val) : val :=
(let scrut_1 := self in
(let next_2 := fun _ : unit =>
(let next_3 := fun _ : unit =>
VStuck in
match scrut_1 with
| VC c_ args_ =>
  if (c_ =? "State::Body")%string then
    match args_ with
    | [a_4; a_5; a_6] => (VC "Err" [VC "Error::FrameUnexpected" []])
    | _ => next_3 tt
    end
  else next_3 tt
| _ => next_3 tt
end) in
match scrut_1 with
| VC c_ args_ =>
  if (c_ =? "State::Start")%string then
    match args_ with
    | [a_7] => (if (v_eqb (v_field "body_size" header) (VN 0)) then
(VC "Ok" [(VC "Content::Done" [(t_new [channel_id; a_7; (VBytes []); (v_field "properties" header)])])])
else
let v_8 := (v_min (v_field "body_size" header) (VN 1048576)) in
let v_9 := (VBytes []) in
(VC "Ok" [(VC "Content::NeedMore" [(VC "State::Body" [a_7; header; v_9])])]))
    | _ => next_2 tt
    end
  else next_2 tt
| _ => next_2 tt
end)).

(* ---- /repo/src/io_loop/content_collector.rs :: State.collect_body ---- *)
Definition gen_State_collect_body (self : val) (channel_id : val) (body : val) : val :=
(let scrut_1 := self in
(let next_2 := fun _ : unit =>
(let next_3 := fun _ : unit =>
VStuck in
match scrut_1 with
| VC c_ args_ =>
  if (c_ =? "State::Start")%string then
    match args_ with
    | [a_4] => (VC "Err" [VC "Error::FrameUnexpected" []])
    | _ => next_3 tt
    end
  else next_3 tt
| _ => next_3 tt
end) in
match scrut_1 with
| VC c_ args_ =>
  if (c_ =? "State::Body")%string then
    match args_ with
    | [a_5; a_6; a_7] => let v_8 := (v_field "body_size" a_6) in
let buf_9 := v_append a_7 body in
(let scrut_10 := (v_cmp (v_len buf_9) v_8) in
(let next_11 := fun _ : unit =>
(let next_12 := fun _ : unit =>
(let next_13 := fun _ : unit =>
VStuck in
(VC "Err" [VC "Error::FrameUnexpected" []])) in
match scrut_10 with
| VC c_ args_ =>
  if (c_ =? "Ordering::Less")%string then
    match args_ with
    | [] => (VC "Ok" [(VC "Content::NeedMore" [(VC "State::Body" [a_5; a_6; buf_9])])])
    | _ => next_12 tt
    end
  else next_12 tt
| _ => next_12 tt
end) in
match scrut_10 with
| VC c_ args_ =>
  if (c_ =? "Ordering::Equal")%string then
    match args_ with
    | [] => (VC "Ok" [(VC "Content::Done" [(t_new [channel_id; a_5; buf_9; (v_field "properties" a_6)])])])
    | _ => next_11 tt
    end
  else next_11 tt
| _ => next_11 tt
end))
    | _ => next_2 tt
    end
  else next_2 tt
| _ => next_2 tt
end)).

(* ---- /repo/src/io_loop/content_collector.rs :: ContentCollector.collect_deliver ---- *)
Definition gen_ContentCollector_collect_deliver (self : val) (deliver : val) : val * val :=
(let taken_1 := v_field "kind" self in
let self_2 := v_set "kind" (VC "None" []) self in
(let next_3 := fun _ : unit =>
(let next_4 := fun _ : unit =>
(self_2, VStuck) in
match taken_1 with
| VC c_ args_ =>
  if (c_ =? "Some")%string then
    match args_ with
    | [a_5] => (self_2, (VC "Err" [VC "Error::FrameUnexpected" []]))
    | _ => next_4 tt
    end
  else next_4 tt
| _ => next_4 tt
end) in
match taken_1 with
| VC c_ args_ =>
  if (c_ =? "None")%string then
    match args_ with
    | [] => let self_6 := (v_set "kind" (VC "Some" [(VC "Kind::Delivery" [(VC "State::Start" [deliver])])]) self_2) in
(self_6, (VC "Ok" [(VC "()" [])]))
    | _ => next_3 tt
    end
  else next_3 tt
| _ => next_3 tt
end)).

(* ---- /repo/src/io_loop/content_collector.rs :: ContentCollector.collect_return ---- *)
Definition gen_ContentCollector_collect_return (self : val) (return_ : val) : val * val :=
(let taken_1 := v_field "kind" self in
let self_2 := v_set "kind" (VC "None" []) self in
(let next_3 := fun _ : unit =>
(let next_4 := fun _ : unit =>
(self_2, VStuck) in
match taken_1 with
| VC c_ args_ =>
  if (c_ =? "Some")%string then
    match args_ with
    | [a_5] => (self_2, (VC "Err" [VC "Error::FrameUnexpected" []]))
    | _ => next_4 tt
    end
  else next_4 tt
| _ => next_4 tt
end) in
match taken_1 with
| VC c_ args_ =>
  if (c_ =? "None")%string then
    match args_ with
    | [] => let self_6 := (v_set "kind" (VC "Some" [(VC "Kind::Return" [(VC "State::Start" [return_])])]) self_2) in
(self_6, (VC "Ok" [(VC "()" [])]))
    | _ => next_3 tt
    end
  else next_3 tt
| _ => next_3 tt
end)).

(* ---- /repo/src/io_loop/content_collector.rs :: ContentCollector.collect_get ---- *)
Definition gen_ContentCollector_collect_get (self : val) (get_ok : val) : val * val :=
(let taken_1 := v_field "kind" self in
let self_2 := v_set "kind" (VC "None" []) self in
(let next_3 := fun _ : unit =>
(let next_4 := fun _ : unit =>
(self_2, VStuck) in
match taken_1 with
| VC c_ args_ =>
  if (c_ =? "Some")%string then
    match args_ with
    | [a_5] => (self_2, (VC "Err" [VC "Error::FrameUnexpected" []]))
    | _ => next_4 tt
    end
  else next_4 tt
| _ => next_4 tt
end) in
match taken_1 with
| VC c_ args_ =>
  if (c_ =? "None")%string then
    match args_ with
    | [] => let self_6 := (v_set "kind" (VC "Some" [(VC "Kind::Get" [(VC "State::Start" [get_ok])])]) self_2) in
(self_6, (VC "Ok" [(VC "()" [])]))
    | _ => next_3 tt
    end
  else next_3 tt
| _ => next_3 tt
end)).

(* ---- /repo/src/io_loop/content_collector.rs :: ContentCollector.collect_header ---- *)
Definition gen_ContentCollector_collect_header (self : val) (header : val) : val * val :=
(let taken_1 := v_field "kind" self in
let self_2 := v_set "kind" (VC "None" []) self in
(let next_3 := fun _ : unit =>
(let next_4 := fun _ : unit =>
(let next_5 := fun _ : unit =>
(let next_6 := fun _ : unit =>
(self_2, VStuck) in
match taken_1 with
| VC c_ args_ =>
  if (c_ =? "None")%string then
    match args_ with
    | [] => (self_2, (VC "Err" [VC "Error::FrameUnexpected" []]))
    | _ => next_6 tt
    end
  else next_6 tt
| _ => next_6 tt
end) in
match taken_1 with
| VC c_ args_ =>
  if (c_ =? "Some")%string then
    match args_ with
    | [a_7] => match a_7 with
| VC c_ args_ =>
  if (c_ =? "Kind::Get")%string then
    match args_ with
    | [a_8] => (let tried_9 := (gen_State_collect_header a_8 (v_field "channel_id" self_2) header) in
let after_12 := fun okval_10 : val =>
let scrut_13 := okval_10 in
(let next_14 := fun _ : unit =>
(let next_15 := fun _ : unit =>
(self_2, VStuck) in
match scrut_13 with
| VC c_ args_ =>
  if (c_ =? "Content::NeedMore")%string then
    match args_ with
    | [a_16] => let self_17 := (v_set "kind" (VC "Some" [(VC "Kind::Get" [a_16])]) self_2) in
(self_17, (VC "Ok" [(VC "None" [])]))
    | _ => next_15 tt
    end
  else next_15 tt
| _ => next_15 tt
end) in
match scrut_13 with
| VC c_ args_ =>
  if (c_ =? "Content::Done")%string then
    match args_ with
    | [a_18] => let self_19 := (v_set "kind" (VC "None" []) self_2) in
(self_19, (VC "Ok" [(VC "Some" [(VC "CollectorResult::Get" [a_18])])]))
    | _ => next_14 tt
    end
  else next_14 tt
| _ => next_14 tt
end) in
match tried_9 with
| VC "Err" [err_11] => (self_2, (VC "Err" [err_11]))
| VC "Ok" [okval_10] => after_12 okval_10
| VC "None" [] => (self_2, (VC "None" []))
| VC "Some" [okval_10] => after_12 okval_10
| _ => (self_2, VStuck)
end)
    | _ => next_5 tt
    end
  else next_5 tt
| _ => next_5 tt
end
    | _ => next_5 tt
    end
  else next_5 tt
| _ => next_5 tt
end) in
match taken_1 with
| VC c_ args_ =>
  if (c_ =? "Some")%string then
    match args_ with
    | [a_20] => match a_20 with
| VC c_ args_ =>
  if (c_ =? "Kind::Return")%string then
    match args_ with
    | [a_21] => (let tried_22 := (gen_State_collect_header a_21 (v_field "channel_id" self_2) header) in
let after_25 := fun okval_23 : val =>
let scrut_26 := okval_23 in
(let next_27 := fun _ : unit =>
(let next_28 := fun _ : unit =>
(self_2, VStuck) in
match scrut_26 with
| VC c_ args_ =>
  if (c_ =? "Content::NeedMore")%string then
    match args_ with
    | [a_29] => let self_30 := (v_set "kind" (VC "Some" [(VC "Kind::Return" [a_29])]) self_2) in
(self_30, (VC "Ok" [(VC "None" [])]))
    | _ => next_28 tt
    end
  else next_28 tt
| _ => next_28 tt
end) in
match scrut_26 with
| VC c_ args_ =>
  if (c_ =? "Content::Done")%string then
    match args_ with
    | [a_31] => let self_32 := (v_set "kind" (VC "None" []) self_2) in
(self_32, (VC "Ok" [(VC "Some" [(VC "CollectorResult::Return" [a_31])])]))
    | _ => next_27 tt
    end
  else next_27 tt
| _ => next_27 tt
end) in
match tried_22 with
| VC "Err" [err_24] => (self_2, (VC "Err" [err_24]))
| VC "Ok" [okval_23] => after_25 okval_23
| VC "None" [] => (self_2, (VC "None" []))
| VC "Some" [okval_23] => after_25 okval_23
| _ => (self_2, VStuck)
end)
    | _ => next_4 tt
    end
  else next_4 tt
| _ => next_4 tt
end
    | _ => next_4 tt
    end
  else next_4 tt
| _ => next_4 tt
end) in
match taken_1 with
| VC c_ args_ =>
  if (c_ =? "Some")%string then
    match args_ with
    | [a_33] => match a_33 with
| VC c_ args_ =>
  if (c_ =? "Kind::Delivery")%string then
    match args_ with
    | [a_34] => (let tried_35 := (gen_State_collect_header a_34 (v_field "channel_id" self_2) header) in
let after_38 := fun okval_36 : val =>
let scrut_39 := okval_36 in
(let next_40 := fun _ : unit =>
(let next_41 := fun _ : unit =>
(self_2, VStuck) in
match scrut_39 with
| VC c_ args_ =>
  if (c_ =? "Content::NeedMore")%string then
    match args_ with
    | [a_42] => let self_43 := (v_set "kind" (VC "Some" [(VC "Kind::Delivery" [a_42])]) self_2) in
(self_43, (VC "Ok" [(VC "None" [])]))
    | _ => next_41 tt
    end
  else next_41 tt
| _ => next_41 tt
end) in
match scrut_39 with
| VC c_ args_ =>
  if (c_ =? "Content::Done")%string then
    match args_ with
    | [a_44] => match a_44 with
| VC c_ args_ =>
  if (c_ =? "tuple")%string then
    match args_ with
    | [a_45; a_46] => let self_47 := (v_set "kind" (VC "None" []) self_2) in
(self_47, (VC "Ok" [(VC "Some" [(VC "CollectorResult::Delivery" [(VC "tuple" [a_45; a_46])])])]))
    | _ => next_40 tt
    end
  else next_40 tt
| _ => next_40 tt
end
    | _ => next_40 tt
    end
  else next_40 tt
| _ => next_40 tt
end) in
match tried_35 with
| VC "Err" [err_37] => (self_2, (VC "Err" [err_37]))
| VC "Ok" [okval_36] => after_38 okval_36
| VC "None" [] => (self_2, (VC "None" []))
| VC "Some" [okval_36] => after_38 okval_36
| _ => (self_2, VStuck)
end)
    | _ => next_3 tt
    end
  else next_3 tt
| _ => next_3 tt
end
    | _ => next_3 tt
    end
  else next_3 tt
| _ => next_3 tt
end)).

(* ---- /repo/src/io_loop/content_collector.rs :: ContentCollector.collect_body ---- *)
Definition gen_ContentCollector_collect_body (self : val) (body : val) : val * val :=
(let taken_1 := v_field "kind" self in
let self_2 := v_set "kind" (VC "None" []) self in
(let next_3 := fun _ : unit =>
(let next_4 := fun _ : unit =>
(let next_5 := fun _ : unit =>
(let next_6 := fun _ : unit =>
(self_2, VStuck) in
match taken_1 with
| VC c_ args_ =>
  if (c_ =? "None")%string then
    match args_ with
    | [] => (self_2, (VC "Err" [VC "Error::FrameUnexpected" []]))
    | _ => next_6 tt
    end
  else next_6 tt
| _ => next_6 tt
end) in
match taken_1 with
| VC c_ args_ =>
  if (c_ =? "Some")%string then
    match args_ with
    | [a_7] => match a_7 with
| VC c_ args_ =>
  if (c_ =? "Kind::Get")%string then
    match args_ with
    | [a_8] => (let tried_9 := (gen_State_collect_body a_8 (v_field "channel_id" self_2) body) in
let after_12 := fun okval_10 : val =>
let scrut_13 := okval_10 in
(let next_14 := fun _ : unit =>
(let next_15 := fun _ : unit =>
(self_2, VStuck) in
match scrut_13 with
| VC c_ args_ =>
  if (c_ =? "Content::NeedMore")%string then
    match args_ with
    | [a_16] => let self_17 := (v_set "kind" (VC "Some" [(VC "Kind::Get" [a_16])]) self_2) in
(self_17, (VC "Ok" [(VC "None" [])]))
    | _ => next_15 tt
    end
  else next_15 tt
| _ => next_15 tt
end) in
match scrut_13 with
| VC c_ args_ =>
  if (c_ =? "Content::Done")%string then
    match args_ with
    | [a_18] => let self_19 := (v_set "kind" (VC "None" []) self_2) in
(self_19, (VC "Ok" [(VC "Some" [(VC "CollectorResult::Get" [a_18])])]))
    | _ => next_14 tt
    end
  else next_14 tt
| _ => next_14 tt
end) in
match tried_9 with
| VC "Err" [err_11] => (self_2, (VC "Err" [err_11]))
| VC "Ok" [okval_10] => after_12 okval_10
| VC "None" [] => (self_2, (VC "None" []))
| VC "Some" [okval_10] => after_12 okval_10
| _ => (self_2, VStuck)
end)
    | _ => next_5 tt
    end
  else next_5 tt
| _ => next_5 tt
end
    | _ => next_5 tt
    end
  else next_5 tt
| _ => next_5 tt
end) in
match taken_1 with
| VC c_ args_ =>
  if (c_ =? "Some")%string then
    match args_ with
    | [a_20] => match a_20 with
| VC c_ args_ =>
  if (c_ =? "Kind::Return")%string then
    match args_ with
    | [a_21] => (let tried_22 := (gen_State_collect_body a_21 (v_field "channel_id" self_2) body) in
let after_25 := fun okval_23 : val =>
let scrut_26 := okval_23 in
(let next_27 := fun _ : unit =>
(let next_28 := fun _ : unit =>
(self_2, VStuck) in
match scrut_26 with
| VC c_ args_ =>
  if (c_ =? "Content::NeedMore")%string then
    match args_ with
    | [a_29] => let self_30 := (v_set "kind" (VC "Some" [(VC "Kind::Return" [a_29])]) self_2) in
(self_30, (VC "Ok" [(VC "None" [])]))
    | _ => next_28 tt
    end
  else next_28 tt
| _ => next_28 tt
end) in
match scrut_26 with
| VC c_ args_ =>
  if (c_ =? "Content::Done")%string then
    match args_ with
    | [a_31] => let self_32 := (v_set "kind" (VC "None" []) self_2) in
(self_32, (VC "Ok" [(VC "Some" [(VC "CollectorResult::Return" [a_31])])]))
    | _ => next_27 tt
    end
  else next_27 tt
| _ => next_27 tt
end) in
match tried_22 with
| VC "Err" [err_24] => (self_2, (VC "Err" [err_24]))
| VC "Ok" [okval_23] => after_25 okval_23
| VC "None" [] => (self_2, (VC "None" []))
| VC "Some" [okval_23] => after_25 okval_23
| _ => (self_2, VStuck)
end)
    | _ => next_4 tt
    end
  else next_4 tt
| _ => next_4 tt
end
    | _ => next_4 tt
    end
  else next_4 tt
| _ => next_4 tt
end) in
match taken_1 with
| VC c_ args_ =>
  if (c_ =? "Some")%string then
    match args_ with
    | [a_33] => match a_33 with
| VC c_ args_ =>
  if (c_ =? "Kind::Delivery")%string then
    match args_ with
    | [a_34] => (let tried_35 := (gen_State_collect_body a_34 (v_field "channel_id" self_2) body) in
let after_38 := fun okval_36 : val =>
let scrut_39 := okval_36 in
(let next_40 := fun _ : unit =>
(let next_41 := fun _ : unit =>
(self_2, VStuck) in
match scrut_39 with
| VC c_ args_ =>
  if (c_ =? "Content::NeedMore")%string then
    match args_ with
    | [a_42] => let self_43 := (v_set "kind" (VC "Some" [(VC "Kind::Delivery" [a_42])]) self_2) in
(self_43, (VC "Ok" [(VC "None" [])]))
    | _ => next_41 tt
    end
  else next_41 tt
| _ => next_41 tt
end) in
match scrut_39 with
| VC c_ args_ =>
  if (c_ =? "Content::Done")%string then
    match args_ with
    | [a_44] => match a_44 with
| VC c_ args_ =>
  if (c_ =? "tuple")%string then
    match args_ with
    | [a_45; a_46] => let self_47 := (v_set "kind" (VC "None" []) self_2) in
(self_47, (VC "Ok" [(VC "Some" [(VC "CollectorResult::Delivery" [(VC "tuple" [a_45; a_46])])])]))
    | _ => next_40 tt
    end
  else next_40 tt
| _ => next_40 tt
end
    | _ => next_40 tt
    end
  else next_40 tt
| _ => next_40 tt
end) in
match tried_35 with
| VC "Err" [err_37] => (self_2, (VC "Err" [err_37]))
| VC "Ok" [okval_36] => after_38 okval_36
| VC "None" [] => (self_2, (VC "None" []))
| VC "Some" [okval_36] => after_38 okval_36
| _ => (self_2, VStuck)
end)
    | _ => next_3 tt
    end
  else next_3 tt
| _ => next_3 tt
end
    | _ => next_3 tt
    end
  else next_3 tt
| _ => next_3 tt
end)).

End Gen.
