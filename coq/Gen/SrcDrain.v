(* GENERATED on every run by tools/rs2sm.py from /repo/src/io_loop/mod.rs - do not edit.
   The subset of Rust it accepts and the meaning it gives to it are stated in that file. *)
From Coq Require Import String.
From Amq Require Import Lib.Base Lib.RsVal Lib.RsStr.
Open Scope string_scope.
Open Scope N_scope.

Section Gen.
(* T::new of the generic functions: which value it builds depends on the type parameter, that is,
   on the kind of its `start` argument; the theorems about these definitions quantify over it *)
Variable t_new : list val -> val.
(* the functions these call that are not translated here (by name, receiver first): the theorems
   state what they assume of them *)
Variable ext : string -> list val -> val.
(* operations on the channel ends a handle holds (self.tx.send(m), self.rx.recv()): given the name,
   the arguments and self, the result and self afterwards *)
Variable ext_st : string -> list val -> val -> val * val.


(* ---- /repo/src/io_loop/mod.rs :: Inner.handle_channel0_readable ---- *)
Fixpoint gen_Inner_handle_channel0_readable_loop1 (fuel : nat) (self_l : val) (ch0_slot_l : val) {struct fuel} : val * val :=
match fuel with
| O => (self_l, VStuck)
| S fuel_ =>
(if true then
(let '(self_1, v_2) := ext_st "ch0_slot.common.rx.try_recv" [ch0_slot_l] self_l in
let scrut_3 := v_2 in
(let next_4 := fun _ : unit =>
(let next_5 := fun _ : unit =>
(let next_6 := fun _ : unit =>
(self_1, VStuck) in
match scrut_3 with
| VC c_ args_ =>
  if (c_ =? "Err")%string then
    match args_ with
    | [a_7] => match a_7 with
| VC c_ args_ =>
  if (c_ =? "TryRecvError::Disconnected")%string then
    match args_ with
    | [] => (self_1, (VC "Err" [VC "Error::EventLoopClientDropped" []]))
    | _ => next_6 tt
    end
  else next_6 tt
| _ => next_6 tt
end
    | _ => next_6 tt
    end
  else next_6 tt
| _ => next_6 tt
end) in
match scrut_3 with
| VC c_ args_ =>
  if (c_ =? "Err")%string then
    match args_ with
    | [a_8] => match a_8 with
| VC c_ args_ =>
  if (c_ =? "TryRecvError::Empty")%string then
    match args_ with
    | [] => (self_1, (VC "Ok" [(VC "()" [])]))
    | _ => next_5 tt
    end
  else next_5 tt
| _ => next_5 tt
end
    | _ => next_5 tt
    end
  else next_5 tt
| _ => next_5 tt
end) in
match scrut_3 with
| VC c_ args_ =>
  if (c_ =? "Ok")%string then
    match args_ with
    | [a_9] => let '(self_10, v_11) := ext_st "self.process_channel_message" [(VN 0); a_9] self_1 in
let tried_12 := v_11 in
let after_15 := fun okval_13 : val =>
(gen_Inner_handle_channel0_readable_loop1 fuel_ self_10 ch0_slot_l) in
match tried_12 with
| VC "Err" [err_14] => (self_10, (VC "Err" [err_14]))
| VC "Ok" [okval_13] => after_15 okval_13
| VC "None" [] => (self_10, (VC "None" []))
| VC "Some" [okval_13] => after_15 okval_13
| _ => (self_10, VStuck)
end
    | _ => next_4 tt
    end
  else next_4 tt
| _ => next_4 tt
end))
else
(self_l, (VC "()" [])))
end.

Definition gen_Inner_handle_channel0_readable (fuel : nat) (self : val) (ch0_slot : val) : val * val :=
(gen_Inner_handle_channel0_readable_loop1 fuel self ch0_slot).

(* ---- /repo/src/io_loop/mod.rs :: Inner.handle_channel_readable ---- *)
Fixpoint gen_Inner_handle_channel_readable_loop1 (fuel : nat) (self_l : val) (channel_id_l : val) (high_water_l : val) {struct fuel} : val * val :=
match fuel with
| O => (self_l, VStuck)
| S fuel_ =>
(if true then
(if (v_ltb high_water_l (v_len (v_field "outbuf" self_l))) then
let self_1 := (v_set "channels_need_repoll" (VC "true" []) self_l) in
(self_1, (VC "Ok" [(VC "()" [])]))
else
(let '(self_2, v_3) := ext_st "chan_slots.get" [channel_id_l] self_l in
let scrut_4 := v_3 in
(let next_5 := fun _ : unit =>
(let next_6 := fun _ : unit =>
(self_2, VStuck) in
match scrut_4 with
| VC c_ args_ =>
  if (c_ =? "None")%string then
    match args_ with
    | [] => (self_2, (VC "Ok" [(VC "()" [])]))
    | _ => next_6 tt
    end
  else next_6 tt
| _ => next_6 tt
end) in
match scrut_4 with
| VC c_ args_ =>
  if (c_ =? "Some")%string then
    match args_ with
    | [a_7] => let v_8 := a_7 in
(let '(self_9, v_10) := ext_st "slot.rx.try_recv" [v_8] self_2 in
let scrut_11 := v_10 in
(let next_12 := fun _ : unit =>
(let next_13 := fun _ : unit =>
(let next_14 := fun _ : unit =>
(self_9, VStuck) in
match scrut_11 with
| VC c_ args_ =>
  if (c_ =? "Err")%string then
    match args_ with
    | [a_15] => match a_15 with
| VC c_ args_ =>
  if (c_ =? "TryRecvError::Disconnected")%string then
    match args_ with
    | [] => (self_9, (VC "Err" [VC "Error::EventLoopClientDropped" []]))
    | _ => next_14 tt
    end
  else next_14 tt
| _ => next_14 tt
end
    | _ => next_14 tt
    end
  else next_14 tt
| _ => next_14 tt
end) in
match scrut_11 with
| VC c_ args_ =>
  if (c_ =? "Err")%string then
    match args_ with
    | [a_16] => match a_16 with
| VC c_ args_ =>
  if (c_ =? "TryRecvError::Empty")%string then
    match args_ with
    | [] => (self_9, (VC "Ok" [(VC "()" [])]))
    | _ => next_13 tt
    end
  else next_13 tt
| _ => next_13 tt
end
    | _ => next_13 tt
    end
  else next_13 tt
| _ => next_13 tt
end) in
match scrut_11 with
| VC c_ args_ =>
  if (c_ =? "Ok")%string then
    match args_ with
    | [a_17] => let '(self_18, v_19) := ext_st "self.process_channel_message" [channel_id_l; a_17] self_9 in
let tried_20 := v_19 in
let after_23 := fun okval_21 : val =>
(gen_Inner_handle_channel_readable_loop1 fuel_ self_18 channel_id_l high_water_l) in
match tried_20 with
| VC "Err" [err_22] => (self_18, (VC "Err" [err_22]))
| VC "Ok" [okval_21] => after_23 okval_21
| VC "None" [] => (self_18, (VC "None" []))
| VC "Some" [okval_21] => after_23 okval_21
| _ => (self_18, VStuck)
end
    | _ => next_12 tt
    end
  else next_12 tt
| _ => next_12 tt
end))
    | _ => next_5 tt
    end
  else next_5 tt
| _ => next_5 tt
end)))
else
(self_l, (VC "()" [])))
end.

Definition gen_Inner_handle_channel_readable (fuel : nat) (self : val) (channel_id : val) (high_water : val) : val * val :=
(gen_Inner_handle_channel_readable_loop1 fuel self channel_id high_water).

End Gen.
