(* GENERATED on every run by tools/rs2sm.py from /repo/src/io_loop/mod.rs - do not edit.
   The subset of Rust it accepts and the meaning it gives to it are stated in that file. *)
From Coq Require Import String.
From Amq Require Import Lib.Base Lib.RsVal Lib.RsStr.
Open Scope string_scope.
Open Scope N_scope.

Section Gen.
(* T::new of the generic functions: which value it builds depends on the type parameter, that is,
   on the kind of its `start` argument; the theorems about these definitions quantify over it *)
Variable t_new : list val -> val.
(* the functions these call that are not translated here (by name, receiver first): the theorems
   state what they assume of them *)
Variable ext : string -> list val -> val.
(* operations on the channel ends a handle holds (self.tx.send(m), self.rx.recv()): given the name,
   the arguments and self, the result and self afterwards *)
Variable ext_st : string -> list val -> val -> val * val.


(* ---- /repo/src/io_loop/mod.rs :: Inner.handle_channel0_readable ---- *)
Fixpoint gen_Inner_handle_channel0_readable_loop1 (fuel : nat) (self_l : val) (ch0_slot_l : val) {struct fuel} : val * val :=
match fuel with
| O => (self_l, VStuck)
| S fuel_ =>
(if true then
(let '(self_1, v_2) := ext_st "ch0_slot.common.rx.try_recv" [ch0_slot_l] self_l in
let scrut_3 := v_2 in
(let next_4 := fun _ : unit =>
(let next_5 := fun _ : unit =>
(let next_6 := fun _ : unit =>
(self_1, VStuck) in
match scrut_3 with
| VC c_ args_ =>
  if (c_ =? "Err")%string then
    match args_ with
    | [a_7] => match a_7 with
| VC c_ args_ =>
  if (c_ =? "TryRecvError::Disconnected")%string then
    match args_ with
    | [] => (self_1, (VC "Err" [VC "Error::EventLoopClientDropped" []]))
    | _ => next_6 tt
    end
  else next_6 tt
| _ => next_6 tt
end
    | _ => next_6 tt
    end
  else next_6 tt
| _ => next_6 tt
end) in
match scrut_3 with
| VC c_ args_ =>
  if (c_ =? "Err")%string then
    match args_ with
    | [a_8] => match a_8 with
| VC c_ args_ =>
  if (c_ =? "TryRecvError::Empty")%string then
    match args_ with
    | [] => (self_1, (VC "Ok" [(VC "()" [])]))
    | _ => next_5 tt
    end
  else next_5 tt
| _ => next_5 tt
end
    | _ => next_5 tt
    end
  else next_5 tt
| _ => next_5 tt
end) in
match scrut_3 with
| VC c_ args_ =>
  if (c_ =? "Ok")%string then
    match args_ with
    | [a_9] => let '(self_10, v_11) := ext_st "self.process_channel_message" [(VN 0); a_9] self_1 in
let tried_12 := v_11 in
let after_15 := fun okval_13 : val =>
(gen_Inner_handle_channel0_readable_loop1 fuel_ self_10 ch0_slot_l) in
match tried_12 with
| VC "Err" [err_14] => (self_10, (VC "Err" [err_14]))
| VC "Ok" [okval_13] => after_15 okval_13
| VC "None" [] => (self_10, (VC "None" []))
| VC "Some" [okval_13] => after_15 okval_13
| _ => (self_10, VStuck)
end
    | _ => next_4 tt
    end
  else next_4 tt
| _ => next_4 tt
end))
else
(self_l, (VC "()" [])))
end.

Definition gen_Inner_handle_channel0_readable (fuel : nat) (self : val) (ch0_slot : val) : val * val :=
(gen_Inner_handle_channel0_readable_loop1 fuel self ch0_slot).

End Gen.
