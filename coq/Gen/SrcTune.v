(* GENERATED on every run by tools/rs2v.py from /repo/src/connection_options.rs - do not edit.
   The subset of Rust it accepts and the meaning it gives to it are stated in that file. *)
From Coq Require Import String.
From Amq Require Import Lib.Base Lib.RsResult Gen.Consts.
Open Scope string_scope.
Open Scope N_scope.


(* ---- /repo/src/connection_options.rs :: make_tune_ok ---- *)
Definition gen_make_tune_ok_promote_0_u16 (val : N) : N :=
  (let val := (if (val =? 0) then 65535 else val) in val).

Definition gen_make_tune_ok_promote_0_u32 (val : N) : N :=
  (let val := (if (val =? 0) then 4294967295 else val) in val).

(* parameters (the fields the function reads, sorted): self.channel_max, self.frame_max, self.heartbeat, tune.channel_max, tune.frame_max, tune.heartbeat *)
Definition gen_make_tune_ok (self_channel_max : N) (self_frame_max : N) (self_heartbeat : N) (tune_channel_max : N) (tune_frame_max : N) (tune_heartbeat : N) : rs_result :=
  (let chan_max0 := (gen_make_tune_ok_promote_0_u16 tune_channel_max) in (let chan_max1 := (gen_make_tune_ok_promote_0_u16 self_channel_max) in (let frame_max0 := (gen_make_tune_ok_promote_0_u32 tune_frame_max) in (let frame_max1 := (gen_make_tune_ok_promote_0_u32 self_frame_max) in (let channel_max := (N.min chan_max0 chan_max1) in (let frame_max := (N.min frame_max0 frame_max1) in (let heartbeat := (N.min tune_heartbeat self_heartbeat) in (if (frame_max <? c_frame_min_size) then (RsErr "FrameMaxTooSmall" [("min", c_frame_min_size); ("requested", frame_max)]) else (RsOk "TuneOk" [("channel_max", channel_max); ("frame_max", frame_max); ("heartbeat", heartbeat)]))))))))).
