(* GENERATED on every run by tools/rs2sm.py from /repo/src/connection.rs - do not edit.
   The subset of Rust it accepts and the meaning it gives to it are stated in that file. *)
From Coq Require Import String.
From Amq Require Import Lib.Base Lib.RsVal Lib.RsStr.
Open Scope string_scope.
Open Scope N_scope.

Section Gen.
(* T::new of the generic functions: which value it builds depends on the type parameter, that is,
   on the kind of its `start` argument; the theorems about these definitions quantify over it *)
Variable t_new : list val -> val.
(* the functions these call that are not translated here (by name, receiver first): the theorems
   state what they assume of them *)
Variable ext : string -> list val -> val.
(* operations on the channel ends a handle holds (self.tx.send(m), self.rx.recv()): given the name,
   the arguments and self, the result and self afterwards *)
Variable ext_st : string -> list val -> val -> val * val.


(* ---- /repo/src/connection.rs :: decode ---- *)
Fixpoint gen_decode_loop1 (items_ : list val) (auth_l : val) (options_l : val) (other_l : val) (url_l : val) (username_l : val) {struct items_} : val :=
match items_ with
| [] =>
(VC "Ok" [options_l])
| x_ :: rest_ =>
match x_ with
| VC c_ args_ =>
  if (c_ =? "tuple")%string then
    match args_ with
    | [a_10; a_11] => (let scrut_12 := a_10 in
(let next_13 := fun _ : unit =>
(let next_14 := fun _ : unit =>
(let next_15 := fun _ : unit =>
(let next_16 := fun _ : unit =>
(let next_17 := fun _ : unit =>
VStuck in
(VC "Err" [VC "Error::UrlUnsupportedParameter" [url_l; scrut_12]])) in
(if v_beq scrut_12 (VBytes [97; 117; 116; 104; 95; 109; 101; 99; 104; 97; 110; 105; 115; 109]) then (if (v_beq a_11 (VBytes [101; 120; 116; 101; 114; 110; 97; 108])) then
let options_18 := (ext "auth" [options_l; (VC "Auth::External" [])]) in
(gen_decode_loop1 rest_ auth_l options_18 other_l url_l username_l)
else
(VC "Err" [VC "Error::UrlInvalidAuthMechanism" [url_l; a_11]])) else next_16 tt)) in
(if v_beq scrut_12 (VBytes [99; 111; 110; 110; 101; 99; 116; 105; 111; 110; 95; 116; 105; 109; 101; 111; 117; 116]) then let tried_19 := (v_context "Error::UrlParseConnectionTimeout" (ext "parse::<u64>" [a_11])) in
let after_22 := fun okval_20 : val =>
let v_23 := okval_20 in
let options_24 := (ext "connection_timeout" [options_l; (VC "Some" [(ext "Duration::from_millis" [v_23])])]) in
(gen_decode_loop1 rest_ auth_l options_24 other_l url_l username_l) in
match tried_19 with
| VC "Err" [err_21] => (VC "Err" [err_21])
| VC "Ok" [okval_20] => after_22 okval_20
| VC "None" [] => (VC "None" [])
| VC "Some" [okval_20] => after_22 okval_20
| _ => VStuck
end else next_15 tt)) in
(if v_beq scrut_12 (VBytes [99; 104; 97; 110; 110; 101; 108; 95; 109; 97; 120]) then let tried_25 := (v_context "Error::UrlParseChannelMax" (ext "parse::<u16>" [a_11])) in
let after_28 := fun okval_26 : val =>
let v_29 := okval_26 in
let options_30 := (ext "channel_max" [options_l; v_29]) in
(gen_decode_loop1 rest_ auth_l options_30 other_l url_l username_l) in
match tried_25 with
| VC "Err" [err_27] => (VC "Err" [err_27])
| VC "Ok" [okval_26] => after_28 okval_26
| VC "None" [] => (VC "None" [])
| VC "Some" [okval_26] => after_28 okval_26
| _ => VStuck
end else next_14 tt)) in
(if v_beq scrut_12 (VBytes [104; 101; 97; 114; 116; 98; 101; 97; 116]) then let tried_31 := (v_context "Error::UrlParseHeartbeat" (ext "parse::<u16>" [a_11])) in
let after_34 := fun okval_32 : val =>
let v_35 := okval_32 in
let options_36 := (ext "heartbeat" [options_l; v_35]) in
(gen_decode_loop1 rest_ auth_l options_36 other_l url_l username_l) in
match tried_31 with
| VC "Err" [err_33] => (VC "Err" [err_33])
| VC "Ok" [okval_32] => after_34 okval_32
| VC "None" [] => (VC "None" [])
| VC "Some" [okval_32] => after_34 okval_32
| _ => VStuck
end else next_13 tt)))
    | _ => VStuck
    end
  else VStuck
| _ => VStuck
end
end.

Fixpoint gen_decode_loop2 (items_ : list val) (auth_l : val) (options_l : val) (url_l : val) (username_l : val) {struct items_} : val :=
match items_ with
| [] =>
(VC "Ok" [options_l])
| x_ :: rest_ =>
match x_ with
| VC c_ args_ =>
  if (c_ =? "tuple")%string then
    match args_ with
    | [a_40; a_41] => (let scrut_42 := a_40 in
(let next_43 := fun _ : unit =>
(let next_44 := fun _ : unit =>
(let next_45 := fun _ : unit =>
(let next_46 := fun _ : unit =>
(let next_47 := fun _ : unit =>
VStuck in
(VC "Err" [VC "Error::UrlUnsupportedParameter" [url_l; scrut_42]])) in
(if v_beq scrut_42 (VBytes [97; 117; 116; 104; 95; 109; 101; 99; 104; 97; 110; 105; 115; 109]) then (if (v_beq a_41 (VBytes [101; 120; 116; 101; 114; 110; 97; 108])) then
let options_48 := (ext "auth" [options_l; (VC "Auth::External" [])]) in
(gen_decode_loop2 rest_ auth_l options_48 url_l username_l)
else
(VC "Err" [VC "Error::UrlInvalidAuthMechanism" [url_l; a_41]])) else next_46 tt)) in
(if v_beq scrut_42 (VBytes [99; 111; 110; 110; 101; 99; 116; 105; 111; 110; 95; 116; 105; 109; 101; 111; 117; 116]) then let tried_49 := (v_context "Error::UrlParseConnectionTimeout" (ext "parse::<u64>" [a_41])) in
let after_52 := fun okval_50 : val =>
let v_53 := okval_50 in
let options_54 := (ext "connection_timeout" [options_l; (VC "Some" [(ext "Duration::from_millis" [v_53])])]) in
(gen_decode_loop2 rest_ auth_l options_54 url_l username_l) in
match tried_49 with
| VC "Err" [err_51] => (VC "Err" [err_51])
| VC "Ok" [okval_50] => after_52 okval_50
| VC "None" [] => (VC "None" [])
| VC "Some" [okval_50] => after_52 okval_50
| _ => VStuck
end else next_45 tt)) in
(if v_beq scrut_42 (VBytes [99; 104; 97; 110; 110; 101; 108; 95; 109; 97; 120]) then let tried_55 := (v_context "Error::UrlParseChannelMax" (ext "parse::<u16>" [a_41])) in
let after_58 := fun okval_56 : val =>
let v_59 := okval_56 in
let options_60 := (ext "channel_max" [options_l; v_59]) in
(gen_decode_loop2 rest_ auth_l options_60 url_l username_l) in
match tried_55 with
| VC "Err" [err_57] => (VC "Err" [err_57])
| VC "Ok" [okval_56] => after_58 okval_56
| VC "None" [] => (VC "None" [])
| VC "Some" [okval_56] => after_58 okval_56
| _ => VStuck
end else next_44 tt)) in
(if v_beq scrut_42 (VBytes [104; 101; 97; 114; 116; 98; 101; 97; 116]) then let tried_61 := (v_context "Error::UrlParseHeartbeat" (ext "parse::<u16>" [a_41])) in
let after_64 := fun okval_62 : val =>
let v_65 := okval_62 in
let options_66 := (ext "heartbeat" [options_l; v_65]) in
(gen_decode_loop2 rest_ auth_l options_66 url_l username_l) in
match tried_61 with
| VC "Err" [err_63] => (VC "Err" [err_63])
| VC "Ok" [okval_62] => after_64 okval_62
| VC "None" [] => (VC "None" [])
| VC "Some" [okval_62] => after_64 okval_62
| _ => VStuck
end else next_43 tt)))
    | _ => VStuck
    end
  else VStuck
| _ => VStuck
end
end.

Fixpoint gen_decode_loop3 (items_ : list val) (options_l : val) (url_l : val) {struct items_} : val :=
match items_ with
| [] =>
(VC "Ok" [options_l])
| x_ :: rest_ =>
match x_ with
| VC c_ args_ =>
  if (c_ =? "tuple")%string then
    match args_ with
    | [a_67; a_68] => (let scrut_69 := a_67 in
(let next_70 := fun _ : unit =>
(let next_71 := fun _ : unit =>
(let next_72 := fun _ : unit =>
(let next_73 := fun _ : unit =>
(let next_74 := fun _ : unit =>
VStuck in
(VC "Err" [VC "Error::UrlUnsupportedParameter" [url_l; scrut_69]])) in
(if v_beq scrut_69 (VBytes [97; 117; 116; 104; 95; 109; 101; 99; 104; 97; 110; 105; 115; 109]) then (if (v_beq a_68 (VBytes [101; 120; 116; 101; 114; 110; 97; 108])) then
let options_75 := (ext "auth" [options_l; (VC "Auth::External" [])]) in
(gen_decode_loop3 rest_ options_75 url_l)
else
(VC "Err" [VC "Error::UrlInvalidAuthMechanism" [url_l; a_68]])) else next_73 tt)) in
(if v_beq scrut_69 (VBytes [99; 111; 110; 110; 101; 99; 116; 105; 111; 110; 95; 116; 105; 109; 101; 111; 117; 116]) then let tried_76 := (v_context "Error::UrlParseConnectionTimeout" (ext "parse::<u64>" [a_68])) in
let after_79 := fun okval_77 : val =>
let v_80 := okval_77 in
let options_81 := (ext "connection_timeout" [options_l; (VC "Some" [(ext "Duration::from_millis" [v_80])])]) in
(gen_decode_loop3 rest_ options_81 url_l) in
match tried_76 with
| VC "Err" [err_78] => (VC "Err" [err_78])
| VC "Ok" [okval_77] => after_79 okval_77
| VC "None" [] => (VC "None" [])
| VC "Some" [okval_77] => after_79 okval_77
| _ => VStuck
end else next_72 tt)) in
(if v_beq scrut_69 (VBytes [99; 104; 97; 110; 110; 101; 108; 95; 109; 97; 120]) then let tried_82 := (v_context "Error::UrlParseChannelMax" (ext "parse::<u16>" [a_68])) in
let after_85 := fun okval_83 : val =>
let v_86 := okval_83 in
let options_87 := (ext "channel_max" [options_l; v_86]) in
(gen_decode_loop3 rest_ options_87 url_l) in
match tried_82 with
| VC "Err" [err_84] => (VC "Err" [err_84])
| VC "Ok" [okval_83] => after_85 okval_83
| VC "None" [] => (VC "None" [])
| VC "Some" [okval_83] => after_85 okval_83
| _ => VStuck
end else next_71 tt)) in
(if v_beq scrut_69 (VBytes [104; 101; 97; 114; 116; 98; 101; 97; 116]) then let tried_88 := (v_context "Error::UrlParseHeartbeat" (ext "parse::<u16>" [a_68])) in
let after_91 := fun okval_89 : val =>
let v_92 := okval_89 in
let options_93 := (ext "heartbeat" [options_l; v_92]) in
(gen_decode_loop3 rest_ options_93 url_l) in
match tried_88 with
| VC "Err" [err_90] => (VC "Err" [err_90])
| VC "Ok" [okval_89] => after_91 okval_89
| VC "None" [] => (VC "None" [])
| VC "Some" [okval_89] => after_91 okval_89
| _ => VStuck
end else next_70 tt)))
    | _ => VStuck
    end
  else VStuck
| _ => VStuck
end
end.

Fixpoint gen_decode_loop4 (items_ : list val) (auth_l : val) (options_l : val) (other_l : val) (path_segments_l : val) (recv_97_l : val) (url_l : val) (username_l : val) (vhost_l : val) {struct items_} : val :=
match items_ with
| [] =>
(VC "Ok" [options_l])
| x_ :: rest_ =>
match x_ with
| VC c_ args_ =>
  if (c_ =? "tuple")%string then
    match args_ with
    | [a_108; a_109] => (let scrut_110 := a_108 in
(let next_111 := fun _ : unit =>
(let next_112 := fun _ : unit =>
(let next_113 := fun _ : unit =>
(let next_114 := fun _ : unit =>
(let next_115 := fun _ : unit =>
VStuck in
(VC "Err" [VC "Error::UrlUnsupportedParameter" [url_l; scrut_110]])) in
(if v_beq scrut_110 (VBytes [97; 117; 116; 104; 95; 109; 101; 99; 104; 97; 110; 105; 115; 109]) then (if (v_beq a_109 (VBytes [101; 120; 116; 101; 114; 110; 97; 108])) then
let options_116 := (ext "auth" [options_l; (VC "Auth::External" [])]) in
(gen_decode_loop4 rest_ auth_l options_116 other_l path_segments_l recv_97_l url_l username_l vhost_l)
else
(VC "Err" [VC "Error::UrlInvalidAuthMechanism" [url_l; a_109]])) else next_114 tt)) in
(if v_beq scrut_110 (VBytes [99; 111; 110; 110; 101; 99; 116; 105; 111; 110; 95; 116; 105; 109; 101; 111; 117; 116]) then let tried_117 := (v_context "Error::UrlParseConnectionTimeout" (ext "parse::<u64>" [a_109])) in
let after_120 := fun okval_118 : val =>
let v_121 := okval_118 in
let options_122 := (ext "connection_timeout" [options_l; (VC "Some" [(ext "Duration::from_millis" [v_121])])]) in
(gen_decode_loop4 rest_ auth_l options_122 other_l path_segments_l recv_97_l url_l username_l vhost_l) in
match tried_117 with
| VC "Err" [err_119] => (VC "Err" [err_119])
| VC "Ok" [okval_118] => after_120 okval_118
| VC "None" [] => (VC "None" [])
| VC "Some" [okval_118] => after_120 okval_118
| _ => VStuck
end else next_113 tt)) in
(if v_beq scrut_110 (VBytes [99; 104; 97; 110; 110; 101; 108; 95; 109; 97; 120]) then let tried_123 := (v_context "Error::UrlParseChannelMax" (ext "parse::<u16>" [a_109])) in
let after_126 := fun okval_124 : val =>
let v_127 := okval_124 in
let options_128 := (ext "channel_max" [options_l; v_127]) in
(gen_decode_loop4 rest_ auth_l options_128 other_l path_segments_l recv_97_l url_l username_l vhost_l) in
match tried_123 with
| VC "Err" [err_125] => (VC "Err" [err_125])
| VC "Ok" [okval_124] => after_126 okval_124
| VC "None" [] => (VC "None" [])
| VC "Some" [okval_124] => after_126 okval_124
| _ => VStuck
end else next_112 tt)) in
(if v_beq scrut_110 (VBytes [104; 101; 97; 114; 116; 98; 101; 97; 116]) then let tried_129 := (v_context "Error::UrlParseHeartbeat" (ext "parse::<u16>" [a_109])) in
let after_132 := fun okval_130 : val =>
let v_133 := okval_130 in
let options_134 := (ext "heartbeat" [options_l; v_133]) in
(gen_decode_loop4 rest_ auth_l options_134 other_l path_segments_l recv_97_l url_l username_l vhost_l) in
match tried_129 with
| VC "Err" [err_131] => (VC "Err" [err_131])
| VC "Ok" [okval_130] => after_132 okval_130
| VC "None" [] => (VC "None" [])
| VC "Some" [okval_130] => after_132 okval_130
| _ => VStuck
end else next_111 tt)))
    | _ => VStuck
    end
  else VStuck
| _ => VStuck
end
end.

Fixpoint gen_decode_loop5 (items_ : list val) (auth_l : val) (options_l : val) (path_segments_l : val) (recv_97_l : val) (url_l : val) (username_l : val) (vhost_l : val) {struct items_} : val :=
match items_ with
| [] =>
(VC "Ok" [options_l])
| x_ :: rest_ =>
match x_ with
| VC c_ args_ =>
  if (c_ =? "tuple")%string then
    match args_ with
    | [a_138; a_139] => (let scrut_140 := a_138 in
(let next_141 := fun _ : unit =>
(let next_142 := fun _ : unit =>
(let next_143 := fun _ : unit =>
(let next_144 := fun _ : unit =>
(let next_145 := fun _ : unit =>
VStuck in
(VC "Err" [VC "Error::UrlUnsupportedParameter" [url_l; scrut_140]])) in
(if v_beq scrut_140 (VBytes [97; 117; 116; 104; 95; 109; 101; 99; 104; 97; 110; 105; 115; 109]) then (if (v_beq a_139 (VBytes [101; 120; 116; 101; 114; 110; 97; 108])) then
let options_146 := (ext "auth" [options_l; (VC "Auth::External" [])]) in
(gen_decode_loop5 rest_ auth_l options_146 path_segments_l recv_97_l url_l username_l vhost_l)
else
(VC "Err" [VC "Error::UrlInvalidAuthMechanism" [url_l; a_139]])) else next_144 tt)) in
(if v_beq scrut_140 (VBytes [99; 111; 110; 110; 101; 99; 116; 105; 111; 110; 95; 116; 105; 109; 101; 111; 117; 116]) then let tried_147 := (v_context "Error::UrlParseConnectionTimeout" (ext "parse::<u64>" [a_139])) in
let after_150 := fun okval_148 : val =>
let v_151 := okval_148 in
let options_152 := (ext "connection_timeout" [options_l; (VC "Some" [(ext "Duration::from_millis" [v_151])])]) in
(gen_decode_loop5 rest_ auth_l options_152 path_segments_l recv_97_l url_l username_l vhost_l) in
match tried_147 with
| VC "Err" [err_149] => (VC "Err" [err_149])
| VC "Ok" [okval_148] => after_150 okval_148
| VC "None" [] => (VC "None" [])
| VC "Some" [okval_148] => after_150 okval_148
| _ => VStuck
end else next_143 tt)) in
(if v_beq scrut_140 (VBytes [99; 104; 97; 110; 110; 101; 108; 95; 109; 97; 120]) then let tried_153 := (v_context "Error::UrlParseChannelMax" (ext "parse::<u16>" [a_139])) in
let after_156 := fun okval_154 : val =>
let v_157 := okval_154 in
let options_158 := (ext "channel_max" [options_l; v_157]) in
(gen_decode_loop5 rest_ auth_l options_158 path_segments_l recv_97_l url_l username_l vhost_l) in
match tried_153 with
| VC "Err" [err_155] => (VC "Err" [err_155])
| VC "Ok" [okval_154] => after_156 okval_154
| VC "None" [] => (VC "None" [])
| VC "Some" [okval_154] => after_156 okval_154
| _ => VStuck
end else next_142 tt)) in
(if v_beq scrut_140 (VBytes [104; 101; 97; 114; 116; 98; 101; 97; 116]) then let tried_159 := (v_context "Error::UrlParseHeartbeat" (ext "parse::<u16>" [a_139])) in
let after_162 := fun okval_160 : val =>
let v_163 := okval_160 in
let options_164 := (ext "heartbeat" [options_l; v_163]) in
(gen_decode_loop5 rest_ auth_l options_164 path_segments_l recv_97_l url_l username_l vhost_l) in
match tried_159 with
| VC "Err" [err_161] => (VC "Err" [err_161])
| VC "Ok" [okval_160] => after_162 okval_160
| VC "None" [] => (VC "None" [])
| VC "Some" [okval_160] => after_162 okval_160
| _ => VStuck
end else next_141 tt)))
    | _ => VStuck
    end
  else VStuck
| _ => VStuck
end
end.

Fixpoint gen_decode_loop6 (items_ : list val) (options_l : val) (path_segments_l : val) (recv_97_l : val) (url_l : val) (vhost_l : val) {struct items_} : val :=
match items_ with
| [] =>
(VC "Ok" [options_l])
| x_ :: rest_ =>
match x_ with
| VC c_ args_ =>
  if (c_ =? "tuple")%string then
    match args_ with
    | [a_165; a_166] => (let scrut_167 := a_165 in
(let next_168 := fun _ : unit =>
(let next_169 := fun _ : unit =>
(let next_170 := fun _ : unit =>
(let next_171 := fun _ : unit =>
(let next_172 := fun _ : unit =>
VStuck in
(VC "Err" [VC "Error::UrlUnsupportedParameter" [url_l; scrut_167]])) in
(if v_beq scrut_167 (VBytes [97; 117; 116; 104; 95; 109; 101; 99; 104; 97; 110; 105; 115; 109]) then (if (v_beq a_166 (VBytes [101; 120; 116; 101; 114; 110; 97; 108])) then
let options_173 := (ext "auth" [options_l; (VC "Auth::External" [])]) in
(gen_decode_loop6 rest_ options_173 path_segments_l recv_97_l url_l vhost_l)
else
(VC "Err" [VC "Error::UrlInvalidAuthMechanism" [url_l; a_166]])) else next_171 tt)) in
(if v_beq scrut_167 (VBytes [99; 111; 110; 110; 101; 99; 116; 105; 111; 110; 95; 116; 105; 109; 101; 111; 117; 116]) then let tried_174 := (v_context "Error::UrlParseConnectionTimeout" (ext "parse::<u64>" [a_166])) in
let after_177 := fun okval_175 : val =>
let v_178 := okval_175 in
let options_179 := (ext "connection_timeout" [options_l; (VC "Some" [(ext "Duration::from_millis" [v_178])])]) in
(gen_decode_loop6 rest_ options_179 path_segments_l recv_97_l url_l vhost_l) in
match tried_174 with
| VC "Err" [err_176] => (VC "Err" [err_176])
| VC "Ok" [okval_175] => after_177 okval_175
| VC "None" [] => (VC "None" [])
| VC "Some" [okval_175] => after_177 okval_175
| _ => VStuck
end else next_170 tt)) in
(if v_beq scrut_167 (VBytes [99; 104; 97; 110; 110; 101; 108; 95; 109; 97; 120]) then let tried_180 := (v_context "Error::UrlParseChannelMax" (ext "parse::<u16>" [a_166])) in
let after_183 := fun okval_181 : val =>
let v_184 := okval_181 in
let options_185 := (ext "channel_max" [options_l; v_184]) in
(gen_decode_loop6 rest_ options_185 path_segments_l recv_97_l url_l vhost_l) in
match tried_180 with
| VC "Err" [err_182] => (VC "Err" [err_182])
| VC "Ok" [okval_181] => after_183 okval_181
| VC "None" [] => (VC "None" [])
| VC "Some" [okval_181] => after_183 okval_181
| _ => VStuck
end else next_169 tt)) in
(if v_beq scrut_167 (VBytes [104; 101; 97; 114; 116; 98; 101; 97; 116]) then let tried_186 := (v_context "Error::UrlParseHeartbeat" (ext "parse::<u16>" [a_166])) in
let after_189 := fun okval_187 : val =>
let v_190 := okval_187 in
let options_191 := (ext "heartbeat" [options_l; v_190]) in
(gen_decode_loop6 rest_ options_191 path_segments_l recv_97_l url_l vhost_l) in
match tried_186 with
| VC "Err" [err_188] => (VC "Err" [err_188])
| VC "Ok" [okval_187] => after_189 okval_187
| VC "None" [] => (VC "None" [])
| VC "Some" [okval_187] => after_189 okval_187
| _ => VStuck
end else next_168 tt)))
    | _ => VStuck
    end
  else VStuck
| _ => VStuck
end
end.

Fixpoint gen_decode_loop7 (items_ : list val) (auth_l : val) (options_l : val) (other_l : val) (path_segments_l : val) (recv_97_l : val) (url_l : val) (username_l : val) (vhost_l : val) {struct items_} : val :=
match items_ with
| [] =>
(VC "Ok" [options_l])
| x_ :: rest_ =>
match x_ with
| VC c_ args_ =>
  if (c_ =? "tuple")%string then
    match args_ with
    | [a_200; a_201] => (let scrut_202 := a_200 in
(let next_203 := fun _ : unit =>
(let next_204 := fun _ : unit =>
(let next_205 := fun _ : unit =>
(let next_206 := fun _ : unit =>
(let next_207 := fun _ : unit =>
VStuck in
(VC "Err" [VC "Error::UrlUnsupportedParameter" [url_l; scrut_202]])) in
(if v_beq scrut_202 (VBytes [97; 117; 116; 104; 95; 109; 101; 99; 104; 97; 110; 105; 115; 109]) then (if (v_beq a_201 (VBytes [101; 120; 116; 101; 114; 110; 97; 108])) then
let options_208 := (ext "auth" [options_l; (VC "Auth::External" [])]) in
(gen_decode_loop7 rest_ auth_l options_208 other_l path_segments_l recv_97_l url_l username_l vhost_l)
else
(VC "Err" [VC "Error::UrlInvalidAuthMechanism" [url_l; a_201]])) else next_206 tt)) in
(if v_beq scrut_202 (VBytes [99; 111; 110; 110; 101; 99; 116; 105; 111; 110; 95; 116; 105; 109; 101; 111; 117; 116]) then let tried_209 := (v_context "Error::UrlParseConnectionTimeout" (ext "parse::<u64>" [a_201])) in
let after_212 := fun okval_210 : val =>
let v_213 := okval_210 in
let options_214 := (ext "connection_timeout" [options_l; (VC "Some" [(ext "Duration::from_millis" [v_213])])]) in
(gen_decode_loop7 rest_ auth_l options_214 other_l path_segments_l recv_97_l url_l username_l vhost_l) in
match tried_209 with
| VC "Err" [err_211] => (VC "Err" [err_211])
| VC "Ok" [okval_210] => after_212 okval_210
| VC "None" [] => (VC "None" [])
| VC "Some" [okval_210] => after_212 okval_210
| _ => VStuck
end else next_205 tt)) in
(if v_beq scrut_202 (VBytes [99; 104; 97; 110; 110; 101; 108; 95; 109; 97; 120]) then let tried_215 := (v_context "Error::UrlParseChannelMax" (ext "parse::<u16>" [a_201])) in
let after_218 := fun okval_216 : val =>
let v_219 := okval_216 in
let options_220 := (ext "channel_max" [options_l; v_219]) in
(gen_decode_loop7 rest_ auth_l options_220 other_l path_segments_l recv_97_l url_l username_l vhost_l) in
match tried_215 with
| VC "Err" [err_217] => (VC "Err" [err_217])
| VC "Ok" [okval_216] => after_218 okval_216
| VC "None" [] => (VC "None" [])
| VC "Some" [okval_216] => after_218 okval_216
| _ => VStuck
end else next_204 tt)) in
(if v_beq scrut_202 (VBytes [104; 101; 97; 114; 116; 98; 101; 97; 116]) then let tried_221 := (v_context "Error::UrlParseHeartbeat" (ext "parse::<u16>" [a_201])) in
let after_224 := fun okval_222 : val =>
let v_225 := okval_222 in
let options_226 := (ext "heartbeat" [options_l; v_225]) in
(gen_decode_loop7 rest_ auth_l options_226 other_l path_segments_l recv_97_l url_l username_l vhost_l) in
match tried_221 with
| VC "Err" [err_223] => (VC "Err" [err_223])
| VC "Ok" [okval_222] => after_224 okval_222
| VC "None" [] => (VC "None" [])
| VC "Some" [okval_222] => after_224 okval_222
| _ => VStuck
end else next_203 tt)))
    | _ => VStuck
    end
  else VStuck
| _ => VStuck
end
end.

Fixpoint gen_decode_loop8 (items_ : list val) (auth_l : val) (options_l : val) (path_segments_l : val) (recv_97_l : val) (url_l : val) (username_l : val) (vhost_l : val) {struct items_} : val :=
match items_ with
| [] =>
(VC "Ok" [options_l])
| x_ :: rest_ =>
match x_ with
| VC c_ args_ =>
  if (c_ =? "tuple")%string then
    match args_ with
    | [a_230; a_231] => (let scrut_232 := a_230 in
(let next_233 := fun _ : unit =>
(let next_234 := fun _ : unit =>
(let next_235 := fun _ : unit =>
(let next_236 := fun _ : unit =>
(let next_237 := fun _ : unit =>
VStuck in
(VC "Err" [VC "Error::UrlUnsupportedParameter" [url_l; scrut_232]])) in
(if v_beq scrut_232 (VBytes [97; 117; 116; 104; 95; 109; 101; 99; 104; 97; 110; 105; 115; 109]) then (if (v_beq a_231 (VBytes [101; 120; 116; 101; 114; 110; 97; 108])) then
let options_238 := (ext "auth" [options_l; (VC "Auth::External" [])]) in
(gen_decode_loop8 rest_ auth_l options_238 path_segments_l recv_97_l url_l username_l vhost_l)
else
(VC "Err" [VC "Error::UrlInvalidAuthMechanism" [url_l; a_231]])) else next_236 tt)) in
(if v_beq scrut_232 (VBytes [99; 111; 110; 110; 101; 99; 116; 105; 111; 110; 95; 116; 105; 109; 101; 111; 117; 116]) then let tried_239 := (v_context "Error::UrlParseConnectionTimeout" (ext "parse::<u64>" [a_231])) in
let after_242 := fun okval_240 : val =>
let v_243 := okval_240 in
let options_244 := (ext "connection_timeout" [options_l; (VC "Some" [(ext "Duration::from_millis" [v_243])])]) in
(gen_decode_loop8 rest_ auth_l options_244 path_segments_l recv_97_l url_l username_l vhost_l) in
match tried_239 with
| VC "Err" [err_241] => (VC "Err" [err_241])
| VC "Ok" [okval_240] => after_242 okval_240
| VC "None" [] => (VC "None" [])
| VC "Some" [okval_240] => after_242 okval_240
| _ => VStuck
end else next_235 tt)) in
(if v_beq scrut_232 (VBytes [99; 104; 97; 110; 110; 101; 108; 95; 109; 97; 120]) then let tried_245 := (v_context "Error::UrlParseChannelMax" (ext "parse::<u16>" [a_231])) in
let after_248 := fun okval_246 : val =>
let v_249 := okval_246 in
let options_250 := (ext "channel_max" [options_l; v_249]) in
(gen_decode_loop8 rest_ auth_l options_250 path_segments_l recv_97_l url_l username_l vhost_l) in
match tried_245 with
| VC "Err" [err_247] => (VC "Err" [err_247])
| VC "Ok" [okval_246] => after_248 okval_246
| VC "None" [] => (VC "None" [])
| VC "Some" [okval_246] => after_248 okval_246
| _ => VStuck
end else next_234 tt)) in
(if v_beq scrut_232 (VBytes [104; 101; 97; 114; 116; 98; 101; 97; 116]) then let tried_251 := (v_context "Error::UrlParseHeartbeat" (ext "parse::<u16>" [a_231])) in
let after_254 := fun okval_252 : val =>
let v_255 := okval_252 in
let options_256 := (ext "heartbeat" [options_l; v_255]) in
(gen_decode_loop8 rest_ auth_l options_256 path_segments_l recv_97_l url_l username_l vhost_l) in
match tried_251 with
| VC "Err" [err_253] => (VC "Err" [err_253])
| VC "Ok" [okval_252] => after_254 okval_252
| VC "None" [] => (VC "None" [])
| VC "Some" [okval_252] => after_254 okval_252
| _ => VStuck
end else next_233 tt)))
    | _ => VStuck
    end
  else VStuck
| _ => VStuck
end
end.

Fixpoint gen_decode_loop9 (items_ : list val) (options_l : val) (path_segments_l : val) (recv_97_l : val) (url_l : val) (vhost_l : val) {struct items_} : val :=
match items_ with
| [] =>
(VC "Ok" [options_l])
| x_ :: rest_ =>
match x_ with
| VC c_ args_ =>
  if (c_ =? "tuple")%string then
    match args_ with
    | [a_257; a_258] => (let scrut_259 := a_257 in
(let next_260 := fun _ : unit =>
(let next_261 := fun _ : unit =>
(let next_262 := fun _ : unit =>
(let next_263 := fun _ : unit =>
(let next_264 := fun _ : unit =>
VStuck in
(VC "Err" [VC "Error::UrlUnsupportedParameter" [url_l; scrut_259]])) in
(if v_beq scrut_259 (VBytes [97; 117; 116; 104; 95; 109; 101; 99; 104; 97; 110; 105; 115; 109]) then (if (v_beq a_258 (VBytes [101; 120; 116; 101; 114; 110; 97; 108])) then
let options_265 := (ext "auth" [options_l; (VC "Auth::External" [])]) in
(gen_decode_loop9 rest_ options_265 path_segments_l recv_97_l url_l vhost_l)
else
(VC "Err" [VC "Error::UrlInvalidAuthMechanism" [url_l; a_258]])) else next_263 tt)) in
(if v_beq scrut_259 (VBytes [99; 111; 110; 110; 101; 99; 116; 105; 111; 110; 95; 116; 105; 109; 101; 111; 117; 116]) then let tried_266 := (v_context "Error::UrlParseConnectionTimeout" (ext "parse::<u64>" [a_258])) in
let after_269 := fun okval_267 : val =>
let v_270 := okval_267 in
let options_271 := (ext "connection_timeout" [options_l; (VC "Some" [(ext "Duration::from_millis" [v_270])])]) in
(gen_decode_loop9 rest_ options_271 path_segments_l recv_97_l url_l vhost_l) in
match tried_266 with
| VC "Err" [err_268] => (VC "Err" [err_268])
| VC "Ok" [okval_267] => after_269 okval_267
| VC "None" [] => (VC "None" [])
| VC "Some" [okval_267] => after_269 okval_267
| _ => VStuck
end else next_262 tt)) in
(if v_beq scrut_259 (VBytes [99; 104; 97; 110; 110; 101; 108; 95; 109; 97; 120]) then let tried_272 := (v_context "Error::UrlParseChannelMax" (ext "parse::<u16>" [a_258])) in
let after_275 := fun okval_273 : val =>
let v_276 := okval_273 in
let options_277 := (ext "channel_max" [options_l; v_276]) in
(gen_decode_loop9 rest_ options_277 path_segments_l recv_97_l url_l vhost_l) in
match tried_272 with
| VC "Err" [err_274] => (VC "Err" [err_274])
| VC "Ok" [okval_273] => after_275 okval_273
| VC "None" [] => (VC "None" [])
| VC "Some" [okval_273] => after_275 okval_273
| _ => VStuck
end else next_261 tt)) in
(if v_beq scrut_259 (VBytes [104; 101; 97; 114; 116; 98; 101; 97; 116]) then let tried_278 := (v_context "Error::UrlParseHeartbeat" (ext "parse::<u16>" [a_258])) in
let after_281 := fun okval_279 : val =>
let v_282 := okval_279 in
let options_283 := (ext "heartbeat" [options_l; v_282]) in
(gen_decode_loop9 rest_ options_283 path_segments_l recv_97_l url_l vhost_l) in
match tried_278 with
| VC "Err" [err_280] => (VC "Err" [err_280])
| VC "Ok" [okval_279] => after_281 okval_279
| VC "None" [] => (VC "None" [])
| VC "Some" [okval_279] => after_281 okval_279
| _ => VStuck
end else next_260 tt)))
    | _ => VStuck
    end
  else VStuck
| _ => VStuck
end
end.

Definition gen_decode (url : val) : val :=
let v_1 := (ext "ConnectionOptions::default" []) in
let v_2 := (ext "path_segments" [url]) in
let rest_3 := fun _ : unit =>
(if ((negb (v_beq (ext "username" [url]) (VBytes []))) || (v_is_some (ext "password" [url]))) then
(let scrut_4 := (ext "username" [url]) in
(let next_5 := fun _ : unit =>
(let next_6 := fun _ : unit =>
VStuck in
let v_7 := scrut_4 in
let v_8 := (VC "Auth::Plain" [(VR [("username", (ext "percent_decode" [v_7])); ("password", (ext "percent_decode" [(v_unwrap_or (ext "password" [url]) (VBytes [103; 117; 101; 115; 116]))]))])]) in
let options_9 := (ext "auth" [v_1; v_8]) in
(gen_decode_loop1 (v_items (ext "query_pairs" [url])) v_8 options_9 scrut_4 url v_7)) in
(if v_beq scrut_4 (VBytes []) then let v_37 := (VBytes [103; 117; 101; 115; 116]) in
let v_38 := (VC "Auth::Plain" [(VR [("username", (ext "percent_decode" [v_37])); ("password", (ext "percent_decode" [(v_unwrap_or (ext "password" [url]) (VBytes [103; 117; 101; 115; 116]))]))])]) in
let options_39 := (ext "auth" [v_1; v_38]) in
(gen_decode_loop2 (v_items (ext "query_pairs" [url])) v_38 options_39 url v_37) else next_5 tt)))
else
(gen_decode_loop3 (v_items (ext "query_pairs" [url])) v_1 url)) in
match v_2 with
| VC c_ args_ =>
  if (c_ =? "Some")%string then
    match args_ with
    | [a_94] => let item_95 := v_next a_94 in
let path_segments_96 := v_rest a_94 in
let recv_97 := item_95 in
let v_98 := (v_unwrap recv_97) in
(if (negb (v_beq v_98 (VBytes []))) then
let options_99 := (ext "virtual_host" [v_1; (ext "percent_decode" [v_98])]) in
let item_100 := v_next path_segments_96 in
let path_segments_101 := v_rest path_segments_96 in
(if (v_is_some item_100) then
(VC "Err" [VC "Error::ExtraUrlPathSegments" [url]])
else
(if ((negb (v_beq (ext "username" [url]) (VBytes []))) || (v_is_some (ext "password" [url]))) then
(let scrut_102 := (ext "username" [url]) in
(let next_103 := fun _ : unit =>
(let next_104 := fun _ : unit =>
VStuck in
let v_105 := scrut_102 in
let v_106 := (VC "Auth::Plain" [(VR [("username", (ext "percent_decode" [v_105])); ("password", (ext "percent_decode" [(v_unwrap_or (ext "password" [url]) (VBytes [103; 117; 101; 115; 116]))]))])]) in
let options_107 := (ext "auth" [options_99; v_106]) in
(gen_decode_loop4 (v_items (ext "query_pairs" [url])) v_106 options_107 scrut_102 path_segments_101 recv_97 url v_105 v_98)) in
(if v_beq scrut_102 (VBytes []) then let v_135 := (VBytes [103; 117; 101; 115; 116]) in
let v_136 := (VC "Auth::Plain" [(VR [("username", (ext "percent_decode" [v_135])); ("password", (ext "percent_decode" [(v_unwrap_or (ext "password" [url]) (VBytes [103; 117; 101; 115; 116]))]))])]) in
let options_137 := (ext "auth" [options_99; v_136]) in
(gen_decode_loop5 (v_items (ext "query_pairs" [url])) v_136 options_137 path_segments_101 recv_97 url v_135 v_98) else next_103 tt)))
else
(gen_decode_loop6 (v_items (ext "query_pairs" [url])) options_99 path_segments_101 recv_97 url v_98)))
else
let item_192 := v_next path_segments_96 in
let path_segments_193 := v_rest path_segments_96 in
(if (v_is_some item_192) then
(VC "Err" [VC "Error::ExtraUrlPathSegments" [url]])
else
(if ((negb (v_beq (ext "username" [url]) (VBytes []))) || (v_is_some (ext "password" [url]))) then
(let scrut_194 := (ext "username" [url]) in
(let next_195 := fun _ : unit =>
(let next_196 := fun _ : unit =>
VStuck in
let v_197 := scrut_194 in
let v_198 := (VC "Auth::Plain" [(VR [("username", (ext "percent_decode" [v_197])); ("password", (ext "percent_decode" [(v_unwrap_or (ext "password" [url]) (VBytes [103; 117; 101; 115; 116]))]))])]) in
let options_199 := (ext "auth" [v_1; v_198]) in
(gen_decode_loop7 (v_items (ext "query_pairs" [url])) v_198 options_199 scrut_194 path_segments_193 recv_97 url v_197 v_98)) in
(if v_beq scrut_194 (VBytes []) then let v_227 := (VBytes [103; 117; 101; 115; 116]) in
let v_228 := (VC "Auth::Plain" [(VR [("username", (ext "percent_decode" [v_227])); ("password", (ext "percent_decode" [(v_unwrap_or (ext "password" [url]) (VBytes [103; 117; 101; 115; 116]))]))])]) in
let options_229 := (ext "auth" [v_1; v_228]) in
(gen_decode_loop8 (v_items (ext "query_pairs" [url])) v_228 options_229 path_segments_193 recv_97 url v_227 v_98) else next_195 tt)))
else
(gen_decode_loop9 (v_items (ext "query_pairs" [url])) v_1 path_segments_193 recv_97 url v_98))))
    | _ => rest_3 tt
    end
  else rest_3 tt
| _ => rest_3 tt
end.

End Gen.
