(* Model of the Consumer handle (src/consumer.rs): cancel() marks the consumer cancelled BEFORE
   it issues Basic.Cancel (so a later cancel returns Ok at once whatever the first one
   returned), and Drop is cancel() with the result ignored.  No proofs. *)
From Amq Require Import Lib.Base.

Inductive cons_op := CnCancel | CnDrop.

(* state: cancelled; result: the new state and how many Basic.Cancel the operation issues *)
Definition cons_step (cancelled : bool) (o : cons_op) : bool * N :=
  if cancelled then (true, 0) else (true, 1).

Fixpoint cons_run (cancelled : bool) (ops : list cons_op) : N :=
  match ops with
  | [] => 0
  | o :: ops' => let '(c', k) := cons_step cancelled o in k + cons_run c' ops'
  end.
