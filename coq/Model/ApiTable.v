(* Model of the public API wrappers: which AMQP method each call builds
   (src/channel.rs, src/queue.rs, src/exchange.rs, src/consumer.rs, src/delivery.rs,
   src/get.rs).  Methods are (class id, method id, fields in wire order); argument tables
   are opaque ids.  No proofs. *)
From Amq Require Import Lib.Base.

Inductive fval := VStr (s : bytes) | VNum (n : N) | VBool (b : bool) | VTab (id : N).
Definition meth := (N * N * list fval)%type.

Inductive dmode := DSync | DNowait | DPassive.
(* through which handle an operation is called *)
Inductive via := ViaChannel | ViaWrapper.        (* Channel::x(name, ..) or Queue/Exchange::x(..) *)
(* Channel::exchange_bind(destination, source) / Exchange::bind_to_source(other) /
   Exchange::bind_to_destination(other) *)
Inductive bside := BChannel | BToSource | BToDestination.
Inductive settle := SAck | SAckMultiple | SNack | SNackMultiple | SReject.
Inductive holder := HDelivery | HGet | HConsumer.

Inductive api_op :=
| AQos (size count : N) (global : bool)
| ARecover (requeue : bool)
| AConfirmSelect (nowait : bool)
| AQueueDeclare (m : dmode) (name : bytes) (durable exclusive auto_delete : bool) (args : N)
| AGet (v : via) (queue : bytes) (no_ack : bool)
| AConsume (v : via) (queue : bytes) (no_local no_ack exclusive : bool) (args : N)
| AQueueBind (v : via) (nowait : bool) (queue exchange rk : bytes) (args : N)
| AQueueUnbind (v : via) (queue exchange rk : bytes) (args : N)
| AQueuePurge (v : via) (nowait : bool) (queue : bytes)
| AQueueDelete (v : via) (nowait : bool) (queue : bytes) (if_unused if_empty : bool)
| AExchangeDeclare (m : dmode) (ty name : bytes) (durable auto_delete internal : bool) (args : N)
| AExchangeBind (s : bside) (nowait unbind : bool) (self other rk : bytes) (args : N)
| AExchangeDelete (v : via) (nowait : bool) (name : bytes) (if_unused : bool)
| AAckAll
| ANackAll (requeue : bool)
| ASettle (how : settle) (h : holder) (dtag : N) (requeue : bool) (same_channel : bool)
| ACancel (tag : bytes) (already_cancelled : bool)
| AChannelClose.

Definition txt_direct : bytes := [100; 105; 114; 101; 99; 116].

(* None: the call panics and sends nothing *)
Definition emit (o : api_op) : option (list meth) :=
  match o with
  | AQos size count global => Some [(60, 10, [VNum size; VNum count; VBool global])]
  | ARecover requeue => Some [(60, 110, [VBool requeue])]
  | AConfirmSelect nowait => Some [(85, 10, [VBool nowait])]
  | AQueueDeclare m name durable exclusive auto_delete args =>
      match m with
      | DPassive => Some [(50, 10, [VNum 0; VStr name; VBool true; VBool false; VBool false; VBool false;
                                   VBool false; VTab 0])]
      | _ => Some [(50, 10, [VNum 0; VStr name; VBool false; VBool durable; VBool exclusive;
                             VBool auto_delete; VBool (match m with DNowait => true | _ => false end);
                             VTab args])]
      end
  | AGet _ queue no_ack => Some [(60, 70, [VNum 0; VStr queue; VBool no_ack])]
  | AConsume _ queue no_local no_ack exclusive args =>
      Some [(60, 20, [VNum 0; VStr queue; VStr []; VBool no_local; VBool no_ack; VBool exclusive;
                      VBool false; VTab args])]
  | AQueueBind _ nowait queue exchange rk args =>
      Some [(50, 20, [VNum 0; VStr queue; VStr exchange; VStr rk; VBool nowait; VTab args])]
  | AQueueUnbind _ queue exchange rk args =>
      Some [(50, 50, [VNum 0; VStr queue; VStr exchange; VStr rk; VTab args])]
  | AQueuePurge _ nowait queue => Some [(50, 30, [VNum 0; VStr queue; VBool nowait])]
  | AQueueDelete _ nowait queue if_unused if_empty =>
      Some [(50, 40, [VNum 0; VStr queue; VBool if_unused; VBool if_empty; VBool nowait])]
  | AExchangeDeclare m ty name durable auto_delete internal args =>
      match m with
      | DPassive => Some [(40, 10, [VNum 0; VStr name; VStr txt_direct; VBool true; VBool false; VBool false;
                                   VBool false; VBool false; VTab 0])]
      | _ => Some [(40, 10, [VNum 0; VStr name; VStr ty; VBool false; VBool durable; VBool auto_delete;
                             VBool internal; VBool (match m with DNowait => true | _ => false end);
                             VTab args])]
      end
  | AExchangeBind s nowait unbind self other rk args =>
      let '(dst, src) := match s with
                         | BChannel | BToSource => (self, other)
                         | BToDestination => (other, self)
                         end in
      Some [(40, if unbind then 40 else 30, [VNum 0; VStr dst; VStr src; VStr rk; VBool nowait; VTab args])]
  | AExchangeDelete _ nowait name if_unused =>
      Some [(40, 20, [VNum 0; VStr name; VBool if_unused; VBool nowait])]
  | AAckAll => Some [(60, 80, [VNum 0; VBool true])]
  | ANackAll requeue => Some [(60, 120, [VNum 0; VBool true; VBool requeue])]
  | ASettle how _ dtag requeue same =>
      if negb same then None
      else Some [match how with
                 | SAck => (60, 80, [VNum dtag; VBool false])
                 | SAckMultiple => (60, 80, [VNum dtag; VBool true])
                 | SNack => (60, 120, [VNum dtag; VBool false; VBool requeue])
                 | SNackMultiple => (60, 120, [VNum dtag; VBool true; VBool requeue])
                 | SReject => (60, 90, [VNum dtag; VBool requeue])
                 end]
  | ACancel tag already => if already then Some [] else Some [(60, 30, [VStr tag; VBool false])]
  | AChannelClose => Some [(20, 40, [VNum 0; VStr []; VNum 0; VNum 0])]
  end.
