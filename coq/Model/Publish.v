(* Model of the publish path: Channel::basic_publish (src/channel.rs),
   ChannelHandle::send_content and Channel0Handle::new (src/io_loop/channel_handle.rs).
   No proofs. *)
From Amq Require Import Lib.Base Gen.Consts.

Definition usize_max : N := 18446744073709551615.

(* Channel0Handle::new: 0 means "no limit"; the frame overhead is taken off *)
Definition payload_limit (frame_max : N) : N :=
  (if frame_max =? 0 then usize_max else frame_max) - c_frame_overhead.

(* the loop of send_content: full chunks while more than fm bytes remain, then the rest if
   it is not empty.  Fuel: one unit per chunk suffices when fm >= 1. *)
Fixpoint chunks (fuel : nat) (fm : N) (body : bytes) : list bytes :=
  match fuel with
  | O => []
  | S f =>
      if fm <? N.of_nat (length body)
      then firstn (N.to_nat fm) body :: chunks f fm (skipn (N.to_nat fm) body)
      else match body with [] => [] | _ => [body] end
  end.

Definition body_chunks (fm : N) (body : bytes) : list bytes := chunks (S (length body)) fm body.

(* what one publish puts into the channel's frame sequence *)
Inductive pframe :=
| PMethod (exchange rk : bytes) (mandatory immediate : bool)     (* Basic.Publish, ticket 0 *)
| PHeader (class_id size props : N)
| PBody (payload : bytes).

Record publish := {
  p_exchange : bytes; p_rk : bytes; p_mandatory : bool; p_immediate : bool;
  p_props : N; p_body : bytes }.

Definition publish_frames (frame_max : N) (p : publish) : list pframe :=
  PMethod (p_exchange p) (p_rk p) (p_mandatory p) (p_immediate p)
  :: PHeader 60 (N.of_nat (length (p_body p))) (p_props p)
  :: map PBody (body_chunks (payload_limit frame_max) (p_body p)).
