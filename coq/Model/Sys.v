(* The closed system around a synchronous call, at the level of the protocol: K callers (one
   per channel: a Channel's handle is !Sync and a call holds it for its whole duration, so a
   channel has at most one call in progress), their mailboxes, the I/O thread (drain a
   mailbox into the out-buffer, write the out-buffer to the socket, read one frame and route
   it to the reply queue of its channel), and a compliant server (reads the client's frames
   in order, answers the synchronous ones of one channel in order, and the channels in ANY
   relative order, at any time).  Every thread interleaving of the real program is a
   sequence of these atomic actions.

   Each I/O-thread action is the abstraction of a ystep of Model/Core.v whose exact effect is
   a theorem there: ADrain = handle_event (EvChan n) on a mailbox of MsgSend buffers
   (mailbox_fifo: a prefix is appended whole and in order, the rest stays; any prefix, since
   the drain stops at the high-water mark), AWrite = EvStream write (stream_write: bytes
   written ++ bytes kept = bytes buffered; here in units of whole frames, the server sees
   nothing of a partial frame), ARead = process of a reply-class frame (reply_routing:
   appended to the reply queue of its channel and nothing else changes; a full queue is an
   error, Core.send).  The caller's actions are Model/Handle.v's (send, then take the head
   of the own reply queue).  Proofs/SysRefine.v states these links.  No proofs here. *)
From Amq Require Import Lib.Base.

Inductive ckind := KSync | KNowait.
(* kind, request (an opaque payload: queue name, arguments, ...) *)
Definition call := (ckind * N)%type.

Definition is_sync (c : call) : bool := match fst c with KSync => true | KNowait => false end.
(* the requests that expect a reply *)
Definition syncs (l : list call) : list N :=
  flat_map (fun c => if is_sync c then [snd c] else []) l.
(* the frames of channel n in a stream *)
Definition projc {A} (n : N) (l : list (N * A)) : list A :=
  flat_map (fun x => if fst x =? n then [snd x] else []) l.

Definition yupd {A} (f : N -> A) (n : N) (v : A) : N -> A := fun k => if k =? n then v else f k.

(* what travels server -> client on a channel: a reply, or the server's Channel.Close *)
Inductive witem := WReply (v : N) | WClose.
(* what the I/O thread puts on a channel's reply queue: a reply, or its verdict that the server
   has closed the channel (ServerClosedChannel) *)
Inductive ritem := RVal (v : N) | RVerdict.

Definition wvals (l : list witem) : list N := flat_map (fun x => match x with WReply v => [v] | WClose => [] end) l.
Definition rvals (l : list ritem) : list N := flat_map (fun x => match x with RVal v => [v] | RVerdict => [] end) l.
Definition ncloses (l : list witem) : nat := length (filter (fun x => match x with WClose => true | _ => false end) l).
Definition nverdicts (l : list ritem) : nat := length (filter (fun x => match x with RVerdict => true | _ => false end) l).

Record ychan := {
  yc_prog : list call;       (* what the caller still has to issue *)
  yc_wait : bool;            (* the caller is blocked in recv on its reply queue *)
  yc_issued : list call;     (* ghost: issued so far, oldest first *)
  yc_results : list N;       (* ghost: what the calls returned, oldest first *)
  yc_mail : list call;       (* mailbox caller -> I/O thread *)
  yc_pend : list N;          (* server: synchronous requests read and not yet answered *)
  yc_replyq : list ritem;    (* reply queue I/O thread -> caller *)
  yc_failed : bool;          (* a call returned an error: the caller gave up *)
  yc_srv_closed : bool;      (* the server has closed this channel: it answers nothing more on it *)
  yc_slot_gone : bool }.     (* the I/O thread has processed that close: the slot (mailbox receiver,
                                reply sender) is gone *)

Record sys := {
  y_ch : N -> ychan;
  y_outbuf : list (N * call);    (* the I/O thread's out-buffer, whole frames *)
  y_outwire : list (N * call);   (* written, not yet read by the server *)
  y_seen : list (N * call);      (* ghost: every frame the server has read so far, in order *)
  y_inwire : list (N * witem);   (* server -> client *)
  y_fail : bool;                 (* a reply found its queue full (FrameUnexpected) or its channel
                                    gone (ReceivedFrameWithBogusChannelId): the loop ends *)
  y_dead : bool }.               (* the I/O thread has ended (EOF, I/O error, missed heartbeats, a close, ...)
                                    and dropped its ends of every queue *)

Inductive act :=
| ASend (n : N)                  (* caller n: hand the next request to the mailbox *)
| ARecv (n : N)                  (* caller n: take the head of the reply queue *)
| ADrain (n : N) (k : nat)       (* I/O: channel n readable, k messages taken *)
| AWrite (k : nat)               (* I/O: socket writable, k frames accepted *)
| ASrvRead                       (* server: read the next frame *)
| ASrvAnswer (n : N)             (* server: answer the oldest unanswered request of channel n *)
| ASrvClose (n : N)              (* server: close channel n (once), at any moment *)
| ARead                          (* I/O: socket readable, one frame processed *)
| ADie.                          (* the I/O thread ends, for whatever reason, at any moment *)

Definition with_ch (s : sys) (n : N) (c : ychan) : sys :=
  {| y_ch := yupd (y_ch s) n c; y_outbuf := y_outbuf s; y_outwire := y_outwire s; y_seen := y_seen s;
     y_inwire := y_inwire s; y_fail := y_fail s; y_dead := y_dead s |}.

(* updates of single fields of a channel *)
Definition ch_set_mail (c : ychan) (m : list call) : ychan :=
  {| yc_prog := yc_prog c; yc_wait := yc_wait c; yc_issued := yc_issued c; yc_results := yc_results c;
     yc_mail := m; yc_pend := yc_pend c; yc_replyq := yc_replyq c; yc_failed := yc_failed c;
     yc_srv_closed := yc_srv_closed c; yc_slot_gone := yc_slot_gone c |}.
Definition ch_set_pend (c : ychan) (p : list N) : ychan :=
  {| yc_prog := yc_prog c; yc_wait := yc_wait c; yc_issued := yc_issued c; yc_results := yc_results c;
     yc_mail := yc_mail c; yc_pend := p; yc_replyq := yc_replyq c; yc_failed := yc_failed c;
     yc_srv_closed := yc_srv_closed c; yc_slot_gone := yc_slot_gone c |}.
Definition ch_set_replyq (c : ychan) (q : list ritem) : ychan :=
  {| yc_prog := yc_prog c; yc_wait := yc_wait c; yc_issued := yc_issued c; yc_results := yc_results c;
     yc_mail := yc_mail c; yc_pend := yc_pend c; yc_replyq := q; yc_failed := yc_failed c;
     yc_srv_closed := yc_srv_closed c; yc_slot_gone := yc_slot_gone c |}.

Section Step.
  Variable answer : N -> N -> N.   (* the server's reply to a request on a channel *)
  Variable bound : N.              (* mailbox capacity (mem_channel_bound, at least 1) *)
  Variable qcap : N.               (* reply-queue capacity (2 in the code) *)

  Definition ystep (s : sys) (a : act) : sys :=
    if y_fail s then s else
    match a with
    | ASend n =>
        let c := y_ch s n in
        match yc_wait c || yc_failed c, yc_prog c with
        | false, x :: rest =>
            if y_dead s || yc_slot_gone c then
              (* the mailbox's receiver is gone: the send fails, the call returns an error
                 (check_recv_for_error: the I/O thread's verdict if one is queued, else
                 EventLoopDropped) - at once, nothing is handed over *)
              with_ch s n {| yc_prog := yc_prog c; yc_wait := false; yc_issued := yc_issued c;
                             yc_results := yc_results c; yc_mail := yc_mail c;
                             yc_pend := yc_pend c; yc_replyq := yc_replyq c; yc_failed := true;
                             yc_srv_closed := yc_srv_closed c; yc_slot_gone := yc_slot_gone c |}
            else if N.of_nat (length (yc_mail c)) <? bound then
              with_ch s n {| yc_prog := rest; yc_wait := is_sync x; yc_issued := yc_issued c ++ [x];
                             yc_results := yc_results c; yc_mail := yc_mail c ++ [x];
                             yc_pend := yc_pend c; yc_replyq := yc_replyq c; yc_failed := false;
                             yc_srv_closed := yc_srv_closed c; yc_slot_gone := yc_slot_gone c |}
            else s                                  (* mailbox full: the send blocks *)
        | _, _ => s
        end
    | ARecv n =>
        let c := y_ch s n in
        match yc_wait c, yc_replyq c with
        | true, RVal v :: rest =>
            (* a queued reply is delivered also when the sender is gone *)
            with_ch s n {| yc_prog := yc_prog c; yc_wait := false; yc_issued := yc_issued c;
                           yc_results := yc_results c ++ [v]; yc_mail := yc_mail c;
                           yc_pend := yc_pend c; yc_replyq := rest; yc_failed := yc_failed c;
                           yc_srv_closed := yc_srv_closed c; yc_slot_gone := yc_slot_gone c |}
        | true, RVerdict :: rest =>
            (* the server closed the channel: the call fails with ServerClosedChannel *)
            with_ch s n {| yc_prog := yc_prog c; yc_wait := false; yc_issued := yc_issued c;
                           yc_results := yc_results c; yc_mail := yc_mail c;
                           yc_pend := yc_pend c; yc_replyq := rest; yc_failed := true;
                           yc_srv_closed := yc_srv_closed c; yc_slot_gone := yc_slot_gone c |}
        | true, [] =>
            if y_dead s || yc_slot_gone c then
              (* empty and disconnected: the call returns an error *)
              with_ch s n {| yc_prog := yc_prog c; yc_wait := false; yc_issued := yc_issued c;
                             yc_results := yc_results c; yc_mail := yc_mail c;
                             yc_pend := yc_pend c; yc_replyq := []; yc_failed := true;
                             yc_srv_closed := yc_srv_closed c; yc_slot_gone := yc_slot_gone c |}
            else s                                  (* nothing there yet: the recv blocks *)
        | _, _ => s
        end
    | ADrain n k =>
        if y_dead s || yc_slot_gone (y_ch s n) then s else
        let c := y_ch s n in
        {| y_ch := yupd (y_ch s) n (ch_set_mail c (skipn k (yc_mail c)));
           y_outbuf := y_outbuf s ++ map (pair n) (firstn k (yc_mail c));
           y_outwire := y_outwire s; y_seen := y_seen s; y_inwire := y_inwire s; y_fail := false; y_dead := y_dead s |}
    | AWrite k =>
        if y_dead s then s else
        {| y_ch := y_ch s; y_outbuf := skipn k (y_outbuf s);
           y_outwire := y_outwire s ++ firstn k (y_outbuf s);
           y_seen := y_seen s; y_inwire := y_inwire s; y_fail := false; y_dead := y_dead s |}
    | ASrvRead =>
        match y_outwire s with
        | [] => s
        | (n, x) :: rest =>
            let c := y_ch s n in
            (* a request on a channel the server has closed is discarded *)
            {| y_ch := if is_sync x && negb (yc_srv_closed c)
                       then yupd (y_ch s) n (ch_set_pend c (yc_pend c ++ [snd x]))
                       else y_ch s;
               y_outbuf := y_outbuf s; y_outwire := rest; y_seen := y_seen s ++ [(n, x)]; y_inwire := y_inwire s; y_fail := false; y_dead := y_dead s |}
        end
    | ASrvAnswer n =>
        let c := y_ch s n in
        match yc_pend c with
        | [] => s
        | r :: rest =>
            {| y_ch := yupd (y_ch s) n (ch_set_pend c rest);
               y_outbuf := y_outbuf s; y_outwire := y_outwire s;
               y_seen := y_seen s; y_inwire := y_inwire s ++ [(n, WReply (answer n r))]; y_fail := false; y_dead := y_dead s |}
        end
    | ASrvClose n =>
        let c := y_ch s n in
        if yc_srv_closed c then s else
        (* the server closes channel n: what it still owed on it is dropped, nothing follows *)
        {| y_ch := yupd (y_ch s) n {| yc_prog := yc_prog c; yc_wait := yc_wait c; yc_issued := yc_issued c;
                                      yc_results := yc_results c; yc_mail := yc_mail c; yc_pend := [];
                                      yc_replyq := yc_replyq c; yc_failed := yc_failed c;
                                      yc_srv_closed := true; yc_slot_gone := yc_slot_gone c |};
           y_outbuf := y_outbuf s; y_outwire := y_outwire s; y_seen := y_seen s;
           y_inwire := y_inwire s ++ [(n, WClose)]; y_fail := false; y_dead := y_dead s |}
    | ARead =>
        if y_dead s then s else
        match y_inwire s with
        | [] => s
        | (n, it) :: rest =>
            let c := y_ch s n in
            let fail := {| y_ch := y_ch s; y_outbuf := y_outbuf s; y_outwire := y_outwire s; y_seen := y_seen s;
                           y_inwire := rest; y_fail := true; y_dead := y_dead s |} in
            if yc_slot_gone c then fail          (* a frame for a channel that is not open *)
            else if N.of_nat (length (yc_replyq c)) <? qcap then
              match it with
              | WReply v =>
                  {| y_ch := yupd (y_ch s) n (ch_set_replyq c (yc_replyq c ++ [RVal v]));
                     y_outbuf := y_outbuf s; y_outwire := y_outwire s; y_seen := y_seen s; y_inwire := rest; y_fail := false; y_dead := y_dead s |}
              | WClose =>
                  (* the verdict for whoever calls, the slot - with what its mailbox held - is gone
                     (the Channel.CloseOk the thread answers with is C09_effect's; not modelled here) *)
                  {| y_ch := yupd (y_ch s) n {| yc_prog := yc_prog c; yc_wait := yc_wait c; yc_issued := yc_issued c;
                                                yc_results := yc_results c; yc_mail := []; yc_pend := yc_pend c;
                                                yc_replyq := yc_replyq c ++ [RVerdict]; yc_failed := yc_failed c;
                                                yc_srv_closed := yc_srv_closed c; yc_slot_gone := true |};
                     y_outbuf := y_outbuf s; y_outwire := y_outwire s; y_seen := y_seen s; y_inwire := rest; y_fail := false; y_dead := y_dead s |}
              end
            else fail                            (* the reply queue is full *)
        end
    | ADie =>
        {| y_ch := y_ch s; y_outbuf := y_outbuf s; y_outwire := y_outwire s;
           y_seen := y_seen s; y_inwire := y_inwire s; y_fail := false; y_dead := true |}
    end.

  Definition yrun (s : sys) (sched : list act) : sys := fold_left ystep sched s.
End Step.

Definition new_ychan (prog : list call) : ychan :=
  {| yc_prog := prog; yc_wait := false; yc_issued := []; yc_results := []; yc_mail := [];
     yc_pend := []; yc_replyq := []; yc_failed := false; yc_srv_closed := false; yc_slot_gone := false |}.

(* every caller with its program, nothing in flight *)
Definition init_sys (progs : N -> list call) : sys :=
  {| y_ch := fun n => new_ychan (progs n); y_outbuf := []; y_outwire := []; y_seen := []; y_inwire := [];
     y_fail := false; y_dead := false |}.

(* everything of channel n that is on its way to the caller, in the order it will arrive:
   the reply queue, the replies on the wire, the answers the server owes, and the answers
   to the requests it has not read yet (on the wire, in the out-buffer, in the mailbox) *)
Definition inflight (answer : N -> N -> N) (s : sys) (n : N) : list N :=
  let c := y_ch s n in
  rvals (yc_replyq c) ++ wvals (projc n (y_inwire s)) ++ map (answer n) (yc_pend c) ++
  map (answer n) (syncs (projc n (y_outwire s) ++ projc n (y_outbuf s) ++ yc_mail c)).
