(* The abstract frame alphabet the I/O thread dispatches on, exactly as the arms of
   ConnectionState::process group the AMQP methods, and the data the thread hands to
   its clients.  No proofs. *)
From Amq Require Import Lib.Base.

Definition str := bytes.

(* the 13 "-Ok" methods forwarded verbatim to the caller *)
Inductive okkind :=
| KQosOk | KRecoverOk | KChanOpenOk | KSelectOk
| KExDeclareOk | KExDeleteOk | KExBindOk | KExUnbindOk
| KQDeclareOk | KQDeleteOk | KQBindOk | KQPurgeOk | KQUnbindOk.

Definition okkind_code (k : okkind) : N :=
  match k with
  | KQosOk => 0 | KRecoverOk => 1 | KChanOpenOk => 2 | KSelectOk => 3
  | KExDeclareOk => 4 | KExDeleteOk => 5 | KExBindOk => 6 | KExUnbindOk => 7
  | KQDeclareOk => 8 | KQDeleteOk => 9 | KQBindOk => 10 | KQPurgeOk => 11 | KQUnbindOk => 12
  end.

Inductive smethod :=
| MConnClose (code : N) (text : str)
| MConnCloseOk
| MBlocked (reason : str)
| MUnblocked
| MConnOther                          (* any other Connection.* method *)
| MChanClose (code : N) (text : str)
| MChanCloseOk
| MConsumeOk (tag : str)
| MCancel (tag : str) (nowait : bool)
| MCancelOk (tag : str)
| MDeliver (tag : str) (dtag : N) (redelivered : bool) (exch rk : str)
| MReturn (code : N) (text exch rk : str)
| MGetOk (dtag : N) (redelivered : bool) (exch rk : str) (count : N)
| MGetEmpty
| MAck (dtag : N) (multiple : bool)
| MNack (dtag : N) (multiple : bool)
| MGeneric (k : okkind) (s : str) (a b : N)   (* payload: queue name / counts where any *)
| MUnimpl                             (* Access.*, Channel.Flow, Channel.FlowOk, Tx.* *)
| MIllegal.                           (* methods only a client may send *)

Inductive frame :=
| FMethod (ch : N) (m : smethod)
| FHeader (ch : N) (size : N) (props : N)   (* size: u64 body_size; props: opaque id *)
| FBody (ch : N) (body : bytes)
| FHeartbeat (ch : N)
| FProtoHeader.

(* a frame as the harness presents it: with the text `{:?}` renders for it, which the
   client-exception arms put into the Connection.Close they send *)
Definition dframe := (frame * str)%type.

(* ---- errors (the variants of amiquip::Error the I/O thread and handles produce) ---- *)
Inductive err :=
| EFrameUnexpected
| EBogusChannel (ch : N)
| EUnknownConsumerTag (ch : N) (tag : str)
| EDuplicateConsumerTag (ch : N) (tag : str)
| EClientDropped                       (* EventLoopClientDropped *)
| EEventLoopDropped
| EUnexpectedSocketClose
| EIoRead
| EIoWrite
| EMalformed
| EMissedHeartbeats
| EServerClosedConnection (code : N) (text : str)
| EClientClosedConnection
| EServerClosedChannel (ch code : N) (text : str)
| EClientClosedChannel
| EClientException
| EUnavailableChannelId (id : N)
| EExhaustedChannelIds
| EOther.

(* ---- what travels from the I/O thread to clients ---- *)

Record message := {
  m_ch : N; m_dtag : N; m_redelivered : bool; m_exch : str; m_rk : str;
  m_body : bytes; m_props : N }.

Inductive qitem :=
(* reply queue of a channel: Result<ChannelMessage> *)
| IReplyMethod (m : smethod)
| IReplyConsumeOk (tag : str) (q : N)           (* q: id of the new consumer queue *)
| IReplyGet (g : option (message * N))          (* message, message_count *)
| IReplyErr (e : err)
(* consumer queue: ConsumerMessage *)
| IDelivery (m : message)
| IClientCancelled
| IServerCancelled
| IClientClosedChannel
| IServerClosedChannel (e : err)
| IClientClosedConnection
| IServerClosedConnection (e : err)
(* listeners *)
| IReturn (code : N) (text exch rk : str) (body : bytes) (props : N)
| IConfirm (ack : bool) (dtag : N) (multiple : bool)
| IBlocked (reason : str)
| IUnblocked
(* allocation reply: Result<IoLoopHandle> *)
| IAllocOk (id : N)
| IAllocErr (e : err).

(* ---- what travels from clients to the I/O thread (IoLoopMessage) ---- *)
Inductive msg :=
| MsgSend (buf : bytes)
| MsgConnClose (buf : bytes)
| MsgSetReturn (q : option N)
| MsgSetConfirm (q : option N).
