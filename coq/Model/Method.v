(* The payload of an AMQP 0-9-1 method frame, field by field, for every method amiquip's client
   side puts on the wire: class id, method id (two bytes each), then the fields in the order of
   the specification - integers big-endian, short strings with one length byte, long strings
   and tables with a four-byte length, consecutive bit fields packed into one octet from bit 0
   upwards.  Tables are kept as their encoded bytes.  This is the reading a server applies to
   what the client wrote; the check of C12 / C02 / C16 applies it to the raw bytes of the real
   client (it replaces, and is compared with, the harness's own decoder).  No proofs. *)
From Amq Require Import Lib.Base.

Inductive ftype :=
| TNum (w : nat)          (* unsigned integer of w bytes: octet 1, short 2, long 4, longlong 8 *)
| TShortStr | TLongStr | TTable
| TBits (k : nat).        (* k consecutive bit fields, k <= 8 *)

Inductive field :=
| FNum (w : nat) (n : N)
| FShortStr (s : bytes)
| FLongStr (s : bytes)
| FTable (raw : bytes)
| FBits (bs : list bool).

Definition type_of (f : field) : ftype :=
  match f with
  | FNum w _ => TNum w
  | FShortStr _ => TShortStr
  | FLongStr _ => TLongStr
  | FTable _ => TTable
  | FBits bs => TBits (length bs)
  end.

(* ---------- encoding ---------- *)

(* big-endian, w bytes *)
Fixpoint be (w : nat) (n : N) : bytes :=
  match w with
  | O => []
  | S w' => (n / 256 ^ N.of_nat w') mod 256 :: be w' n
  end.

Fixpoint bits_val (bs : list bool) : N :=
  match bs with
  | [] => 0
  | b :: bs' => (if b then 1 else 0) + 2 * bits_val bs'
  end.

Definition len (s : bytes) : N := N.of_nat (length s).

Definition enc_field (f : field) : bytes :=
  match f with
  | FNum w n => be w n
  | FShortStr s => len s :: s
  | FLongStr s => be 4 (len s) ++ s
  | FTable raw => be 4 (len raw) ++ raw
  | FBits bs => [bits_val bs]
  end.

Definition enc_fields (fs : list field) : bytes := concat (map enc_field fs).

Definition enc_method (cls meth : N) (fs : list field) : bytes := be 2 cls ++ be 2 meth ++ enc_fields fs.

(* ---------- decoding ---------- *)

Fixpoint unbe (w : nat) (acc : N) (bs : bytes) : option (N * bytes) :=
  match w with
  | O => Some (acc, bs)
  | S w' => match bs with
            | [] => None
            | b :: bs' => unbe w' (acc * 256 + b) bs'
            end
  end.

Fixpoint bits_of (k : nat) (v : N) : list bool :=
  match k with
  | O => []
  | S k' => N.odd v :: bits_of k' (N.div2 v)
  end.

Definition take (n : N) (bs : bytes) : option (bytes * bytes) :=
  if n <=? len bs then Some (firstn (N.to_nat n) bs, skipn (N.to_nat n) bs) else None.

Definition dec_field (t : ftype) (bs : bytes) : option (field * bytes) :=
  match t with
  | TNum w => match unbe w 0 bs with Some (n, r) => Some (FNum w n, r) | None => None end
  | TShortStr =>
      match bs with
      | l :: r => match take l r with Some (s, r') => Some (FShortStr s, r') | None => None end
      | [] => None
      end
  | TLongStr =>
      match unbe 4 0 bs with
      | Some (l, r) => match take l r with Some (s, r') => Some (FLongStr s, r') | None => None end
      | None => None
      end
  | TTable =>
      match unbe 4 0 bs with
      | Some (l, r) => match take l r with Some (s, r') => Some (FTable s, r') | None => None end
      | None => None
      end
  | TBits k =>
      match bs with
      | v :: r => if v <? 2 ^ N.of_nat k then Some (FBits (bits_of k v), r) else None  (* no stray bits *)
      | [] => None
      end
  end.

Fixpoint dec_fields (ts : list ftype) (bs : bytes) : option (list field * bytes) :=
  match ts with
  | [] => Some ([], bs)
  | t :: ts' =>
      match dec_field t bs with
      | Some (f, r) => match dec_fields ts' r with
                       | Some (fs, r') => Some (f :: fs, r')
                       | None => None
                       end
      | None => None
      end
  end.

(* ---------- the methods of the client side, AMQP 0-9-1 (class, method) -> field types ---------- *)

Definition short := TNum 2.
Definition long := TNum 4.
Definition longlong := TNum 8.

Definition schema (cls meth : N) : option (list ftype) :=
  match cls, meth with
  (* connection: start-ok, tune-ok, open, close, close-ok *)
  | 10, 11 => Some [TTable; TShortStr; TLongStr; TShortStr]
  | 10, 31 => Some [short; long; short]
  | 10, 40 => Some [TShortStr; TShortStr; TBits 1]
  | 10, 50 => Some [short; TShortStr; short; short]
  | 10, 51 => Some []
  (* channel: open, close, close-ok *)
  | 20, 10 => Some [TShortStr]
  | 20, 40 => Some [short; TShortStr; short; short]
  | 20, 41 => Some []
  (* exchange: declare, delete, bind, unbind *)
  | 40, 10 => Some [short; TShortStr; TShortStr; TBits 5; TTable]
  | 40, 20 => Some [short; TShortStr; TBits 2]
  | 40, 30 => Some [short; TShortStr; TShortStr; TShortStr; TBits 1; TTable]
  | 40, 40 => Some [short; TShortStr; TShortStr; TShortStr; TBits 1; TTable]
  (* queue: declare, bind, purge, delete, unbind *)
  | 50, 10 => Some [short; TShortStr; TBits 5; TTable]
  | 50, 20 => Some [short; TShortStr; TShortStr; TShortStr; TBits 1; TTable]
  | 50, 30 => Some [short; TShortStr; TBits 1]
  | 50, 40 => Some [short; TShortStr; TBits 3]
  | 50, 50 => Some [short; TShortStr; TShortStr; TShortStr; TTable]
  (* basic: qos, consume, cancel, cancel-ok, publish, get, ack, reject, recover, nack *)
  | 60, 10 => Some [long; short; TBits 1]
  | 60, 20 => Some [short; TShortStr; TShortStr; TBits 4; TTable]
  | 60, 30 => Some [TShortStr; TBits 1]
  | 60, 31 => Some [TShortStr]
  | 60, 40 => Some [short; TShortStr; TShortStr; TBits 2]
  | 60, 70 => Some [short; TShortStr; TBits 1]
  | 60, 80 => Some [longlong; TBits 1]
  | 60, 90 => Some [longlong; TBits 1]
  | 60, 110 => Some [TBits 1]
  | 60, 120 => Some [longlong; TBits 2]
  (* confirm: select *)
  | 85, 10 => Some [TBits 1]
  | _, _ => None
  end.

(* a whole method payload: ids, the fields its schema says, and nothing left over *)
Definition dec_method (bs : bytes) : option (N * N * list field) :=
  match unbe 2 0 bs with
  | Some (cls, r1) =>
      match unbe 2 0 r1 with
      | Some (meth, r2) =>
          match schema cls meth with
          | Some ts => match dec_fields ts r2 with
                       | Some (fs, []) => Some (cls, meth, fs)
                       | _ => None
                       end
          | None => None
          end
      | None => None
      end
  | None => None
  end.

(* ---------- well-formed field values: what the field's width can carry ---------- *)

Definition wf_field (f : field) : Prop :=
  match f with
  | FNum w n => n < 256 ^ N.of_nat w
  | FShortStr s => len s < 256
  | FLongStr s => len s < 4294967296
  | FTable raw => len raw < 4294967296
  | FBits bs => (length bs <= 8)%nat
  end.
