(* Model of the wake-up discipline between publishers and the I/O thread
   (src/io_loop/mod.rs: run_io_loop's throttle, Inner::handle_channel_readable with its
   high-water check, deregister_ / reregister_nonzero_channels, allocate_channel) on top of
   a model of the two library mechanisms it relies on:
     - mio-extras' channel: the readiness of a receiver is set when its count of pending
       items goes 0 -> 1 and cleared when it goes 1 -> 0; the drop of the last sender counts
       as one more item, which is never received;
     - mio's user-space registration with edge-triggered polling: a node is queued when its
       readiness is set while it has a non-empty interest, or when it is (re)registered while
       ready; a poll dequeues every queued node and reports those that are ready and
       registered; nothing re-queues a node by itself.
   Messages are their sizes in bytes; channel 0 and the socket are not in this model (they
   are never throttled).  No proofs. *)
From Amq Require Import Lib.Base.

Record chan := {
  k_mail : list N;       (* sizes of the messages in the mailbox, oldest first *)
  k_tx : bool;           (* a sender is still alive *)
  k_ready : bool;        (* readiness of the receiver's registration *)
  k_queued : bool }.     (* its node sits in the poll's readiness queue *)

Record wstate := {
  w_chans : alist chan;
  w_out : N;             (* outbuf.len() *)
  w_listening : bool;    (* listening_to_channels = channels_are_registered *)
  w_need : bool;         (* channels_need_repoll *)
  w_pending : list N;    (* channel events reported by the last poll, not handled yet *)
  w_bound : N; w_high : N; w_low : N }.

Definition winit (bound high low : N) : wstate :=
  {| w_chans := []; w_out := 0; w_listening := true; w_need := false; w_pending := [];
     w_bound := bound; w_high := high; w_low := low |}.

Definition with_chans (w : wstate) (cs : alist chan) : wstate :=
  {| w_chans := cs; w_out := w_out w; w_listening := w_listening w; w_need := w_need w;
     w_pending := w_pending w; w_bound := w_bound w; w_high := w_high w; w_low := w_low w |}.
Definition with_out (w : wstate) (o : N) : wstate :=
  {| w_chans := w_chans w; w_out := o; w_listening := w_listening w; w_need := w_need w;
     w_pending := w_pending w; w_bound := w_bound w; w_high := w_high w; w_low := w_low w |}.
Definition with_need (w : wstate) (b : bool) : wstate :=
  {| w_chans := w_chans w; w_out := w_out w; w_listening := w_listening w; w_need := b;
     w_pending := w_pending w; w_bound := w_bound w; w_high := w_high w; w_low := w_low w |}.
Definition with_pending (w : wstate) (p : list N) : wstate :=
  {| w_chans := w_chans w; w_out := w_out w; w_listening := w_listening w; w_need := w_need w;
     w_pending := p; w_bound := w_bound w; w_high := w_high w; w_low := w_low w |}.
Definition with_listening (w : wstate) (l need : bool) : wstate :=
  {| w_chans := w_chans w; w_out := w_out w; w_listening := l; w_need := need;
     w_pending := w_pending w; w_bound := w_bound w; w_high := w_high w; w_low := w_low w |}.

Definition set_chan (w : wstate) (ch : N) (c : chan) : wstate := with_chans w (ainsert ch c (w_chans w)).

(* ---------- the client side ---------- *)

(* SyncSender::try_send: refused when the mailbox is full (a blocking send waits instead);
   mio-extras: inc() sets the readiness when the count was 0; mio: setting a readiness
   queues the node if it has an interest *)
Definition wsend (w : wstate) (ch sz : N) : bool * wstate :=
  match alookup ch (w_chans w) with
  | None => (false, w)
  | Some c =>
      if k_tx c && (N.of_nat (length (k_mail c)) <? N.max 1 (w_bound w)) then
        let first := match k_mail c with [] => true | _ => false end in
        (true, set_chan w ch
           {| k_mail := k_mail c ++ [sz]; k_tx := true;
              k_ready := k_ready c || first;
              k_queued := k_queued c || (first && w_listening w) |})
      else (false, w)
  end.

(* the last sender goes away: mio-extras counts that as one more pending item (inc()), which
   is never received - so the readiness is set now if nothing was pending, and from now on it
   is never cleared again *)
Definition wdrop (w : wstate) (ch : N) : wstate :=
  match alookup ch (w_chans w) with
  | None => w
  | Some c =>
      if k_tx c then
        let first := match k_mail c with [] => true | _ => false end in
        set_chan w ch {| k_mail := k_mail c; k_tx := false; k_ready := k_ready c || first;
                         k_queued := k_queued c || (first && w_listening w) |}
      else w
  end.

(* ---------- the I/O thread ---------- *)

(* Poll::poll: every queued node is dequeued; those that are ready and registered are
   reported *)
Definition reported (listening : bool) (cs : alist chan) : list N :=
  map fst (filter (fun '(_, c) => k_queued c && k_ready c && listening) cs).
Definition dequeue (c : chan) : chan :=
  {| k_mail := k_mail c; k_tx := k_tx c; k_ready := k_ready c; k_queued := false |}.
Definition wpoll (w : wstate) : list N * wstate :=
  let evs := reported (w_listening w) (w_chans w) in
  (evs, with_pending (with_chans w (map (fun '(n, c) => (n, dequeue c)) (w_chans w)))
                     (w_pending w ++ evs)).

Inductive evres := EvOk | EvClientDropped | EvNotPending.

(* Inner::handle_channel_readable(ch, high): receive until the mailbox is empty, the buffer
   is above the high-water mark, or the channel turns out to be disconnected *)
Fixpoint drain (fuel : nat) (high : N) (c : chan) (out : N) : evres * chan * N * bool :=
  match fuel with
  | O => (EvOk, c, out, false)
  | S f =>
      if high <? out then (EvOk, c, out, true)           (* stop; channels_need_repoll *)
      else match k_mail c with
           | [] => (if k_tx c then EvOk else EvClientDropped, c, out, false)
           | m :: rest =>
               (* mio-extras: dec() clears the readiness when the count of pending items was
                  1; a dropped sender counts as one item for ever *)
               let c' := {| k_mail := rest; k_tx := k_tx c;
                            k_ready := match rest with [] => negb (k_tx c) && k_ready c | _ => k_ready c end;
                            k_queued := k_queued c |} in
               drain f high c' (out + m)
           end
  end.

Fixpoint remove1 (n : N) (l : list N) : list N :=
  match l with [] => [] | x :: r => if x =? n then r else x :: remove1 n r end.

Definition wevent (w : wstate) (ch : N) : evres * wstate :=
  if existsb (N.eqb ch) (w_pending w) then
    let w1 := with_pending w (remove1 ch (w_pending w)) in
    match alookup ch (w_chans w1) with
    | None =>
        (* stale wake-up of a removed channel: nothing received, but the check comes first *)
        (EvOk, if w_high w1 <? w_out w1 then with_need w1 true else w1)
    | Some c =>
        let '(r, c', out', stopped) := drain (S (S (length (k_mail c)))) (w_high w1) c (w_out w1) in
        let w2 := with_out (set_chan w1 ch c') out' in
        (r, if stopped then with_need w2 true else w2)
    end
  else (EvNotPending, w).

(* the socket accepted k bytes / the thread queued k bytes of its own (replies, heartbeats) *)
Definition wwrote (w : wstate) (k : N) : wstate := with_out w (w_out w - k).
Definition wgrow (w : wstate) (k : N) : wstate := with_out w (w_out w + k).

(* allocate_channel: a new slot, registered - and de-registered again when throttled, so
   that it can be re-registered with the others *)
Definition walloc (w : wstate) (ch : N) : wstate :=
  match alookup ch (w_chans w) with
  | Some _ => w
  | None => set_chan w ch {| k_mail := []; k_tx := true; k_ready := false; k_queued := false |}
  end.

(* a slot is removed (channel closed): its receiver is dropped *)
Definition wremove (w : wstate) (ch : N) : wstate := with_chans w (aremove ch (w_chans w)).

Inductive action := ANone | ADeregister | AResume | ARearm.

(* (re)registering a ready receiver queues its node *)
Definition rearm (c : chan) : chan :=
  {| k_mail := k_mail c; k_tx := k_tx c; k_ready := k_ready c; k_queued := k_queued c || k_ready c |}.
Definition rearm_all (cs : alist chan) : alist chan := map (fun '(n, c) => (n, rearm c)) cs.

(* the throttle at the tail of run_io_loop *)
Definition wtail (w : wstate) : action * wstate :=
  if w_listening w && (w_high w <? w_out w) then
    (ADeregister, with_listening w false (w_need w))
  else if negb (w_listening w) && (w_out w <=? w_low w) then
    (AResume, with_listening (with_chans w (rearm_all (w_chans w))) true false)
  else if w_listening w && w_need w then
    (ARearm, with_listening (with_chans w (rearm_all (w_chans w))) true false)
  else (ANone, w).

(* ---------- runs ---------- *)

Inductive wop :=
| WSend (ch sz : N) | WDropTx (ch : N)
| WPoll | WEv (ch : N) | WWrote (k : N) | WGrow (k : N) | WAlloc (ch : N) | WRemove (ch : N) | WTail.

Definition wstep (w : wstate) (o : wop) : wstate :=
  match o with
  | WSend ch sz => snd (wsend w ch sz)
  | WDropTx ch => wdrop w ch
  | WPoll => snd (wpoll w)
  | WEv ch => snd (wevent w ch)
  | WWrote k => wwrote w k
  | WGrow k => wgrow w k
  | WAlloc ch => walloc w ch
  | WRemove ch => wremove w ch
  | WTail => snd (wtail w)
  end.

Definition wrun (w : wstate) (ops : list wop) : wstate := fold_left wstep ops w.
