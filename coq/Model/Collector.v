(* Model of src/io_loop/content_collector.rs.  No proofs.
   (After the fix of F5 the pre-allocation is capped, so a header never panics.) *)
From Amq Require Import Lib.Base Model.Frames.

Inductive ckind :=
| CDeliver (tag : str) (dtag : N) (redelivered : bool) (exch rk : str)
| CReturn (code : N) (text exch rk : str)
| CGet (dtag : N) (redelivered : bool) (exch rk : str) (count : N).

Inductive cstate :=
| CNone
| CStart (k : ckind)
| CBody (k : ckind) (size : N) (props : N) (acc : bytes).

Inductive cres :=
| CErr                                  (* FrameUnexpected *)
| CMore (st : cstate)                   (* Ok(None) *)
| CDone (k : ckind) (props : N) (body : bytes).   (* Ok(Some(..)), state back to None *)

(* collect_deliver / collect_return / collect_get *)
Definition collect_method (k : ckind) (st : cstate) : cres :=
  match st with
  | CNone => CMore (CStart k)
  | _ => CErr
  end.

Definition collect_header (size props : N) (st : cstate) : cres :=
  match st with
  | CStart k => if size =? 0 then CDone k props [] else CMore (CBody k size props [])
  | _ => CErr
  end.

Definition collect_body (body : bytes) (st : cstate) : cres :=
  match st with
  | CBody k size props acc =>
      let acc' := acc ++ body in
      match N.of_nat (length acc') ?= size with
      | Eq => CDone k props acc'
      | Lt => CMore (CBody k size props acc')
      | Gt => CErr
      end
  | _ => CErr
  end.
