(* Model of the I/O thread's steady state: ConnectionState::process
   (src/io_loop/connection_state.rs) and handle_steady_event / is_connection_done and the
   functions they call (src/io_loop/mod.rs), over explicit queues.  No proofs.
   Mirrors /repo as it is now (after the fixes F5, F6, F8, F13). *)
From Amq Require Import Lib.Base Gen.Consts Model.Wire Model.Frames Model.OutBuf
     Model.Collector Model.Slots.

(* ---------- frames the thread itself emits, as bytes ---------- *)

Definition shortstr (s : str) : bytes := (N.of_nat (length s) mod 256) :: s.  (* len as u8 *)
Definition method_frame (ch cls meth : N) (args : bytes) : bytes :=
  enc_frame 1 ch (be16 cls ++ be16 meth ++ args).
Definition ser_conn_close_ok : bytes := method_frame 0 10 51 [].
Definition ser_conn_close (code : N) (text : str) : bytes :=
  method_frame 0 10 50 (be16 code ++ shortstr text ++ be16 0 ++ be16 0).
Definition ser_chan_close_ok (ch : N) : bytes := method_frame ch 20 41 [].
Definition ser_cancel_ok (ch : N) (tag : str) : bytes := method_frame ch 60 31 (shortstr tag).
Definition ser_heartbeat : bytes := [8; 0; 0; 0; 0; 0; 0; 206].

(* decimal rendering of a channel number, as `{}` does *)
Fixpoint dec_digits (fuel : nat) (n : N) (acc : bytes) : bytes :=
  match fuel with
  | O => acc
  | S f => let acc' := (48 + n mod 10) :: acc in
           if n / 10 =? 0 then acc' else dec_digits f (n / 10) acc'
  end.
Definition dec (n : N) : bytes := dec_digits 20 n [].

(* ASCII text constants of the client-exception messages *)
Definition txt_ch0_method : bytes :=  (* "do not know how to handle channel 0 method " *)
  [100;111;32;110;111;116;32;107;110;111;119;32;104;111;119;32;116;111;32;104;97;110;100;108;101;
   32;99;104;97;110;110;101;108;32;48;32;109;101;116;104;111;100;32].
Definition txt_ch0_frame : bytes :=   (* "received illegal channel 0 frame " *)
  [114;101;99;101;105;118;101;100;32;105;108;108;101;103;97;108;32;99;104;97;110;110;101;108;32;48;
   32;102;114;97;109;101;32].
Definition txt_unimpl_a : bytes :=    (* "do not know how to handle channel " *)
  [100;111;32;110;111;116;32;107;110;111;119;32;104;111;119;32;116;111;32;104;97;110;100;108;101;
   32;99;104;97;110;110;101;108;32].
Definition txt_method : bytes := [32;109;101;116;104;111;100;32].   (* " method " *)
Definition txt_illegal_a : bytes :=   (* "illegal channel " *)
  [105;108;108;101;103;97;108;32;99;104;97;110;110;101;108;32].

Definition hard_not_implemented : N := 540.
Definition hard_not_allowed : N := 530.

(* ---------- queues from the I/O thread to clients ---------- *)

Record queue := {
  q_items : list qitem;
  q_hist : list qitem;   (* ghost: everything ever accepted by this queue, oldest first *)
  q_cap : option N;      (* None: unbounded *)
  q_tx : bool;           (* a sender is alive *)
  q_rx : bool }.         (* the receiver is alive *)

Definition qs := alist queue.

Inductive sres := SOk | SFull | SDisc.

Definition new_queue (cap : option N) : queue :=
  {| q_items := []; q_hist := []; q_cap := cap; q_tx := true; q_rx := true |}.

(* crossbeam try_send: disconnected is reported before full *)
Definition try_send (q : N) (it : qitem) (m : qs) : sres * qs :=
  match alookup q m with
  | None => (SDisc, m)
  | Some qu =>
      if negb (q_rx qu) then (SDisc, m)
      else
        let full := match q_cap qu with
                    | Some c => c <=? N.of_nat (length (q_items qu))
                    | None => false
                    end in
        if full then (SFull, m)
        else (SOk, ainsert q {| q_items := q_items qu ++ [it]; q_hist := q_hist qu ++ [it]; q_cap := q_cap qu;
                                q_tx := q_tx qu; q_rx := q_rx qu |} m)
  end.

Definition drop_tx (q : N) (m : qs) : qs :=
  match alookup q m with
  | None => m
  | Some qu => ainsert q {| q_items := q_items qu; q_hist := q_hist qu; q_cap := q_cap qu;
                            q_tx := false; q_rx := q_rx qu |} m
  end.

Definition drop_tx_opt (q : option N) (m : qs) : qs :=
  match q with Some q' => drop_tx q' m | None => m end.

(* ---------- state ---------- *)

Inductive phase :=
| PSteady
| PServerClosing (code : N) (text : str)
| PClientException
| PClientClosed.

Record slot := {
  s_mail : list msg;            (* mailbox handle -> thread, oldest first *)
  s_mail_tx : bool;             (* the handle (sender) is alive *)
  s_reply : N;                  (* reply queue id *)
  s_coll : cstate;
  s_consumers : list (str * N); (* consumer tag -> queue id *)
  s_ret : option N;
  s_conf : option N;
  s_ncons : N }.                (* consumer queues created so far on this slot (naming only) *)

(* Consumer queues are named after the slot's reply queue and a per-slot counter, so that a
   client can name them from what it receives on that reply queue alone. *)
Definition cons_qid (reply k : N) : N := 4294967296 + reply * 1048576 + k.

Record ch0slot := {
  z_mail : list msg;
  z_mail_tx : bool;
  z_reply : N;
  z_alloc_req : list (option N);
  z_alloc_tx : bool;
  z_alloc_rep : N;
  z_setb : list N;
  z_setb_tx : bool;
  z_blocked : option N }.

Record core := {
  c_phase : phase;
  c_out : outbuf;
  c_ids : slots;                (* ChannelSlots bookkeeping *)
  c_slots : alist slot;         (* its payloads *)
  c_ch0 : option ch0slot;       (* Some exactly while the state is Steady *)
  c_qs : qs;
  c_nextq : N;
  c_registered : bool;          (* channels_are_registered *)
  c_bound : N;                  (* mem_channel_bound *)
  c_high : N;                   (* buffered_writes_high_water *)
  c_need : bool }.              (* channels_need_repoll *)

Inductive outcome :=
| OOk
| OErr (e : err)
| OPanic (site : N).   (* 1 sealed-assert, 2 channel-0 handler assert, 3 free id occupied,
                          4 blocking send on a full internal queue (hang) *)

Definition set_phase c p := {| c_phase := p; c_out := c_out c; c_ids := c_ids c;
  c_slots := c_slots c; c_ch0 := c_ch0 c; c_qs := c_qs c; c_nextq := c_nextq c;
  c_registered := c_registered c; c_bound := c_bound c;
  c_high := c_high c; c_need := c_need c |}.
Definition set_out c o := {| c_phase := c_phase c; c_out := o; c_ids := c_ids c;
  c_slots := c_slots c; c_ch0 := c_ch0 c; c_qs := c_qs c; c_nextq := c_nextq c;
  c_registered := c_registered c; c_bound := c_bound c;
  c_high := c_high c; c_need := c_need c |}.
Definition set_qs c q := {| c_phase := c_phase c; c_out := c_out c; c_ids := c_ids c;
  c_slots := c_slots c; c_ch0 := c_ch0 c; c_qs := q; c_nextq := c_nextq c;
  c_registered := c_registered c; c_bound := c_bound c;
  c_high := c_high c; c_need := c_need c |}.
Definition set_slots c i s := {| c_phase := c_phase c; c_out := c_out c; c_ids := i;
  c_slots := s; c_ch0 := c_ch0 c; c_qs := c_qs c; c_nextq := c_nextq c;
  c_registered := c_registered c; c_bound := c_bound c;
  c_high := c_high c; c_need := c_need c |}.
Definition set_ch0 c z := {| c_phase := c_phase c; c_out := c_out c; c_ids := c_ids c;
  c_slots := c_slots c; c_ch0 := z; c_qs := c_qs c; c_nextq := c_nextq c;
  c_registered := c_registered c; c_bound := c_bound c;
  c_high := c_high c; c_need := c_need c |}.
Definition set_nextq c n := {| c_phase := c_phase c; c_out := c_out c; c_ids := c_ids c;
  c_slots := c_slots c; c_ch0 := c_ch0 c; c_qs := c_qs c; c_nextq := n;
  c_registered := c_registered c; c_bound := c_bound c;
  c_high := c_high c; c_need := c_need c |}.
Definition set_registered c b := {| c_phase := c_phase c; c_out := c_out c; c_ids := c_ids c;
  c_slots := c_slots c; c_ch0 := c_ch0 c; c_qs := c_qs c; c_nextq := c_nextq c;
  c_registered := b; c_bound := c_bound c;
  c_high := c_high c; c_need := c_need c |}.

Definition set_need c b := {| c_phase := c_phase c; c_out := c_out c; c_ids := c_ids c;
  c_slots := c_slots c; c_ch0 := c_ch0 c; c_qs := c_qs c; c_nextq := c_nextq c;
  c_registered := c_registered c; c_bound := c_bound c; c_high := c_high c; c_need := b |}.
Definition set_high c h := {| c_phase := c_phase c; c_out := c_out c; c_ids := c_ids c;
  c_slots := c_slots c; c_ch0 := c_ch0 c; c_qs := c_qs c; c_nextq := c_nextq c;
  c_registered := c_registered c; c_bound := c_bound c; c_high := h; c_need := c_need c |}.

Definition set_slot (c : core) (n : N) (s : slot) : core :=
  set_slots c (c_ids c) (ainsert n s (c_slots c)).

Definition push_out (c : core) (bs : bytes) : core := set_out c (ob_append (c_out c) bs).
Definition seal (c : core) : core := set_out c (ob_seal (c_out c)).

(* the initial state after the handshake: channel 0 has reply queue 0 and the
   allocation-reply queue 1; the protocol header has been written already *)
Definition init_core (channel_max bound : N) : core :=
  {| c_phase := PSteady;
     c_out := {| ob := []; ob_sealed := false |};
     c_ids := new_slots channel_max;
     c_slots := [];
     c_ch0 := Some {| z_mail := []; z_mail_tx := true; z_reply := 0;
                      z_alloc_req := []; z_alloc_tx := true; z_alloc_rep := 1;
                      z_setb := []; z_setb_tx := true; z_blocked := None |};
     c_qs := [(0, new_queue (Some c_reply_queue_bound)); (1, new_queue (Some 1))];
     c_nextq := 2;
     c_registered := true;
     c_bound := bound;
     c_high := c_default_high_water;
     c_need := false |}.

(* the listener sender a mailbox message carries, if any *)
Definition msg_q (m : msg) : option N :=
  match m with MsgSetReturn (Some q) | MsgSetConfirm (Some q) => Some q | _ => None end.

(* dropping the Channel0Slot: its senders disappear, and so do the ones still waiting in
   its set-blocked queue *)
Definition drop_ch0 (c : core) : core :=
  match c_ch0 c with
  | None => c
  | Some z =>
      set_ch0 (set_qs c (fold_left (fun m q => drop_tx q m) (z_setb z)
                 (drop_tx_opt (z_blocked z) (drop_tx (z_alloc_rep z) (drop_tx (z_reply z) (c_qs c))))))
              None
  end.

(* dropping a ChannelSlot value: its senders, and the listener senders still waiting in
   its mailbox *)
Definition drop_slot_qs (s : slot) (m : qs) : qs :=
  fold_left (fun m x => drop_tx_opt (msg_q x) m) (s_mail s)
    (drop_tx_opt (s_conf s) (drop_tx_opt (s_ret s)
      (fold_left (fun m '(_, q) => drop_tx q m) (s_consumers s) (drop_tx (s_reply s) m)))).

(* connection_state::send *)
Definition send (q : N) (it : qitem) (c : core) : outcome * core :=
  match try_send q it (c_qs c) with
  | (SOk, m) => (OOk, set_qs c m)
  | (SFull, _) => (OErr EFrameUnexpected, c)
  | (SDisc, _) => (OErr EClientDropped, c)
  end.

(* send the same terminal item to every consumer of a slot (consumers.drain()) *)
Fixpoint send_all (cons : list (str * N)) (it : qitem) (c : core) : outcome * core :=
  match cons with
  | [] => (OOk, c)
  | (_, q) :: cons' =>
      match send q it c with
      | (OOk, c') => send_all cons' it c'
      | r => r
      end
  end.

(* notify one slot that is going away and drop it.  The caller blocked on the reply queue may
   be the thread that owns the slot's consumers, in the middle of dropping one (a drop is a
   cancel call): it must be released last, after every consumer has its terminal message -
   server Connection.Close, the CloseOk for the client's Connection.Close, server Channel.Close
   (consumers_first = true).  The arm for the CloseOk of the client's own Channel.Close answers
   the caller first: no consumer of that channel can exist by then (they borrow the Channel) *)
Definition notify_slot_gen (consumers_first : bool) (s : slot) (rep cons : qitem) (c : core) : outcome * core :=
  let finish (rc : outcome * core) := (fst rc, set_qs (snd rc) (drop_slot_qs s (c_qs (snd rc)))) in
  if consumers_first then
    match send_all (s_consumers s) cons c with
    | (OOk, c1) => finish (send (s_reply s) rep c1)
    | rc => finish rc
    end
  else
    match send (s_reply s) rep c with
    | (OOk, c1) => finish (send_all (s_consumers s) cons c1)
    | rc => finish rc
    end.
Definition notify_slot := notify_slot_gen true.
Definition notify_slot_cf := notify_slot_gen false.

(* `for (_, slot) in chan_slots.drain()`: the table is emptied first (all ids freed);
   iteration order is the HashMap's - modelled as ascending ids *)
Fixpoint notify_all (ss : list (N * slot)) (rep cons : qitem) (c : core) : outcome * core :=
  match ss with
  | [] => (OOk, c)
  | (_, s) :: ss' =>
      match notify_slot s rep cons c with
      | (OOk, c') => notify_all ss' rep cons c'
      | (r, c') =>
          (* the remaining slots are dropped without notification *)
          (r, set_qs c' (fold_left (fun m '(_, s') => drop_slot_qs s' m) ss' (c_qs c')))
      end
  end.

Fixpoint insert_by_id (x : N * slot) (l : list (N * slot)) : list (N * slot) :=
  match l with
  | [] => [x]
  | y :: l' => if fst x <=? fst y then x :: l else y :: insert_by_id x l'
  end.
Definition sort_slots (l : list (N * slot)) : list (N * slot) := fold_right insert_by_id [] l.

Definition drain_slots (rep cons : qitem) (c : core) : outcome * core :=
  let ss := sort_slots (c_slots c) in
  let c1 := set_slots c (snd (drain (c_ids c))) [] in
  notify_all ss rep cons c1.

(* the reply text travels as a short string: at most 255 bytes, cut at a UTF-8 character
   boundary (a continuation byte is 10xxxxxx); a code point has at most 3 of them *)
Definition is_cont (b : N) : bool := (128 <=? b) && (b <? 192).
Fixpoint boundary_back (fuel : nat) (s : str) (e : nat) : nat :=
  match fuel with
  | O => e
  | S f => match nth_error s e with
           | Some b => if is_cont b then boundary_back f s (e - 1) else e
           | None => e
           end
  end.
Definition trunc255 (s : str) : str :=
  if (length s <=? 255)%nat then s else firstn (boundary_back 255 s 255) s.

(* ConnectionState::client_exception *)
Definition client_exception (code : N) (text : str) (c : core) : outcome * core :=
  let c1 := seal (push_out c (ser_conn_close code (trunc255 text))) in
  (OOk, set_phase (drop_ch0 c1) PClientException).

(* listeners: try_send_return / try_send_confirm / try_send_blocked *)
Definition listener_send (q : option N) (it : qitem) (m : qs) : option N * qs :=
  match q with
  | None => (None, m)
  | Some q' =>
      match try_send q' it m with
      | (SOk, m') => (Some q', m')
      | (_, _) => (None, drop_tx q' m)       (* handler cleared: sender dropped *)
      end
  end.

Fixpoint lookup_tag (tag : str) (l : list (str * N)) : option N :=
  match l with
  | [] => None
  | (t, q) :: l' => if bytes_eqb tag t then Some q else lookup_tag tag l'
  end.
Fixpoint remove_tag (tag : str) (l : list (str * N)) : list (str * N) :=
  match l with
  | [] => []
  | (t, q) :: l' => if bytes_eqb tag t then remove_tag tag l' else (t, q) :: remove_tag tag l'
  end.

Definition with_coll (s : slot) (st : cstate) : slot :=
  {| s_mail := s_mail s; s_mail_tx := s_mail_tx s; s_reply := s_reply s; s_coll := st;
     s_consumers := s_consumers s; s_ret := s_ret s; s_conf := s_conf s; s_ncons := s_ncons s |}.
Definition with_consumers (s : slot) (l : list (str * N)) : slot :=
  {| s_mail := s_mail s; s_mail_tx := s_mail_tx s; s_reply := s_reply s; s_coll := s_coll s;
     s_consumers := l; s_ret := s_ret s; s_conf := s_conf s; s_ncons := s_ncons s |}.
Definition with_new_consumer (s : slot) (tag : str) (q : N) : slot :=
  {| s_mail := s_mail s; s_mail_tx := s_mail_tx s; s_reply := s_reply s; s_coll := s_coll s;
     s_consumers := (tag, q) :: s_consumers s; s_ret := s_ret s; s_conf := s_conf s;
     s_ncons := s_ncons s + 1 |}.
Definition with_ret (s : slot) (q : option N) : slot :=
  {| s_mail := s_mail s; s_mail_tx := s_mail_tx s; s_reply := s_reply s; s_coll := s_coll s;
     s_consumers := s_consumers s; s_ret := q; s_conf := s_conf s; s_ncons := s_ncons s |}.
Definition with_conf (s : slot) (q : option N) : slot :=
  {| s_mail := s_mail s; s_mail_tx := s_mail_tx s; s_reply := s_reply s; s_coll := s_coll s;
     s_consumers := s_consumers s; s_ret := s_ret s; s_conf := q; s_ncons := s_ncons s |}.
Definition with_mail (s : slot) (l : list msg) : slot :=
  {| s_mail := l; s_mail_tx := s_mail_tx s; s_reply := s_reply s; s_coll := s_coll s;
     s_consumers := s_consumers s; s_ret := s_ret s; s_conf := s_conf s; s_ncons := s_ncons s |}.

(* completed content is dispatched by kind (Header / Body arms) *)
Definition dispatch (n : N) (s : slot) (k : ckind) (props : N) (body : bytes) (c : core)
  : outcome * core :=
  match k with
  | CDeliver tag dtag red exch rk =>
      match lookup_tag tag (s_consumers s) with
      | None => (OErr (EUnknownConsumerTag n tag), c)
      | Some q =>
          send q (IDelivery {| m_ch := n; m_dtag := dtag; m_redelivered := red; m_exch := exch;
                               m_rk := rk; m_body := body; m_props := props |}) c
      end
  | CReturn code text exch rk =>
      let '(h, m) := listener_send (s_ret s) (IReturn code text exch rk body props) (c_qs c) in
      (OOk, set_slot (set_qs c m) n (with_ret s h))
  | CGet dtag red exch rk count =>
      send (s_reply s)
           (IReplyGet (Some ({| m_ch := n; m_dtag := dtag; m_redelivered := red; m_exch := exch;
                                m_rk := rk; m_body := body; m_props := props |}, count))) c
  end.

Definition collect (n : N) (s : slot) (r : cres) (c : core) : outcome * core :=
  match r with
  | CErr => (OErr EFrameUnexpected, set_slot c n (with_coll s CNone))
  | CMore st => (OOk, set_slot c n (with_coll s st))
  | CDone k props body =>
      let s' := with_coll s CNone in
      dispatch n s' k props body (set_slot c n s')
  end.

Definition remove_slot (n : N) (c : core) : core :=
  set_slots c (snd (remove n (c_ids c))) (aremove n (c_slots c)).

(* the arms of process for a method on a non-zero channel n *)
Definition process_method (n : N) (m : smethod) (dbg : str) (c : core) : outcome * core :=
  let illegal := client_exception hard_not_allowed
                   (txt_illegal_a ++ dec n ++ txt_method ++ dbg) c in
  let with_slot (f : slot -> outcome * core) : outcome * core :=
    match alookup n (c_slots c) with
    | None => (OErr (EBogusChannel n), c)
    | Some s => f s
    end in
  match m with
  | MChanClose code text =>
      match alookup n (c_slots c) with
      | None => (OErr (EBogusChannel n), c)
      | Some s =>
          let e := EServerClosedChannel n code text in
          match notify_slot s (IReplyErr e) (IServerClosedChannel e) (remove_slot n c) with
          | (OOk, c') => (OOk, push_out c' (ser_chan_close_ok n))
          | r => r
          end
      end
  | MChanCloseOk =>
      match alookup n (c_slots c) with
      | None => (OOk, c)
      | Some s => notify_slot_cf s (IReplyMethod MChanCloseOk) IClientClosedChannel (remove_slot n c)
      end
  | MConsumeOk tag =>
      with_slot (fun s =>
        match lookup_tag tag (s_consumers s) with
        | Some _ => (OErr (EDuplicateConsumerTag n tag), c)
        | None =>
            let q := cons_qid (s_reply s) (s_ncons s) in
            let c1 := set_qs c (ainsert q (new_queue None) (c_qs c)) in
            let c2 := set_slot c1 n (with_new_consumer s tag q) in
            send (s_reply s) (IReplyConsumeOk tag q) c2
        end)
  | MCancel tag nowait =>
      with_slot (fun s =>
        let r :=
          match lookup_tag tag (s_consumers s) with
          | Some q =>
              let c1 := set_slot c n (with_consumers s (remove_tag tag (s_consumers s))) in
              match send q IServerCancelled c1 with
              | (OOk, c2) => (OOk, set_qs c2 (drop_tx q (c_qs c2)))
              | (r, c2) => (r, set_qs c2 (drop_tx q (c_qs c2)))
              end
          | None => (OOk, c)
          end in
        match r with
        | (OOk, c3) => (OOk, if nowait then c3 else push_out c3 (ser_cancel_ok n tag))
        | r' => r'
        end)
  | MCancelOk tag =>
      with_slot (fun s =>
        let cq := lookup_tag tag (s_consumers s) in
        let c1 := set_slot c n (with_consumers s (remove_tag tag (s_consumers s))) in
        (* the consumer is told first, the caller is answered second: the caller may drop
           the consumer's receiver as soon as it has its answer *)
        let '(r1, c2) :=
          match cq with
          | Some q =>
              match send q IClientCancelled c1 with
              | (r, c') => (r, set_qs c' (drop_tx q (c_qs c')))
              end
          | None => (OOk, c1)
          end in
        match r1 with
        | OOk => send (s_reply s) (IReplyMethod (MCancelOk tag)) c2
        | _ => (r1, c2)
        end)
  | MDeliver tag dtag red exch rk =>
      with_slot (fun s => collect n s (collect_method (CDeliver tag dtag red exch rk) (s_coll s)) c)
  | MReturn code text exch rk =>
      with_slot (fun s => collect n s (collect_method (CReturn code text exch rk) (s_coll s)) c)
  | MGetOk dtag red exch rk count =>
      with_slot (fun s => collect n s (collect_method (CGet dtag red exch rk count) (s_coll s)) c)
  | MGetEmpty => with_slot (fun s => send (s_reply s) (IReplyGet None) c)
  | MAck dtag multiple =>
      with_slot (fun s =>
        let '(h, qm) := listener_send (s_conf s) (IConfirm true dtag multiple) (c_qs c) in
        (OOk, set_slot (set_qs c qm) n (with_conf s h)))
  | MNack dtag multiple =>
      with_slot (fun s =>
        let '(h, qm) := listener_send (s_conf s) (IConfirm false dtag multiple) (c_qs c) in
        (OOk, set_slot (set_qs c qm) n (with_conf s h)))
  | MGeneric k str a b => with_slot (fun s => send (s_reply s) (IReplyMethod m) c)
  | MUnimpl =>
      client_exception hard_not_implemented (txt_unimpl_a ++ dec n ++ txt_method ++ dbg) c
  | MIllegal | MConnClose _ _ | MConnCloseOk | MBlocked _ | MUnblocked | MConnOther => illegal
  end.

(* ConnectionState::process *)
Definition process (c : core) (df : dframe) : outcome * core :=
  let '(f, dbg) := df in
  match c_phase c with
  | PClientException => (OOk, c)
  | PServerClosing _ _ | PClientClosed => (OErr EFrameUnexpected, c)
  | PSteady =>
      match f with
      | FHeartbeat 0 => (OOk, c)
      | FProtoHeader | FHeartbeat _ => (OErr EFrameUnexpected, c)
      | FMethod 0 (MConnClose code text) =>
          let c1 := seal (push_out c ser_conn_close_ok) in
          let c2 := set_phase (drop_ch0 c1) (PServerClosing code text) in
          let e := EServerClosedConnection code text in
          drain_slots (IReplyErr e) (IServerClosedConnection e) c2
      | FMethod 0 MConnCloseOk =>
          match c_ch0 c with
          | None => (OPanic 2, c)     (* cannot happen: Steady holds the slot *)
          | Some z =>
              match try_send (z_reply z) (IReplyMethod MConnCloseOk) (c_qs c) with
              | (SDisc, _) => (OErr EClientDropped, c)
              | (SFull, _) => (OPanic 4, c)   (* blocking send on a full queue *)
              | (SOk, m) =>
                  let c2 := set_phase (drop_ch0 (set_qs c m)) PClientClosed in
                  drain_slots (IReplyErr EClientClosedConnection) IClientClosedConnection c2
              end
          end
      | FMethod 0 (MBlocked reason) =>
          match c_ch0 c with
          | None => (OPanic 2, c)
          | Some z =>
              let '(h, m) := listener_send (z_blocked z) (IBlocked reason) (c_qs c) in
              (OOk, set_ch0 (set_qs c m) (Some {| z_mail := z_mail z; z_mail_tx := z_mail_tx z;
                 z_reply := z_reply z; z_alloc_req := z_alloc_req z; z_alloc_tx := z_alloc_tx z;
                 z_alloc_rep := z_alloc_rep z; z_setb := z_setb z; z_setb_tx := z_setb_tx z;
                 z_blocked := h |}))
          end
      | FMethod 0 MUnblocked =>
          match c_ch0 c with
          | None => (OPanic 2, c)
          | Some z =>
              let '(h, m) := listener_send (z_blocked z) IUnblocked (c_qs c) in
              (OOk, set_ch0 (set_qs c m) (Some {| z_mail := z_mail z; z_mail_tx := z_mail_tx z;
                 z_reply := z_reply z; z_alloc_req := z_alloc_req z; z_alloc_tx := z_alloc_tx z;
                 z_alloc_rep := z_alloc_rep z; z_setb := z_setb z; z_setb_tx := z_setb_tx z;
                 z_blocked := h |}))
          end
      | FMethod 0 _ => client_exception hard_not_implemented (txt_ch0_method ++ dbg) c
      | FHeader 0 _ _ | FBody 0 _ => client_exception hard_not_allowed (txt_ch0_frame ++ dbg) c
      | FMethod n m => process_method n m dbg c
      | FHeader n size props =>
          match alookup n (c_slots c) with
          | None => (OErr (EBogusChannel n), c)
          | Some s => collect n s (collect_header size props (s_coll s)) c
          end
      | FBody n body =>
          match alookup n (c_slots c) with
          | None => (OErr (EBogusChannel n), c)
          | Some s => collect n s (collect_body body (s_coll s)) c
          end
      end
  end.

(* frames of one read episode, in order, until one fails *)
Fixpoint process_all (c : core) (fs : list dframe) : outcome * core :=
  match fs with
  | [] => (OOk, c)
  | f :: fs' =>
      match process c f with
      | (OOk, c') => process_all c' fs'
      | r => r
      end
  end.

(* ---------- events ---------- *)

Inductive rterm := TBlock | TEof | TIoErr | TMalformed.
Inductive hbkind := HbRx | HbTx.

Inductive event :=
| EvStream (w : option (list wr)) (r : option (list dframe * rterm))
| EvHeartbeat (fired : list (hbkind * bool))     (* timer.poll() items; true = Expired *)
| EvSetBlocked
| EvAlloc
| EvChan (n : N).                                (* Token(n), n = 0 included *)

(* Inner::process_channel_message *)
Definition channel_message (n : N) (m : msg) (c : core) : outcome * core :=
  match m with
  | MsgConnClose buf => (OOk, seal (push_out c buf))
  | MsgSend buf => (OOk, push_out c buf)
  | MsgSetReturn h =>
      if n =? 0 then (OPanic 2, c) else
      match alookup n (c_slots c) with
      | None => (OPanic 2, c)
      | Some s => (OOk, set_slot (set_qs c (drop_tx_opt (s_ret s) (c_qs c))) n (with_ret s h))
      end
  | MsgSetConfirm h =>
      if n =? 0 then (OPanic 2, c) else
      match alookup n (c_slots c) with
      | None => (OPanic 2, c)
      | Some s => (OOk, set_slot (set_qs c (drop_tx_opt (s_conf s) (c_qs c))) n (with_conf s h))
      end
  end.

(* handle_channel_readable(n, high), n <> 0: drain the mailbox - but stop, and owe the
   channels a re-poll, as soon as the out-buffer is above the high-water mark (the check
   comes before anything else in the loop, also before the slot is looked up) *)
Definition out_len (c : core) : N := N.of_nat (length (ob (c_out c))).
Fixpoint chan_readable (fuel : nat) (n : N) (c : core) : outcome * core :=
  match fuel with
  | O => (OOk, c)
  | S f =>
      if c_high c <? out_len c then (OOk, set_need c true) else
      match alookup n (c_slots c) with
      | None => (OOk, c)                                   (* stale wake-up *)
      | Some s =>
          match s_mail s with
          | [] => if s_mail_tx s then (OOk, c) else (OErr EClientDropped, c)
          | m :: rest =>
              match channel_message n m (set_slot c n (with_mail s rest)) with
              | (OOk, c') => chan_readable f n c'
              | r => r
              end
          end
      end
  end.

Definition z_with_mail (z : ch0slot) (l : list msg) : ch0slot :=
  {| z_mail := l; z_mail_tx := z_mail_tx z; z_reply := z_reply z; z_alloc_req := z_alloc_req z;
     z_alloc_tx := z_alloc_tx z; z_alloc_rep := z_alloc_rep z; z_setb := z_setb z;
     z_setb_tx := z_setb_tx z; z_blocked := z_blocked z |}.
Definition z_with_alloc (z : ch0slot) (l : list (option N)) : ch0slot :=
  {| z_mail := z_mail z; z_mail_tx := z_mail_tx z; z_reply := z_reply z; z_alloc_req := l;
     z_alloc_tx := z_alloc_tx z; z_alloc_rep := z_alloc_rep z; z_setb := z_setb z;
     z_setb_tx := z_setb_tx z; z_blocked := z_blocked z |}.
Definition z_with_setb (z : ch0slot) (l : list N) (b : option N) : ch0slot :=
  {| z_mail := z_mail z; z_mail_tx := z_mail_tx z; z_reply := z_reply z;
     z_alloc_req := z_alloc_req z; z_alloc_tx := z_alloc_tx z; z_alloc_rep := z_alloc_rep z;
     z_setb := l; z_setb_tx := z_setb_tx z; z_blocked := b |}.

(* handle_channel0_readable *)
Fixpoint ch0_readable (fuel : nat) (c : core) : outcome * core :=
  match fuel with
  | O => (OOk, c)
  | S f =>
      match c_ch0 c with
      | None => (OOk, c)          (* stale wake-up after the slot was dropped (F6) *)
      | Some z =>
          match z_mail z with
          | [] => if z_mail_tx z then (OOk, c) else (OErr EClientDropped, c)
          | m :: rest =>
              match channel_message 0 m (set_ch0 c (Some (z_with_mail z rest))) with
              | (OOk, c') => ch0_readable f c'
              | r => r
              end
          end
      end
  end.

(* handle_set_blocked_tx *)
Fixpoint set_blocked (fuel : nat) (c : core) : outcome * core :=
  match fuel with
  | O => (OOk, c)
  | S f =>
      match c_ch0 c with
      | None => (OOk, c)
      | Some z =>
          match z_setb z with
          | [] => if z_setb_tx z then (OOk, c) else (OErr EClientDropped, c)
          | q :: rest =>
              set_blocked f (set_ch0 (set_qs c (drop_tx_opt (z_blocked z) (c_qs c)))
                                     (Some (z_with_setb z rest (Some q))))
          end
      end
  end.

Definition new_slot (reply : N) : slot :=
  {| s_mail := []; s_mail_tx := true; s_reply := reply; s_coll := CNone;
     s_consumers := []; s_ret := None; s_conf := None; s_ncons := 0 |}.

Definition res_to_item (r : res) : qitem :=
  match r with
  | ROk id => IAllocOk id
  | RUnavailable id => IAllocErr (EUnavailableChannelId id)
  | RExhausted => IAllocErr EExhaustedChannelIds
  | _ => IAllocErr EOther
  end.

(* Inner::allocate_channel *)
Fixpoint allocate (fuel : nat) (c : core) : outcome * core :=
  match fuel with
  | O => (OOk, c)
  | S f =>
      match c_ch0 c with
      | None => (OOk, c)
      | Some z =>
          match z_alloc_req z with
          | [] => if z_alloc_tx z then (OOk, c) else (OErr EClientDropped, c)
          | req :: rest =>
              let c0 := set_ch0 c (Some (z_with_alloc z rest)) in
              let '(r, ids') := match req with
                                | Some id => insert_some true id (c_ids c0)
                                | None => insert_none true (c_ids c0)
                                end in
              match r with
              | RPanic => (OPanic 3, c0)
              | ROk id =>
                  let q := c_nextq c0 in
                  let c1 := set_nextq (set_qs c0 (ainsert q (new_queue (Some c_reply_queue_bound))
                                                          (c_qs c0))) (q + 1) in
                  let c2 := set_slots c1 ids' (ainsert id (new_slot q) (c_slots c1)) in
                  match try_send (z_alloc_rep z) (IAllocOk id) (c_qs c2) with
                  | (SOk, m) => allocate f (set_qs c2 m)
                  | (SFull, _) => (OPanic 4, c2)
                  | (SDisc, _) =>
                      (* hand-over failed: clear the allocated channel *)
                      allocate f (set_qs (remove_slot id c2) (drop_tx q (c_qs c2)))
                  end
              | _ =>
                  let c2 := set_slots c0 ids' (c_slots c0) in
                  match try_send (z_alloc_rep z) (res_to_item r) (c_qs c2) with
                  | (SOk, m) => allocate f (set_qs c2 m)
                  | (SFull, _) => (OPanic 4, c2)
                  | (SDisc, _) => allocate f c2
                  end
              end
          end
      end
  end.

(* Inner::process_heartbeat_timers, the timer wheel abstracted to what poll() yields *)
Fixpoint heartbeat_timers (fired : list (hbkind * bool)) (c : core) : outcome * core :=
  match fired with
  | [] => (OOk, c)
  | (HbRx, true) :: _ => (OErr EMissedHeartbeats, c)
  | (HbTx, true) :: rest =>
      heartbeat_timers rest
        (match ob (c_out c) with [] => push_out c ser_heartbeat | _ => c end)
  | (_, false) :: rest => heartbeat_timers rest c
  end.

Definition term_outcome (t : rterm) : outcome :=
  match t with
  | TBlock => OOk
  | TEof => OErr EUnexpectedSocketClose
  | TIoErr => OErr EIoRead
  | TMalformed => OErr EMalformed
  end.

Definition is_client_closed (c : core) : bool :=
  match c_phase c with PClientClosed => true | _ => false end.

Definition mail_fuel (c : core) : nat :=
  S (fold_left (fun a '(_, s) => (a + length (s_mail s))%nat) (c_slots c) 0%nat
     + match c_ch0 c with
       | Some z => length (z_mail z) + length (z_alloc_req z) + length (z_setb z)
       | None => 0
       end)%nat.

(* handle_steady_event.  The bytes the transport accepted are returned as well. *)
Definition handle_event (c : core) (e : event) : outcome * core * bytes :=
  match e with
  | EvStream w r =>
      let '(o1, c1, wire) :=
        match w with
        | None => (OOk, c, [])
        | Some oracle =>
            let '(bs, wr, ob', _) := write_to_stream (c_out c) oracle in
            (match wr with WOk => OOk | WIoErr => OErr EIoWrite | WStuck => OPanic 0 end,
             set_out c ob', bs)
        end in
      match o1 with
      | OOk =>
          match r with
          | None => (OOk, c1, wire)
          | Some (fs, t) =>
              let '(o2, c2) := process_all c1 fs in
              let o3 := match o2 with OOk => term_outcome t | _ => o2 end in
              (* F8: once the close handshake has completed, whatever the socket does
                 afterwards in this read is not an error *)
              ((match o3 with OPanic _ => o3 | _ => if is_client_closed c2 then OOk else o3 end),
               c2, wire)
          end
      | _ => (o1, c1, wire)
      end
  | EvHeartbeat fired => let '(o, c') := heartbeat_timers fired c in (o, c', [])
  | EvSetBlocked => let '(o, c') := set_blocked (mail_fuel c) c in (o, c', [])
  | EvAlloc => let '(o, c') := allocate (mail_fuel c) c in (o, c', [])
  | EvChan n =>
      let '(o, c') := if n =? 0 then ch0_readable (mail_fuel c) c
                      else chan_readable (mail_fuel c) n c in (o, c', [])
  end.

Inductive done := DNotDone | DDone | DAssertFailed.

(* is_connection_done *)
Definition is_done (c : core) : done :=
  match c_phase c with
  | PSteady => DNotDone
  | PClientClosed => DDone
  | PServerClosing _ _ | PClientException =>
      if ob_sealed (c_out c) then
        match ob (c_out c) with [] => DDone | _ => DNotDone end
      else DAssertFailed
  end.

(* what run_connection returns once the loop ended without an error *)
Definition final_result (c : core) : outcome :=
  match c_phase c with
  | PSteady => OPanic 5
  | PServerClosing code text => OErr (EServerClosedConnection code text)
  | PClientException => OErr EClientException
  | PClientClosed => OOk
  end.

(* dropping the whole loop state when the thread ends: every sender disappears *)
Definition teardown (c : core) : core :=
  let c1 := drop_ch0 c in
  set_slots (set_qs c1 (fold_left (fun m '(_, s) => drop_slot_qs s m) (c_slots c1) (c_qs c1)))
            (c_ids c1) [].

(* the event loop body: the events of one poll batch in order, stopping at the first error
   (run_io_loop: `for event in events.iter() { self.handle_steady_event(..)? }`) *)
Fixpoint run_batch (c : core) (evs : list event) : outcome * core * bytes :=
  match evs with
  | [] => (OOk, c, [])
  | e :: evs' =>
      let '(o, c1, w) := handle_event c e in
      match o with
      | OOk => let '(o2, c2, w2) := run_batch c1 evs' in (o2, c2, w ++ w2)
      | _ => (o, c1, w)
      end
  end.
