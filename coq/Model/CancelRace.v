(* The one place where the I/O thread's handling of a frame is NOT atomic with respect to a
   client thread: for a CancelOk it performs two queue operations - the answer to the caller
   of basic_cancel and the ClientCancelled notice to the consumer - and the caller, released by
   the first, goes on to drop the consumer's receiver (Consumer::drop cancels, then the fields
   are dropped).  Small-step model of the two threads; the order of the two operations is a
   parameter.  No proofs. *)
From Amq Require Import Lib.Base.

Inductive io_op := Notify | Reply.
Inductive caller := Blocked | Released | DroppedRx.

Record rstate := {
  r_todo : list io_op;        (* what the I/O thread still has to do for this frame *)
  r_reply_sent : bool;
  r_notified : bool;
  r_caller : caller;
  r_failed : bool }.          (* a send found the receiver dropped: EventLoopClientDropped,
                                 the I/O loop ends and takes the connection with it *)

Definition rinit (order : list io_op) : rstate :=
  {| r_todo := order; r_reply_sent := false; r_notified := false; r_caller := Blocked; r_failed := false |}.

Inductive actor := IO | Caller.

Definition rstep (s : rstate) (a : actor) : rstate :=
  match a with
  | IO =>
      match r_todo s with
      | [] => s
      | Notify :: t =>
          match r_caller s with
          | DroppedRx => {| r_todo := []; r_reply_sent := r_reply_sent s; r_notified := false;
                            r_caller := r_caller s; r_failed := true |}
          | _ => {| r_todo := t; r_reply_sent := r_reply_sent s; r_notified := true;
                    r_caller := r_caller s; r_failed := r_failed s |}
          end
      | Reply :: t => {| r_todo := t; r_reply_sent := true; r_notified := r_notified s;
                         r_caller := r_caller s; r_failed := r_failed s |}
      end
  | Caller =>
      match r_caller s with
      | Blocked => if r_reply_sent s
                   then {| r_todo := r_todo s; r_reply_sent := true; r_notified := r_notified s;
                           r_caller := Released; r_failed := r_failed s |}
                   else s
      | Released => {| r_todo := r_todo s; r_reply_sent := r_reply_sent s; r_notified := r_notified s;
                       r_caller := DroppedRx; r_failed := r_failed s |}
      | DroppedRx => s
      end
  end.

Definition rrun (s : rstate) (sched : list actor) : rstate := fold_left rstep sched s.

(* the order of the code as it is now, and the order it had before the repair *)
Definition order_now : list io_op := [Notify; Reply].
Definition order_before : list io_op := [Reply; Notify].
