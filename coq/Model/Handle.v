(* Model of the caller's side of a channel: IoLoopHandle::call / call_nowait / get / consume
   (src/io_loop/io_loop_handle.rs): send the request into the mailbox, then take the next
   item of the channel's own reply queue and check that it is of the expected kind; if the
   send fails (the I/O thread dropped the mailbox's receiver) report what the reply queue
   says about why.  None = the call blocks (nothing queued yet, the sender still alive).
   No proofs. *)
From Amq Require Import Lib.Base.

Inductive hitem :=
| HMethod (cls : N)        (* Ok(ChannelMessage::Method(m)); cls identifies the method type *)
| HGet                     (* Ok(ChannelMessage::GetOk(_)) *)
| HConsume                 (* Ok(ChannelMessage::ConsumeOk(_, _)) *)
| HErr (e : N).            (* Err(e): the I/O thread's verdict (ServerClosedChannel, ...) *)

Inductive hcall :=
| CCall (want : N)         (* call::<_, T>: T::try_from accepts exactly class `want` *)
| CGet | CConsume
| CNowait.

Inductive hres :=
| ROk (cls : N)            (* the reply, as the expected type (0 for get / consume / nowait) *)
| RFrameUnexpected
| RDropped                 (* EventLoopDropped *)
| RErrItem (e : N).

Record hstate := {
  h_replies : list hitem;  (* the reply queue, oldest first *)
  h_reply_tx : bool;       (* the I/O thread still holds its sender *)
  h_mail_rx : bool;        (* the I/O thread still holds the mailbox's receiver *)
  h_mail : N }.            (* requests sitting in the mailbox *)

Definition classify (c : hcall) (it : hitem) : hres :=
  match it, c with
  | HErr e, _ => RErrItem e
  | HMethod cls, CCall want => if cls =? want then ROk cls else RFrameUnexpected
  | HGet, CGet => ROk 0
  | HConsume, CConsume => ROk 0
  | _, _ => RFrameUnexpected
  end.

Definition with_replies (s : hstate) (r : list hitem) (mail : N) : hstate :=
  {| h_replies := r; h_reply_tx := h_reply_tx s; h_mail_rx := h_mail_rx s; h_mail := mail |}.

Definition hstep (c : hcall) (s : hstate) : option (hres * hstate) :=
  if h_mail_rx s then
    (* send succeeded *)
    match c with
    | CNowait => Some (ROk 0, with_replies s (h_replies s) (h_mail s + 1))
    | _ =>
        match h_replies s with
        | it :: r => Some (classify c it, with_replies s r (h_mail s + 1))
        | [] => if h_reply_tx s then None else Some (RDropped, with_replies s [] (h_mail s + 1))
        end
    end
  else
    (* send failed: check_recv_for_error *)
    match h_replies s with
    | HErr e :: r => Some (RErrItem e, with_replies s r (h_mail s))
    | _ :: r => Some (RFrameUnexpected, with_replies s r (h_mail s))
    | [] => if h_reply_tx s then None else Some (RDropped, s)
    end.

(* a sequence of calls, stopping at the first that would block *)
Fixpoint hrun (cs : list hcall) (s : hstate) : list hres * hstate :=
  match cs with
  | [] => ([], s)
  | c :: cs' =>
      match hstep c s with
      | None => ([], s)
      | Some (r, s') => let '(rs, s'') := hrun cs' s' in (r :: rs, s'')
      end
  end.
