(* Model of the heartbeat rule: Heartbeat::fire / record_activity (src/heartbeats.rs),
   RxTxHeartbeat::new, Inner::start_heartbeats, process_heartbeat_timers
   (src/io_loop/heartbeat_timers.rs, src/io_loop/mod.rs), over an abstract clock in
   milliseconds.  No proofs. *)
From Amq Require Import Lib.Base Gen.Consts.

Definition fudge_ms : N := 5.

Record hb := { h_last : N; h_interval : N; h_deadline : N }.   (* deadline: what the timer is armed for *)

Definition hb_start (now interval : N) : hb :=
  {| h_last := now; h_interval := interval; h_deadline := now + interval |}.

Definition hb_record (now : N) (h : hb) : hb :=
  {| h_last := now; h_interval := h_interval h; h_deadline := h_deadline h |}.

(* fire at time `now` (now >= last): true = Expired *)
Definition hb_fire (now : N) (h : hb) : bool * hb :=
  let elapsed := now - h_last h in
  if h_interval h <=? elapsed + fudge_ms
  then (true, {| h_last := h_last h; h_interval := h_interval h; h_deadline := now + h_interval h |})
  else (false, {| h_last := h_last h; h_interval := h_interval h;
                  h_deadline := now + (h_interval h - elapsed) |}).

(* start_heartbeats(h seconds): nothing for 0; rx at MAX_MISSED * h, tx at h *)
Definition start_heartbeats (now secs : N) : option (hb * hb) :=
  if secs =? 0 then None
  else Some (hb_start now (c_rx_interval_ms_per_s * secs), hb_start now (c_tx_interval_ms_per_s * secs)).

(* the life of the receive timer: bytes read, and timer events handled *)
Inductive rx_ev := RxRead (t : N) | RxFire (t : N).

Definition ev_time (e : rx_ev) : N := match e with RxRead t | RxFire t => t end.

(* runs until MissedServerHeartbeats (Some t) or the end of the trace *)
Fixpoint rx_run (h : hb) (evs : list rx_ev) : option N * hb :=
  match evs with
  | [] => (None, h)
  | RxRead t :: evs' => rx_run (hb_record t h) evs'
  | RxFire t :: evs' =>
      let '(expired, h') := hb_fire t h in
      if expired then (Some t, h') else rx_run h' evs'
  end.

(* the send timer: writes, and timer events with whether the out-buffer is empty; the
   result lists the times at which a heartbeat frame is queued *)
Inductive tx_ev := TxWrite (t : N) | TxFire (t : N) (outbuf_empty : bool).

Fixpoint tx_run (h : hb) (evs : list tx_ev) : list N :=
  match evs with
  | [] => []
  | TxWrite t :: evs' => tx_run (hb_record t h) evs'
  | TxFire t empty :: evs' =>
      let '(expired, h') := hb_fire t h in
      (if expired && empty then [t] else []) ++ tx_run h' evs'
  end.
