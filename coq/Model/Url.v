(* Model of amqp_url (src/connection.rs): populate_host_and_port, decode, the scheme gate
   of open.  Input: the URL as the `url` crate has split it (its splitting is taken as
   given; the harness asks the real crate).  No proofs. *)
From Amq Require Import Lib.Base Gen.Consts.

Definition str := bytes.

Record surl := {
  u_scheme : str;
  u_user : str;                     (* raw (still percent-encoded) user name, "" if absent *)
  u_pass : option str;              (* raw password *)
  u_host : option str;              (* host_str() *)
  u_port : option N;                (* port() *)
  u_segments : option (list str);   (* path_segments(), raw *)
  u_query : list (str * str) }.     (* query_pairs(), already decoded by the url crate *)

Inductive uauth := UPlain (user pass : str) | UExternal.

Record uopts := {
  v_vhost : str; v_auth : uauth; v_heartbeat : N; v_channel_max : N;
  v_timeout : option N }.           (* milliseconds *)

Inductive uerr :=
| UeInvalidScheme | UeExtraPath | UeHeartbeat | UeChannelMax | UeTimeout
| UeAuthMechanism (m : str) | UeParameter (p : str) | UeInsecure.

(* ---- percent decoding (percent_encoding::percent_decode) ---- *)
Definition hexval (c : N) : option N :=
  if (48 <=? c) && (c <=? 57) then Some (c - 48)
  else if (65 <=? c) && (c <=? 70) then Some (c - 55)
  else if (97 <=? c) && (c <=? 102) then Some (c - 87)
  else None.

Fixpoint percent_decode (s : str) : str :=
  match s with
  | [] => []
  | c :: rest =>
      if c =? 37 then
        match rest with
        | a :: b :: rest' =>
            match hexval a, hexval b with
            | Some x, Some y => (x * 16 + y) :: percent_decode rest'
            | _, _ => c :: percent_decode rest
            end
        | _ => c :: percent_decode rest
        end
      else c :: percent_decode rest
  end.

(* ---- str::parse::<uN>: optional '+', at least one digit, only digits, no overflow ---- *)
Fixpoint digits_val (acc : N) (s : str) : option N :=
  match s with
  | [] => Some acc
  | c :: rest => if (48 <=? c) && (c <=? 57) then digits_val (acc * 10 + (c - 48)) rest else None
  end.

Definition parse_uint (max : N) (s : str) : option N :=
  let body := match s with c :: rest => if c =? 43 then rest else s | [] => s end in
  match body with
  | [] => None
  | _ => match digits_val 0 body with
         | Some v => if v <=? max then Some v else None
         | None => None
         end
  end.

Definition txt (s : list N) := s.
Definition k_heartbeat : str := [104;101;97;114;116;98;101;97;116].
Definition k_channel_max : str := [99;104;97;110;110;101;108;95;109;97;120].
Definition k_timeout : str := [99;111;110;110;101;99;116;105;111;110;95;116;105;109;101;111;117;116].
Definition k_auth : str := [97;117;116;104;95;109;101;99;104;97;110;105;115;109].
Definition s_external : str := [101;120;116;101;114;110;97;108].
Definition s_guest : str := [103;117;101;115;116].
Definition s_localhost : str := [108;111;99;97;108;104;111;115;116].
Definition s_amqp : str := [97;109;113;112].
Definition s_amqps : str := [97;109;113;112;115].
Definition s_slash : str := [47].

Definition default_opts : uopts :=
  {| v_vhost := s_slash; v_auth := UPlain s_guest s_guest; v_heartbeat := c_default_heartbeat;
     v_channel_max := c_default_channel_max; v_timeout := None |}.

Definition set_vhost o v := {| v_vhost := v; v_auth := v_auth o; v_heartbeat := v_heartbeat o;
                               v_channel_max := v_channel_max o; v_timeout := v_timeout o |}.
Definition set_auth o a := {| v_vhost := v_vhost o; v_auth := a; v_heartbeat := v_heartbeat o;
                              v_channel_max := v_channel_max o; v_timeout := v_timeout o |}.
Definition set_hb o h := {| v_vhost := v_vhost o; v_auth := v_auth o; v_heartbeat := h;
                            v_channel_max := v_channel_max o; v_timeout := v_timeout o |}.
Definition set_cm o c := {| v_vhost := v_vhost o; v_auth := v_auth o; v_heartbeat := v_heartbeat o;
                            v_channel_max := c; v_timeout := v_timeout o |}.
Definition set_to o t := {| v_vhost := v_vhost o; v_auth := v_auth o; v_heartbeat := v_heartbeat o;
                            v_channel_max := v_channel_max o; v_timeout := Some t |}.

(* the fold over the query pairs *)
Fixpoint query_fold (o : uopts) (q : list (str * str)) : uopts + uerr :=
  match q with
  | [] => inl o
  | (k, v) :: q' =>
      if bytes_eqb k k_heartbeat then
        match parse_uint 65535 v with Some n => query_fold (set_hb o n) q' | None => inr UeHeartbeat end
      else if bytes_eqb k k_channel_max then
        match parse_uint 65535 v with Some n => query_fold (set_cm o n) q' | None => inr UeChannelMax end
      else if bytes_eqb k k_timeout then
        match parse_uint 18446744073709551615 v with Some n => query_fold (set_to o n) q' | None => inr UeTimeout end
      else if bytes_eqb k k_auth then
        if bytes_eqb v s_external then query_fold (set_auth o UExternal) q' else inr (UeAuthMechanism v)
      else inr (UeParameter k)
  end.

Definition decode (u : surl) : uopts + uerr :=
  let o0 := default_opts in
  let step1 : uopts + uerr :=
    match u_segments u with
    | None => inl o0
    | Some [] => inl o0                      (* cannot happen: the first segment always exists *)
    | Some (v :: more) =>
        let o1 := match v with [] => o0 | _ => set_vhost o0 (percent_decode v) end in
        match more with [] => inl o1 | _ => inr UeExtraPath end
    end in
  match step1 with
  | inr e => inr e
  | inl o1 =>
      let o2 := match u_user u, u_pass u with
                | [], None => o1
                | user, pass =>
                    set_auth o1 (UPlain (percent_decode (match user with [] => s_guest | _ => user end))
                                        (percent_decode (match pass with Some p => p | None => s_guest end)))
                end in
      query_fold o2 (u_query u)
  end.

(* populate_host_and_port *)
Definition host_of (u : surl) : str :=
  match u_host u with None | Some [] => s_localhost | Some h => h end.

Definition scheme_port (u : surl) : (bool * N) + uerr :=     (* (is amqps, port) *)
  if bytes_eqb (u_scheme u) s_amqp then inl (false, match u_port u with Some p => p | None => 5672 end)
  else if bytes_eqb (u_scheme u) s_amqps then inl (true, match u_port u with Some p => p | None => 5671 end)
  else inr UeInvalidScheme.

(* what `open(url, tuning, allow_insecure)` decides before any connection is attempted *)
Inductive plan := PConnect (secure : bool) (host : str) (port : N) (o : uopts) | PFail (e : uerr).

Definition open_plan (u : surl) (allow_insecure : bool) : plan :=
  match scheme_port u with
  | inr e => PFail e
  | inl (secure, port) =>
      match decode u with
      | inr e => PFail e
      | inl o => if negb secure && negb allow_insecure then PFail UeInsecure
                 else PConnect secure (host_of u) port o
      end
  end.
