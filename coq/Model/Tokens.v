(* Model of the poll-token space of the I/O loop (src/io_loop/mod.rs): every event source is
   registered under a mio Token; a channel's mailbox under Token(channel id) (channel 0
   included), the socket, the heartbeat timer, the allocation queue and the set-blocked queue
   under four constants above the id range (regenerated from the compiled crate into
   Gen/Consts.v), and handle_steady_event dispatches on the token with the arms in this
   order.  No proofs. *)
From Amq Require Import Lib.Base Gen.Consts.

Inductive tkind :=
| TkStream | TkHeartbeat | TkSetBlocked | TkAlloc
| TkChan0
| TkChan (n : N)
| TkUnreachable.          (* `_ => unreachable!()` *)

(* match event.token() { STREAM => .., HEARTBEAT => .., SET_BLOCKED_TX => .., ALLOC_CHANNEL => ..,
                          Token(0) => .., Token(n) if n <= u16::MAX => .., _ => unreachable!() } *)
Definition dispatch_token (t : N) : tkind :=
  if t =? c_token_stream then TkStream
  else if t =? c_token_heartbeat then TkHeartbeat
  else if t =? c_token_set_blocked then TkSetBlocked
  else if t =? c_token_alloc then TkAlloc
  else if t =? 0 then TkChan0
  else if t <=? 65535 then TkChan t
  else TkUnreachable.

(* the token a source is registered under *)
Inductive source := SrcStream | SrcHeartbeat | SrcSetBlocked | SrcAlloc | SrcChan0 | SrcChan (n : N).
Definition token_of (s : source) : N :=
  match s with
  | SrcStream => c_token_stream
  | SrcHeartbeat => c_token_heartbeat
  | SrcSetBlocked => c_token_set_blocked
  | SrcAlloc => c_token_alloc
  | SrcChan0 => 0
  | SrcChan n => n
  end.
Definition kind_of (s : source) : tkind :=
  match s with
  | SrcStream => TkStream
  | SrcHeartbeat => TkHeartbeat
  | SrcSetBlocked => TkSetBlocked
  | SrcAlloc => TkAlloc
  | SrcChan0 => TkChan0
  | SrcChan n => TkChan n
  end.
Definition source_ok (s : source) : Prop :=
  match s with SrcChan n => 1 <= n <= 65535 | _ => True end.
