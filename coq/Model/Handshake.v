(* Model of the connection handshake: HandshakeState::process
   (src/io_loop/handshake_state.rs), ConnectionOptions::make_start_ok / make_open
   (src/connection_options.rs), and the loop-level logic around it - is_handshake_done,
   run_amqp_handshake's error mapping, the connection timeout (src/io_loop/mod.rs).
   No proofs. *)
From Amq Require Import Lib.Base Gen.Consts Model.Frames Model.Tune.

(* ---- what the server may send while the handshake runs ---- *)
Inductive hframe :=
| HStart (mechanisms locales : str) (sprops : N)   (* server_properties: an opaque id *)
| HSecure
| HTune (cm fm hb : N)
| HOpenOk
| HClose (code : N) (text : str)
| HHeartbeat0
| HOther.            (* anything else: another method, a frame on another channel, content *)

Record hopts := {
  o_mech : str; o_response : str; o_locale : str; o_vhost : str; o_info : option str;
  o_cm : N; o_fm : N; o_hb : N;
  o_timeout : bool }.       (* a connection timeout is configured *)

(* ---- what the client sends ---- *)
Inductive csend :=
| SStartOk (mech response locale : str) (info : option str)
    (* client properties: product, version, platform, [information],
       capabilities{consumer_cancel_notify, connection.blocked} - the harness checks them *)
| STuneOk (cm fm hb : N)
| SOpen (vhost : str)
| SCloseOk.

Inductive herr :=
| HeUnsupportedMech | HeUnsupportedLocale | HeSaslSecure | HeInvalidCredentials
| HeServerClosed (code : N) (text : str) | HeFrameMaxTooSmall | HeFrameUnexpected
| HeTimeout | HeSocketClosed | HeIoRead | HeIoWrite | HeMalformed.

Inductive hstate :=
| HsStart
| HsSecure (sprops : N)
| HsTune (sprops : N)
| HsOpen (tok : N * N * N) (sprops : N)
| HsServerClosing (code : N) (text : str)
| HsDone (tok : N * N * N) (sprops : N).

(* `server.split(' ').any(|s| s == client)` *)
Fixpoint split_sp (cur : str) (s : str) : list str :=
  match s with
  | [] => [cur]
  | c :: s' => if c =? 32 then cur :: split_sp [] s' else split_sp (cur ++ [c]) s'
  end.
Definition server_supports (server client : str) : bool :=
  existsb (bytes_eqb client) (split_sp [] server).

(* one frame: result, new state, frames pushed, whether the buffer gets sealed, and the
   heartbeat interval the timers are started with (Some h when start_heartbeats(h) runs) *)
Record hres := {
  r_err : option herr; r_state : hstate; r_sent : list csend; r_seal : bool; r_hb : option N }.

Definition hok st sent := {| r_err := None; r_state := st; r_sent := sent; r_seal := false; r_hb := None |}.
Definition hfail st e := {| r_err := Some e; r_state := st; r_sent := []; r_seal := false; r_hb := None |}.

Definition tune_step (o : hopts) (sprops : N) (st0 : hstate) (f : hframe) : hres :=
  match f with
  | HTune cm fm hb =>
      match make_tune_ok (o_cm o) (o_fm o) (o_hb o) cm fm hb with
      | FrameMaxTooSmall _ _ => hfail st0 HeFrameMaxTooSmall
      | TuneOk rcm rfm rhb =>
          {| r_err := None; r_state := HsOpen (rcm, rfm, rhb) sprops;
             r_sent := [STuneOk rcm rfm rhb; SOpen (o_vhost o)]; r_seal := false; r_hb := Some rhb |}
      end
  | _ => hfail st0 HeFrameUnexpected
  end.

Definition hprocess (o : hopts) (st : hstate) (f : hframe) : hres :=
  match f with
  | HHeartbeat0 => hok st []
  | _ =>
      match st with
      | HsStart =>
          match f with
          | HStart mechs locs sprops =>
              if negb (server_supports mechs (o_mech o)) then hfail st HeUnsupportedMech
              else if negb (server_supports locs (o_locale o)) then hfail st HeUnsupportedLocale
              else hok (HsSecure sprops) [SStartOk (o_mech o) (o_response o) (o_locale o) (o_info o)]
          | _ => hfail st HeFrameUnexpected
          end
      | HsSecure sprops =>
          match f with
          | HSecure => hfail st HeSaslSecure
          | _ => tune_step o sprops (HsTune sprops) f   (* the state is Tune when the frame is judged *)
          end
      | HsTune sprops => tune_step o sprops st f
      | HsOpen tok sprops =>
          match f with
          | HClose code text =>
              {| r_err := None; r_state := HsServerClosing code text; r_sent := [SCloseOk];
                 r_seal := true; r_hb := None |}
          | HOpenOk => hok (HsDone tok sprops) []
          | _ => hfail st HeFrameUnexpected
          end
      | HsServerClosing _ _ | HsDone _ _ => hfail st HeFrameUnexpected
      end
  end.

(* ---- the loop around it ---- *)

Inductive hterm := HtBlock | HtEof | HtIoErr | HtMalformed.
(* what the I/O thread observes, one item per wake-up *)
Inductive hevent :=
| HRead (fs : list hframe) (t : hterm)     (* a read episode *)
| HSilence.                                 (* nothing arrives (for longer than the timeout) *)

Inductive houtcome :=
| Connected (tok : N * N * N) (sprops : N)
| Failed (e : herr)
| Hang.                  (* the server stays silent and no timeout is configured *)

Definition term_err (t : hterm) : option herr :=
  match t with
  | HtBlock => None | HtEof => Some HeSocketClosed | HtIoErr => Some HeIoRead | HtMalformed => Some HeMalformed
  end.

(* run_amqp_handshake's mapping of a loop error *)
Definition map_err (st : hstate) (e : herr) : herr :=
  match st, e with
  | HsSecure _, (HeSocketClosed | HeIoRead | HeIoWrite) => HeInvalidCredentials
  | _, _ => e
  end.

(* the frames of one episode, in order, until one fails *)
Fixpoint hframes (o : hopts) (st : hstate) (fs : list hframe) (sent : list csend) (hb : option N)
  : option herr * hstate * list csend * option N :=
  match fs with
  | [] => (None, st, sent, hb)
  | f :: fs' =>
      let r := hprocess o st f in
      let hb' := match r_hb r with Some h => Some h | None => hb end in
      match r_err r with
      | Some e => (Some e, r_state r, sent ++ r_sent r, hb')
      | None => hframes o (r_state r) fs' (sent ++ r_sent r) hb'
      end
  end.

(* the transport accepts every write (the scripted broker does): a sealed buffer is
   flushed by the time is_handshake_done looks at it *)
Definition hdone (st : hstate) : option houtcome :=
  match st with
  | HsDone tok sprops => Some (Connected tok sprops)
  | HsServerClosing code text => Some (Failed (HeServerClosed code text))
  | _ => None
  end.

Fixpoint hrun (o : hopts) (st : hstate) (evs : list hevent) (sent : list csend) (hb : option N)
  : houtcome * list csend * option N :=
  match evs with
  | [] => (if o_timeout o then Failed HeTimeout else Hang, sent, hb)   (* the server stays silent *)
  | HSilence :: evs' =>
      if o_timeout o then (Failed HeTimeout, sent, hb) else hrun o st evs' sent hb
  | HRead fs t :: evs' =>
      match hframes o st fs sent hb with
      | (Some e, st', sent', hb') => (Failed (map_err st' e), sent', hb')
      | (None, st', sent', hb') =>
          match term_err t with
          | Some e => (Failed (map_err st' e), sent', hb')
          | None =>
              match hdone st' with
              | Some out => (out, sent', hb')
              | None => hrun o st' evs' sent' hb'
              end
          end
      end
  end.

Definition handshake (o : hopts) (evs : list hevent) : houtcome * list csend * option N :=
  hrun o HsStart evs [] None.

(* What is actually on the wire when the attempt ends.  Frames queued while handling a
   read are written at the next wake-up; a failure in that same read ends the loop
   first, so they never leave - but everything queued in earlier reads has left. *)
Fixpoint hwritten (o : hopts) (st : hstate) (evs : list hevent) (sent : list csend) : list csend :=
  match evs with
  | [] => sent
  | HSilence :: evs' => if o_timeout o then sent else hwritten o st evs' sent
  | HRead fs t :: evs' =>
      match hframes o st fs sent None with
      | (Some _, _, _, _) => sent
      | (None, st', sent', _) =>
          match term_err t with
          | Some _ => sent
          | None => match hdone st' with
                    | Some _ => sent'
                    | None => hwritten o st' evs' sent'
                    end
          end
      end
  end.
