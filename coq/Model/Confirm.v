(* Model of src/confirm.rs : ConfirmSmoother, Iter::next, impl Drop for Iter.
   No proofs here.  Mirrors the code as it is in /repo now (after the fix of F4:
   the exact-match and the multiple branch consult the out_of_order map). *)
From Amq Require Import Lib.Base.

(* A raw confirmation as sent by the server. *)
Record raw := { r_tag : N; r_multiple : bool; r_ack : bool }.

(* What the smoother yields: Confirm::{Ack,Nack}(ConfirmPayload{delivery_tag, multiple}).
   The model keeps the multiple flag of outputs explicit so that "all non-multiple"
   is a statement about the model rather than a modelling choice. *)
Record out := { o_tag : N; o_multiple : bool; o_ack : bool }.

Definition to_confirm (ack : bool) (tag : N) : out :=
  {| o_tag := tag; o_multiple := false; o_ack := ack |}.

(* ConfirmSmoother { expected: u64, out_of_order: HashMap<u64, Confirm> } *)
Record smoother := { expected : N; ooo : alist out }.

Definition new_smoother (e : N) : smoother := {| expected := e; ooo := [] |}.

(* Iter { parent, payload, next, to_confirm, done } *)
Record iter := { it_payload : raw; it_next : option out; it_done : bool }.

Definition new_iter (r : raw) : iter :=
  {| it_payload := r; it_next := None; it_done := false |}.

Definition or_else {A} (o : option A) (d : A) : A :=
  match o with Some x => x | None => d end.

(* Iter::next *)
Definition next (p : smoother) (it : iter) : option out * smoother * iter :=
  if it_done it then (None, p, it) else
  let r := it_payload it in
  let tag := r_tag r in
  let e := expected p in
  if tag =? e then
    (* exact match: emit the stored confirmation for this tag if there is one *)
    let ret := or_else (alookup tag (ooo p)) (to_confirm (r_ack r) tag) in
    let m1 := aremove tag (ooo p) in
    let e' := e + 1 in
    let nx := alookup e' m1 in
    (Some ret, {| expected := e'; ooo := aremove e' m1 |},
     {| it_payload := r; it_next := nx; it_done := false |})
  else if e <? tag then
    if r_multiple r then
      let ret := or_else (alookup e (ooo p)) (to_confirm (r_ack r) e) in
      (Some ret, {| expected := e + 1; ooo := aremove e (ooo p) |}, it)
    else
      (None, {| expected := e; ooo := ainsert tag (to_confirm (r_ack r) tag) (ooo p) |},
       {| it_payload := r; it_next := it_next it; it_done := true |})
  else
    match it_next it with
    | Some nx =>
        let e' := e + 1 in
        (Some nx, {| expected := e'; ooo := aremove e' (ooo p) |},
         {| it_payload := r; it_next := alookup e' (ooo p); it_done := false |})
    | None => (None, p, {| it_payload := r; it_next := None; it_done := true |})
    end.

(* A consumer pulling items until the iterator returns None (collect()). *)
Fixpoint pull_all (fuel : nat) (p : smoother) (it : iter) : list out * smoother * iter :=
  match fuel with
  | O => ([], p, it)
  | S f =>
      match next p it with
      | (None, p', it') => ([], p', it')
      | (Some o, p', it') =>
          let '(os, p'', it'') := pull_all f p' it' in (o :: os, p'', it'')
      end
  end.

(* A consumer pulling at most k items (take(k)): stops early on None. *)
Fixpoint pull_k (k : nat) (p : smoother) (it : iter) : list out * smoother * iter :=
  match k with
  | O => ([], p, it)
  | S k' =>
      match next p it with
      | (None, p', it') => ([], p', it')
      | (Some o, p', it') =>
          let '(os, p'', it'') := pull_k k' p' it' in (o :: os, p'', it'')
      end
  end.

(* impl Drop for Iter: while !self.done { let _ = self.next(); } *)
Fixpoint drop_iter (fuel : nat) (p : smoother) (it : iter) : smoother * iter :=
  match fuel with
  | O => (p, it)
  | S f =>
      if it_done it then (p, it)
      else let '(_, p', it') := next p it in drop_iter f p' it'
  end.

(* Enough fuel for any run of one iterator (proved sufficient in Proofs/Confirm.v). *)
Definition fuel_for (p : smoother) (r : raw) : nat :=
  (N.to_nat (r_tag r - expected p) + length (ooo p) + 3)%nat.

(* process(confirm) consumed completely, then dropped. *)
Definition process (p : smoother) (r : raw) : list out * smoother :=
  let f := fuel_for p r in
  let '(os, p', it') := pull_all f p (new_iter r) in
  let '(p'', _) := drop_iter f p' it' in
  (os, p'').

(* process(confirm), at most k items taken, then the iterator is dropped.
   The boolean is the final `done` flag (false only if fuel ran out). *)
Definition process_k (p : smoother) (r : raw) (k : nat) : list out * smoother * bool :=
  let f := fuel_for p r in
  let '(os, p', it') := pull_k k p (new_iter r) in
  let '(p'', it'') := drop_iter f p' it' in
  (os, p'', it_done it'').

(* A history: each raw confirmation with the number of items the caller takes
   (None = all). *)
Definition step := (raw * option nat)%type.

Fixpoint run (p : smoother) (h : list step) : list (list out) * smoother :=
  match h with
  | [] => ([], p)
  | (r, None) :: h' =>
      let '(os, p') := process p r in
      let '(oss, p'') := run p' h' in (os :: oss, p'')
  | (r, Some k) :: h' =>
      let '(os, p', _) := process_k p r k in
      let '(oss, p'') := run p' h' in (os :: oss, p'')
  end.

Definition run_all (p : smoother) (h : list raw) : list out * smoother :=
  fold_left (fun '(acc, p) r => let '(os, p') := process p r in (acc ++ os, p')) h ([], p).
