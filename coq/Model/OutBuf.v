(* Model of SealableOutputBuffer (src/serialize.rs) and Inner::write_to_stream
   (src/io_loop/mod.rs).  No proofs. *)
From Amq Require Import Lib.Base.

Record outbuf := { ob : bytes; ob_sealed : bool }.

Definition ob_append (o : outbuf) (bs : bytes) : outbuf :=
  if ob_sealed o then o else {| ob := ob o ++ bs; ob_sealed := false |}.

Definition ob_seal (o : outbuf) : outbuf := {| ob := ob o; ob_sealed := true |}.

(* what one call of Write::write does *)
Inductive wr :=
| Wrote (n : N)      (* Ok(n); the io::Write contract: n <= the slice offered *)
| WBlock             (* Err(WouldBlock) *)
| WErr.              (* any other error *)

Inductive wres := WOk | WIoErr | WStuck (* oracle exhausted: excluded by the theorems *).

(* the loop `while pos < len`; returns bytes put on the wire, result, the buffer
   content afterwards and the unused part of the oracle *)
Fixpoint write_loop (fuel : nat) (buf : bytes) (pos : N) (oracle : list wr)
  : bytes * wres * bytes * list wr :=
  match fuel with
  | O => ([], WStuck, buf, oracle)
  | S f =>
      if pos <? N.of_nat (length buf) then
        match oracle with
        | [] => ([], WStuck, buf, [])
        | Wrote n :: o' =>
            let n' := N.min n (N.of_nat (length buf) - pos) in
            let w := firstn (N.to_nat n') (skipn (N.to_nat pos) buf) in
            let '(ws, r, b', o'') := write_loop f buf (pos + n') o' in (w ++ ws, r, b', o'')
        | WBlock :: o' => ([], WOk, skipn (N.to_nat pos) buf, o')    (* drain_written(pos) *)
        | WErr :: o' => ([], WIoErr, buf, o')
        end
      else ([], WOk, [], oracle)                                      (* clear() *)
  end.

Definition write_to_stream (o : outbuf) (oracle : list wr)
  : bytes * wres * outbuf * list wr :=
  let '(w, r, b, o') := write_loop (S (length oracle)) (ob o) 0 oracle in
  (w, r, {| ob := b; ob_sealed := ob_sealed o |}, o').
