(* Model of Connection::close / Drop (src/connection.rs, close_impl): the close request goes
   through the channel-0 handle (a call: send Connection.Close, wait for its reply or for the
   verdict the I/O thread left), then the I/O thread is joined; what the thread ended with takes
   precedence over what the request returned.  No proofs. *)
From Amq Require Import Lib.Base.

(* how the I/O thread ended *)
Inductive io_end :=
| IoOk                 (* run_connection returned Ok: the client's close completed *)
| IoErr (e : N)        (* ... an error: UnexpectedSocketClose, ServerClosedConnection code text, ... *)
| IoPanic.             (* the thread panicked *)

(* what the close request on channel 0 returned *)
Inductive req_res := ReqOk | ReqErr (e : N).

Inductive close_res := COk | CErr (e : N) | CIoThreadPanic.

(* the join handle is taken by the first close_impl; a second one (Drop after close) finds none *)
Definition close_impl (have_handle : bool) (req : req_res) (io : io_end) : close_res * bool (* request sent *) :=
  if have_handle then
    (match io with
     | IoPanic => CIoThreadPanic
     | IoErr e => CErr e
     | IoOk => match req with ReqOk => COk | ReqErr e => CErr e end
     end, true)
  else (COk, false).
