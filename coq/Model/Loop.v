(* Model of the tail of run_io_loop (src/io_loop/mod.rs): after each batch of events, the
   high / low water throttle of the non-zero channels and the socket's writable interest.
   No proofs. *)
From Amq Require Import Lib.Base.

Inductive interest := IRead | IReadWrite.

Record loop := {
  l_listening : bool;          (* non-zero channels are polled *)
  l_interest : interest;       (* what the socket is registered for *)
  l_have_written : bool }.

(* start(): the socket is registered readable | writable; nothing has been written *)
Definition loop_init : loop := {| l_listening := true; l_interest := IReadWrite; l_have_written := false |}.

Inductive throttle := TNone | TDeregister | TReregister.

(* the throttle decision *)
Definition throttle_of (listening : bool) (outlen high low : N) : throttle :=
  if listening && (high <? outlen) then TDeregister
  else if negb listening && (outlen <=? low) then TReregister
  else TNone.

(* one pass of the tail: had_data = has_data_to_write() before the batch's events were
   handled, outlen = the out-buffer's length after them *)
Definition loop_tail (l : loop) (had_data : bool) (outlen high low : N) : loop * throttle :=
  let has_data := negb (outlen =? 0) in
  let th := throttle_of (l_listening l) outlen high low in
  let listening' := match th with TDeregister => false | TReregister => true | TNone => l_listening l end in
  if has_data && l_have_written l then
    ({| l_listening := listening'; l_interest := IReadWrite; l_have_written := true |}, th)
  else if had_data then
    ({| l_listening := listening'; l_interest := if has_data then IReadWrite else IRead;
        l_have_written := true |}, th)
  else
    ({| l_listening := listening'; l_interest := l_interest l; l_have_written := l_have_written l |}, th).
