(* Model of src/io_loop/channel_slots.rs : ChannelSlots<T> (payloads dropped).
   Mirrors the code as it is in /repo now (after the fixes of F1, F2, F3:
   id 0 rejected, counter widened to u32, inserted ids leave the freed set).
   No proofs here. *)
From Amq Require Import Lib.Base.

Record slots := {
  open_ids : list N;   (* keys of `slots: HashMap<u16, T>` (order irrelevant) *)
  freed : list N;      (* `freed_channel_ids: IndexSet<u16>`, oldest first *)
  next : N;            (* `next_channel_id: u32` *)
  cmax : N             (* `channel_max: u16` *)
}.

Definition new_slots (channel_max : N) : slots :=
  {| open_ids := []; freed := []; next := 1; cmax := channel_max |}.

Inductive res :=
| ROk (id : N)
| RUnavailable (id : N)          (* Error::UnavailableChannelId *)
| RExhausted                     (* Error::ExhaustedChannelIds *)
| RMakeEntryFailed               (* make_entry returned Err (mio registration failed) *)
| RPanic                         (* unreachable!("free channel id cannot be occupied") *)
| RRemoved (was_open : bool)
| RDrained (ids : list N)        (* sorted by the probe *)
| RFuel.                         (* model ran out of fuel: excluded by the theorems *)

Definition memN (x : N) (l : list N) : bool := existsb (N.eqb x) l.
Definition delN (x : N) (l : list N) : list N := filter (fun y => negb (x =? y)) l.

(* IndexSet::insert: no-op when present, else appended *)
Definition iset_insert (x : N) (l : list N) : list N :=
  if memN x l then l else l ++ [x].

(* vacant entry: make_entry(channel_id)?; freed.shift_remove(&id); entry.insert(t) *)
Definition occupy (ok : bool) (id : N) (s : slots) : res * slots :=
  if ok then
    (ROk id, {| open_ids := id :: open_ids s; freed := delN id (freed s);
                next := next s; cmax := cmax s |})
  else (RMakeEntryFailed, s).

(* insert(Some(id), make_entry) *)
Definition insert_some (ok : bool) (id : N) (s : slots) : res * slots :=
  if (id =? 0) || (cmax s <? id) then (RUnavailable id, s)
  else if memN id (open_ids s) then (RUnavailable id, s)
  else occupy ok id s.

(* the counter loop of insert_unused_channel_id; None = counter exhausted *)
Fixpoint scan (fuel : nat) (ok : bool) (s : slots) : option res * slots :=
  match fuel with
  | O => (Some RFuel, s)
  | S f =>
      if next s <=? cmax s then
        let id := next s in
        let s' := {| open_ids := open_ids s; freed := freed s;
                     next := next s + 1; cmax := cmax s |} in
        if memN id (open_ids s) then scan f ok s'
        else let '(r, s'') := occupy ok id s' in (Some r, s'')
      else (None, s)
  end.

(* IndexSet::pop: the most recently freed id *)
Definition pop_last (l : list N) : option (N * list N) :=
  match rev l with
  | [] => None
  | x :: r => Some (x, rev r)
  end.

(* each `continue` passes a distinct occupied id, so |open_ids| + 1 rounds suffice *)
Definition scan_fuel (s : slots) : nat := S (S (length (open_ids s))).

(* insert(None, make_entry) *)
Definition insert_none (ok : bool) (s : slots) : res * slots :=
  match scan (scan_fuel s) ok s with
  | (Some r, s') => (r, s')
  | (None, s1) =>
      match pop_last (freed s1) with
      | None => (RExhausted, s1)
      | Some (id, fr) =>
          let s2 := {| open_ids := open_ids s1; freed := fr; next := next s1; cmax := cmax s1 |} in
          if memN id (open_ids s2) then (RPanic, s2)
          else occupy ok id s2
      end
  end.

(* remove(id) *)
Definition remove (id : N) (s : slots) : res * slots :=
  if memN id (open_ids s) then
    (RRemoved true, {| open_ids := delN id (open_ids s); freed := iset_insert id (freed s);
                       next := next s; cmax := cmax s |})
  else (RRemoved false, s).

Fixpoint insert_sorted (x : N) (l : list N) : list N :=
  match l with
  | [] => [x]
  | y :: l' => if x <=? y then x :: l else y :: insert_sorted x l'
  end.
Definition sortN (l : list N) : list N := fold_right insert_sorted [] l.

(* drain(): every open id is recorded as freed, the table is emptied.  HashMap
   iteration order decides the order in which ids enter the freed set; the probe
   reports the drained ids sorted and the model frees them in that order.  In the
   crate drain() is only called when the connection ends and nothing is allocated
   afterwards; the harness therefore issues Drain only as the last operation. *)
Definition drain (s : slots) : res * slots :=
  (RDrained (sortN (open_ids s)),
   {| open_ids := []; freed := fold_left (fun fr id => iset_insert id fr) (sortN (open_ids s)) (freed s);
      next := next s; cmax := cmax s |}).

Inductive op :=
| OpenSome (id : N)
| OpenNone
| FailSome (id : N)     (* make_entry fails *)
| FailNone
| Close (id : N)
| Drain.

Definition step (s : slots) (o : op) : res * slots :=
  match o with
  | OpenSome id => insert_some true id s
  | OpenNone => insert_none true s
  | FailSome id => insert_some false id s
  | FailNone => insert_none false s
  | Close id => remove id s
  | Drain => drain s
  end.

Fixpoint run (s : slots) (ops : list op) : list res * slots :=
  match ops with
  | [] => ([], s)
  | o :: ops' =>
      let '(r, s') := step s o in
      let '(rs, s'') := run s' ops' in (r :: rs, s'')
  end.
