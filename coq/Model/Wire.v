(* The AMQP 0-9-1 frame envelope:  type(1) channel(2) size(4) payload(size) 0xCE. *)
From Amq Require Import Lib.Base.

Definition frame_end : N := 206.          (* 0xCE *)

Definition be16 (v : N) : bytes := [v / 256 mod 256; v mod 256].
Definition be32 (v : N) : bytes :=
  [v / 16777216 mod 256; v / 65536 mod 256; v / 256 mod 256; v mod 256].
Definition be64 (v : N) : bytes := be32 (v / 4294967296) ++ be32 (v mod 4294967296).

Definition of_be32 (a b c d : N) : N := ((a * 256 + b) * 256 + c) * 256 + d.

(* envelope around a payload *)
Definition enc_frame (ty ch : N) (payload : bytes) : bytes :=
  ty :: be16 ch ++ be32 (N.of_nat (length payload)) ++ payload ++ [frame_end].

(* AmqpFrameKind::parse_size: needs 7 bytes; size field + 8 *)
Definition parse_size (buf : bytes) : option N :=
  match buf with
  | _ :: _ :: _ :: a :: b :: c :: d :: _ => Some (of_be32 a b c d + 8)
  | _ => None
  end.

(* frame types amq-protocol knows: method 1, header 2, body 3, heartbeat 8 *)
Definition known_type (ty : N) : bool :=
  (ty =? 1) || (ty =? 2) || (ty =? 3) || (ty =? 8).

(* what the envelope itself requires of a complete frame slice *)
Definition envelope_ok (fr : bytes) : bool :=
  match fr with
  | ty :: _ => known_type ty && (last fr 0 =? frame_end)
  | [] => false
  end.
