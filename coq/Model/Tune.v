(* Model of ConnectionOptions::make_tune_ok (src/connection_options.rs).  No proofs. *)
From Amq Require Import Lib.Base Gen.Consts.

Definition u16_max : N := 65535.
Definition u32_max : N := 4294967295.

Definition promote16 (v : N) : N := if v =? 0 then u16_max else v.
Definition promote32 (v : N) : N := if v =? 0 then u32_max else v.

Inductive tune_res :=
| TuneOk (channel_max frame_max heartbeat : N)
| FrameMaxTooSmall (min requested : N).

(* client = ConnectionOptions fields, server = the Tune method's fields *)
Definition make_tune_ok (c_cm c_fm c_hb s_cm s_fm s_hb : N) : tune_res :=
  let cm := N.min (promote16 s_cm) (promote16 c_cm) in
  let fm := N.min (promote32 s_fm) (promote32 c_fm) in
  let hb := N.min s_hb c_hb in
  if fm <? c_frame_min_size then FrameMaxTooSmall c_frame_min_size fm
  else TuneOk cm fm hb.
