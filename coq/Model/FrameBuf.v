(* Model of src/frame_buffer.rs : Inner::read_from over a scripted stream.  No proofs.
   The payload parser is amq-protocol's (a dependency): it enters as the oracle
   `accepts i` = "the i-th complete frame of the stream parses", next to the envelope
   rules of Model/Wire.v. *)
From Amq Require Import Lib.Base Gen.Consts Model.Wire.

(* what one call of Read::read does *)
Inductive rd :=
| Chunk (bs : bytes)      (* Ok(n), n = length bs > 0 *)
| Block                   (* Err(WouldBlock) *)
| Eof                     (* Ok(0) *)
| IoErr.                  (* any other error *)

Inductive ep_result :=
| EpOk (bytes_read : N)   (* Ok(bytes_read): ended by would-block *)
| EpClosed                (* Error::UnexpectedSocketClose *)
| EpIoErr                 (* Error::IoErrorReadingSocket *)
| EpMalformed             (* Error::MalformedFrame *)
| EpHandlerErr            (* the frame handler returned an error *)
| EpStuck.                (* script or fuel exhausted: excluded by the theorems *)

Record fbuf := { buf : bytes; seen : N (* complete frames taken out so far *) }.

Definition new_fbuf : fbuf := {| buf := []; seen := 0 |}.

Section ReadFrom.
  Variable accepts : N -> bool.         (* payload parser oracle, by frame index *)
  Variable handler : N -> bytes -> bool. (* true = Ok(()) ; receives index and slice *)

  (* one pass of the loop body up to (not including) the read:
     Some (inl fb') : a frame was handed on, continue
     Some (inr r)   : the episode ends with r
     None           : no complete frame buffered: go read (with `reserve`) *)
  Definition try_frame (fb : fbuf) : option (fbuf * N * bytes + ep_result) :=
    match parse_size (buf fb) with
    | Some fs =>
        if fs <=? N.of_nat (length (buf fb)) then
          let fr := firstn (N.to_nat fs) (buf fb) in
          if envelope_ok fr && accepts (seen fb) then
            if handler (seen fb) fr then
              Some (inl ({| buf := skipn (N.to_nat fs) (buf fb); seen := seen fb + 1 |},
                         seen fb, fr))
            else Some (inr EpHandlerErr)
          else Some (inr EpMalformed)
        else None
    | None => None
    end.

  Definition reserve (fb : fbuf) : N :=
    match parse_size (buf fb) with
    | Some fs => N.max c_min_read fs
    | None => c_min_read
    end.

  (* the loop; returns frames handed on (index, slice), result, buffer, rest of script *)
  Fixpoint read_from (fuel : nat) (fb : fbuf) (nread : N) (script : list rd)
    : list (N * bytes) * ep_result * fbuf * list rd :=
    match fuel with
    | O => ([], EpStuck, fb, script)
    | S f =>
        match try_frame fb with
        | Some (inl (fb', i, fr)) =>
            let '(hs, r, fb'', sc) := read_from f fb' nread script in ((i, fr) :: hs, r, fb'', sc)
        | Some (inr r) => ([], r, fb, script)
        | None =>
            match script with
            | [] => ([], EpStuck, fb, [])
            | Chunk bs :: sc =>
                read_from f {| buf := buf fb ++ bs; seen := seen fb |}
                          (nread + N.of_nat (length bs)) sc
            | Block :: sc => ([], EpOk nread, fb, sc)
            | Eof :: sc => ([], EpClosed, fb, sc)
            | IoErr :: sc => ([], EpIoErr, fb, sc)
            end
        end
    end.
End ReadFrom.

Fixpoint script_bytes (sc : list rd) : nat :=
  match sc with
  | [] => O
  | Chunk bs :: sc' => (length bs + script_bytes sc')%nat
  | _ :: sc' => script_bytes sc'
  end.

(* enough for any episode: every round removes a frame (>= 8 bytes) or a script item *)
Definition ep_fuel (fb : fbuf) (sc : list rd) : nat :=
  (length (buf fb) + script_bytes sc + length sc + 2)%nat.

(* run episodes until the script is used up or an episode fails *)
Fixpoint run_episodes (n : nat) (accepts : N -> bool) (fb : fbuf) (sc : list rd)
  : list (list (N * bytes) * ep_result) * fbuf :=
  match n with
  | O => ([], fb)
  | S n' =>
      match sc with
      | [] => ([], fb)
      | _ =>
          let '(hs, r, fb', sc') :=
              read_from accepts (fun _ _ => true) (ep_fuel fb sc) fb 0 sc in
          match r with
          | EpOk _ => let '(rest, fb'') := run_episodes n' accepts fb' sc' in ((hs, r) :: rest, fb'')
          | _ => ([(hs, r)], fb')
          end
      end
  end.
