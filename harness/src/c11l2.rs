//! C11 end to end: consumers obtained through the public API on a real connection; one of
//! them is dropped / cancelled (in some scenarios while the I/O thread is slow between its
//! two sends for the CancelOk, sched_point 2) and the bystanders - another consumer on the same
//! channel, one on another channel - must not notice: they still get their deliveries, then
//! exactly one terminal message when the connection is closed, and close() is Ok. In two more
//! modes the server answers the Cancel of the dropped consumer by closing the connection or the
//! channel: every consumer still ends with the terminal message that names that close.
use crate::coqfmt::{self, CaseSink};
use crate::l2::*;
use crate::rng::Rng;
use crate::Args;
use amiquip::{AmqpProperties, Auth, Connection, ConnectionOptions, ConnectionTuning, ConsumerMessage, ConsumerOptions};
use amq_protocol::frame::{AMQPContentHeader, AMQPFrame};
use amq_protocol::protocol::{basic, AMQPClass};
use std::time::Duration;

fn delivery(ch: u16, tag: &str, dtag: u64, body: &[u8]) -> Vec<AMQPFrame> {
    vec![
        AMQPFrame::Method(ch, AMQPClass::Basic(basic::AMQPMethod::Deliver(basic::Deliver {
            consumer_tag: tag.to_string(), delivery_tag: dtag, redelivered: false, exchange: "".into(), routing_key: "rk".into(),
        }))),
        AMQPFrame::Header(ch, 60, Box::new(AMQPContentHeader { class_id: 60, weight: 0, body_size: body.len() as u64, properties: AmqpProperties::default() })),
        AMQPFrame::Body(ch, body.to_vec()),
    ]
}

/// 1.. = delivery with that tag, then terminal codes
fn code(m: &ConsumerMessage) -> u64 {
    match m {
        ConsumerMessage::Delivery(d) => d.delivery_tag(),
        ConsumerMessage::ClientCancelled => 1_000_001,
        ConsumerMessage::ServerCancelled => 1_000_002,
        ConsumerMessage::ClientClosedChannel => 1_000_003,
        ConsumerMessage::ServerClosedChannel(_) => 1_000_004,
        ConsumerMessage::ClientClosedConnection => 1_000_005,
        ConsumerMessage::ServerClosedConnection(_) => 1_000_006,
    }
}

pub fn scenario(sub: u64) -> Option<(String, bool, u64)> {
    let mut rng = Rng::new(sub);
    let delayed = rng.chance(1, 2);
    // 0 drop, 1 cancel + read terminal + drop, 2 cancel twice then drop,
    // 3 drop while the server answers the Cancel with Connection.Close, 4 ... with Channel.Close
    // 5 the consumer is dropped while its thread is unwinding from a panic (caught)
    // 6 drop, with bystander B sitting on a backlog of more than 65535 unread deliveries (no prefetch
    //   limit, a slow reader): all of them, in order, then the terminal message
    let mode = if sub == 6 || rng.chance(1, 12) { 6 } else { rng.below(6) };
    let pre = rng.range(0, 3);
    let (stream, peer) = mock_pair();
    let broker = Broker::start(peer.clone(), BrokerCfg { on_cancel: if mode == 3 { 1 } else if mode == 4 { 2 } else { 0 }, ..BrokerCfg::default() });
    let mut conn = with_deadline(
        move || Connection::insecure_open_stream(stream, ConnectionOptions::<Auth>::default(), ConnectionTuning::default()),
        Duration::from_secs(5),
    )?
    .ok()?;
    let ch1 = conn.open_channel(None).ok()?;
    let ch2 = conn.open_channel(None).ok()?;
    let a = ch1.basic_consume("q", ConsumerOptions::default()).ok()?;
    let b = ch1.basic_consume("q", ConsumerOptions::default()).ok()?;
    let c = ch2.basic_consume("q", ConsumerOptions::default()).ok()?;
    let (ta, tb, tc) = (a.consumer_tag().to_string(), b.consumer_tag().to_string(), c.consumer_tag().to_string());
    let (id1, id2) = (ch1.channel_id(), ch2.channel_id());
    let mut dtag = 1u64;
    let mut expect_a: Vec<u64> = Vec::new();
    let mut expect_b: Vec<u64> = Vec::new();
    let mut expect_c: Vec<u64> = Vec::new();
    // in half of the scenarios A's deliveries are already sitting in its queue, unread, when A
    // is cancelled / dropped (a clone of its receiver is read afterwards)
    let settle = rng.chance(1, 2);
    let before_pre = peer.sh.st.lock().unwrap().episodes_done;
    let a_clone = a.receiver().clone();
    for _ in 0..pre {
        peer.push_frames(&delivery(id1, &ta, dtag, b"a"));
        expect_a.push(dtag);
        dtag += 1;
        peer.push_frames(&delivery(id1, &tb, dtag, b"b"));
        expect_b.push(dtag);
        dtag += 1;
        peer.push_frames(&delivery(id2, &tc, dtag, b"c"));
        expect_c.push(dtag);
        dtag += 1;
    }
    if settle {
        peer.wait(|s| s.episodes_done >= before_pre + 3 * pre || s.dropped, Duration::from_secs(5));
        std::thread::sleep(Duration::from_millis(2));
    }
    if mode == 6 {
        let n = 65536 + rng.range(1, 3000);
        let before = peer.sh.st.lock().unwrap().episodes_done;
        let mut pushes = 0u64;
        let mut batch: Vec<AMQPFrame> = Vec::new();
        for i in 0..n {
            batch.extend(delivery(id1, &tb, dtag, b"x"));
            expect_b.push(dtag);
            dtag += 1;
            if batch.len() >= 3000 || i + 1 == n {
                peer.push_frames(&batch);
                pushes += 1;
                batch.clear();
            }
        }
        // let the I/O thread work through them before anything else happens
        peer.wait(|s| s.episodes_done >= before + pushes || s.dropped, Duration::from_secs(20));
    }
    if delayed {
        amiquip::verif::set_sched_delay(2, 4000);
    }
    let mut a_seen: Vec<u64> = Vec::new();
    match mode {
        0 | 3 | 4 | 6 => drop(a),
        5 => {
            let r = std::panic::catch_unwind(std::panic::AssertUnwindSafe(move || {
                let _owned = a;
                panic!("worker failed");
            }));
            let _ = r;
        }
        1 => {
            let _ = a.cancel();
            while let Ok(m) = a.receiver().recv_timeout(Duration::from_millis(500)) {
                a_seen.push(code(&m));
                if a_seen.last().copied().unwrap_or(0) > 1_000_000 {
                    break;
                }
            }
            drop(a);
        }
        _ => {
            let _ = a.cancel();
            let _ = a.cancel();
            drop(a);
        }
    }
    if mode != 1 && mode != 3 && mode != 4 {
        // what a holder of a clone of A's receiver still gets: everything, then the terminal message
        while let Ok(m) = a_clone.recv_timeout(Duration::from_millis(500)) {
            a_seen.push(code(&m));
            if a_seen.last().copied().unwrap_or(0) > 1_000_000 {
                break;
            }
        }
    }
    drop(a_clone);
    // give the I/O thread the time to get past its delayed step
    std::thread::sleep(Duration::from_millis(if delayed { 15 } else { 2 }));
    if delayed {
        amiquip::verif::set_sched_delay(2, 0);
    }
    // the bystanders still work (where the scenario leaves them a channel)
    if mode < 3 || mode == 5 || mode == 6 {
        peer.push_frames(&delivery(id1, &tb, dtag, b"b2"));
        expect_b.push(dtag);
        dtag += 1;
    }
    if mode != 3 {
        peer.push_frames(&delivery(id2, &tc, dtag, b"c2"));
        expect_c.push(dtag);
    }
    let alive1 = ch1.qos(0, 1, false).is_ok();
    let alive2 = ch2.qos(0, 1, false).is_ok();
    // how many Basic.Cancel did the client send for a's tag?
    let cancels = broker
        .frames()
        .iter()
        .filter(|f| matches!(f, AMQPFrame::Method(_, AMQPClass::Basic(basic::AMQPMethod::Cancel(c))) if c.consumer_tag == ta))
        .count();
    let rb = b.receiver().clone();
    let rc = c.receiver().clone();
    std::mem::forget(b);
    std::mem::forget(c);
    std::mem::forget(ch1);
    std::mem::forget(ch2);
    let closed = with_deadline(move || conn.close(), Duration::from_secs(5));
    // 0 Ok, 1 ServerClosedConnection(320), 8 another error, 9 did not return
    let close_code = match &closed {
        Some(Ok(())) => 0,
        Some(Err(amiquip::Error::ServerClosedConnection { code: 320, .. })) => 1,
        Some(Err(_)) => 8,
        None => 9,
    };
    let drain = |r: &crossbeam_channel::Receiver<ConsumerMessage>| -> (Vec<u64>, bool) {
        let mut v = Vec::new();
        loop {
            match r.recv_timeout(Duration::from_millis(300)) {
                Ok(m) => v.push(code(&m)),
                Err(crossbeam_channel::RecvTimeoutError::Disconnected) => return (v, true),
                Err(crossbeam_channel::RecvTimeoutError::Timeout) => return (v, false),
            }
        }
    };
    let (mut got_b, disc_b) = drain(&rb);
    if mode == 6 {
        // compact form for the long backlog: [how many were expected] and [the length of the
        // longest prefix of what arrived that is exactly what was expected, then whatever follows]
        let k = got_b.iter().zip(expect_b.iter()).take_while(|(g, e)| g == e).count();
        let mut compact = vec![k as u64];
        compact.extend(got_b[k..].iter().take(20));
        got_b = compact;
        expect_b = vec![expect_b.len() as u64];
    }
    let (got_c, disc_c) = drain(&rc);
    let _ = broker.stop();
    let term = format!(
        "(({}, {}), ({}, {}, {}, {}), ({}, {}, {}), ({}, {}, {}), ({}, {}))",
        mode,
        coqfmt::b(delayed),
        coqfmt::b(alive1),
        coqfmt::b(alive2),
        close_code,
        cancels,
        coqfmt::list(&expect_b, |x| x.to_string()),
        coqfmt::list(&got_b, |x| x.to_string()),
        coqfmt::b(disc_b),
        coqfmt::list(&expect_c, |x| x.to_string()),
        coqfmt::list(&got_c, |x| x.to_string()),
        coqfmt::b(disc_c),
        coqfmt::list(&expect_a, |x| x.to_string()),
        coqfmt::list(&a_seen, |x| x.to_string())
    );
    Some((term, delayed, mode))
}

pub fn run(a: &Args) {
    let mut sink = CaseSink::new("C11", "C11l2", &a.out, 16);
    let mut rng = Rng::new(a.seed ^ 0xC11_2);
    let subs: Vec<u64> = if let Some(pos) = a.rest.iter().position(|x| x == "--line") {
        vec![a.rest[pos + 1].split_whitespace().last().unwrap().parse().unwrap()]
    } else {
        // the backlog scenario is always there (seed 6), the rest is random
        std::iter::once(6u64).chain((1..a.n).map(|_| rng.next())).collect()
    };
    // one at a time: the scheduling delay is process-wide
    for s in subs {
        if crate::l2::timeouts() >= crate::l2::ENOUGH_TIMEOUTS {
            sink.count("stopped-early-after-timeouts");
            break;
        }
        match crate::l2::watchdog(format!("l2 {}", s), 150, move || scenario(s)) {
            Some((term, delayed, mode)) => {
                sink.count(["drop", "cancel-read-drop", "cancel-twice-drop", "drop-vs-server-connection-close", "drop-vs-server-channel-close", "drop-while-unwinding", "drop-beside-a-backlog-of-65536+"][mode as usize]);
                if delayed {
                    sink.count("io-thread-slow-between-reply-and-notice");
                }
                sink.push_line(term, true, format!("l2 {}", s));
            }
            None => sink.count("setup_failed"),
        }
    }
    sink.finish("");
}
