//! C06: the real `FrameBuffer` over a scripted `Read`, on streams of real frames cut
//! in every / random ways, with malformed variants.
use crate::coqfmt::{self, CaseSink};
use crate::rng::Rng;
use crate::wire;
use crate::Args;
use amiquip::verif::FrameBuffer;
use amiquip::Error;
use amq_protocol::frame::{AMQPContentHeader, AMQPFrame};
use amq_protocol::protocol::basic;
use amq_protocol::protocol::queue;
use amq_protocol::protocol::AMQPClass;
use std::io::{self, Read};

#[derive(Clone, Debug)]
pub enum Rd {
    Chunk(Vec<u8>),
    Block,
    Eof,
    IoErr,
}

struct Scripted {
    script: std::collections::VecDeque<Rd>,
    truncated: u64,
}

impl Read for Scripted {
    fn read(&mut self, buf: &mut [u8]) -> io::Result<usize> {
        match self.script.pop_front() {
            None => Err(io::Error::new(io::ErrorKind::Other, "script exhausted")),
            Some(Rd::Block) => Err(io::Error::new(io::ErrorKind::WouldBlock, "")),
            Some(Rd::Eof) => Ok(0),
            Some(Rd::IoErr) => Err(io::Error::new(io::ErrorKind::ConnectionReset, "")),
            Some(Rd::Chunk(bs)) => {
                if bs.len() <= buf.len() {
                    buf[..bs.len()].copy_from_slice(&bs);
                    Ok(bs.len())
                } else {
                    // cannot happen for chunks <= MIN_READ; counted so it shows in the evidence
                    self.truncated += 1;
                    let n = buf.len();
                    buf.copy_from_slice(&bs[..n]);
                    self.script.push_front(Rd::Chunk(bs[n..].to_vec()));
                    Ok(n)
                }
            }
        }
    }
}

fn res_coq(r: &Result<usize, Error>) -> String {
    match r {
        Ok(n) => format!("EpOk {}", n),
        Err(Error::UnexpectedSocketClose) => "EpClosed".into(),
        Err(Error::IoErrorReadingSocket { .. }) => "EpIoErr".into(),
        Err(Error::MalformedFrame) => "EpMalformed".into(),
        Err(_) => "EpHandlerErr".into(),
    }
}

/// per episode: frames handed on (index, len, adler32 of the re-encoded frame), result
pub fn run_impl(script: &[Rd]) -> (Vec<(Vec<(u64, usize, u64)>, String)>, u64) {
    let mut stream = Scripted {
        script: script.iter().cloned().collect(),
        truncated: 0,
    };
    let mut fb = FrameBuffer::new();
    let mut out = Vec::new();
    let mut idx = 0u64;
    while !stream.script.is_empty() {
        let mut handed = Vec::new();
        let r = fb.read_from(&mut stream, |frame| {
            let bytes = wire::encode(&frame);
            handed.push((idx, bytes.len(), wire::adler32(&bytes)));
            idx += 1;
            Ok(())
        });
        let stop = r.is_err();
        out.push((handed, res_coq(&r)));
        if stop {
            break;
        }
    }
    (out, stream.truncated)
}

// ---------- frame generators ----------

fn gen_frame(rng: &mut Rng, big: bool) -> Vec<u8> {
    let ch = *rng.pick(&[0u16, 1, 2, 7, 255, 256, 65535]);
    let f = match rng.below(8) {
        0 => AMQPFrame::Heartbeat(0),
        1 => AMQPFrame::Method(
            ch,
            AMQPClass::Basic(basic::AMQPMethod::Ack(basic::Ack {
                delivery_tag: rng.next(),
                multiple: rng.boolean(),
            })),
        ),
        2 => {
            let n = rng.range(0, 40) as usize;
            AMQPFrame::Method(
                ch,
                AMQPClass::Queue(queue::AMQPMethod::DeclareOk(queue::DeclareOk {
                    queue: "q".repeat(n),
                    message_count: rng.next() as u32,
                    consumer_count: rng.next() as u32,
                })),
            )
        }
        3 => AMQPFrame::Method(
            ch,
            AMQPClass::Basic(basic::AMQPMethod::Deliver(basic::Deliver {
                consumer_tag: "ctag".into(),
                delivery_tag: rng.next(),
                redelivered: rng.boolean(),
                exchange: "ex".repeat(rng.range(0, 5) as usize),
                routing_key: "rk".into(),
            })),
        ),
        4 => AMQPFrame::Header(
            ch,
            60,
            Box::new(AMQPContentHeader {
                class_id: 60,
                weight: 0,
                body_size: rng.next() >> rng.below(64),
                properties: if rng.boolean() {
                    basic::AMQPProperties::default().with_content_type("text/plain".to_string())
                } else {
                    basic::AMQPProperties::default()
                },
            }),
        ),
        _ => {
            let len = if big {
                *rng.pick(&[4088u64, 4089, 4096, 5000, 8192, 12289])
            } else {
                rng.range(0, 60)
            } as usize;
            let b = rng.below(256) as u8;
            let mut body = vec![b; len];
            if len > 0 && rng.boolean() {
                body[0] = b.wrapping_add(1);
                let l = body.len();
                body[l - 1] = b.wrapping_add(2);
            }
            AMQPFrame::Body(ch, body)
        }
    };
    wire::encode(&f)
}

#[derive(Clone, Copy, Debug)]
enum Mal {
    None,
    BadType,
    BadEnd,
    SizePlus,
    SizeMinus,
    BadPayload,
    Garbage,
}

fn build_stream(rng: &mut Rng, nframes: usize, big: bool, mal: Mal) -> Vec<u8> {
    let mut frames: Vec<Vec<u8>> = (0..nframes).map(|_| gen_frame(rng, big)).collect();
    let victim = rng.below(nframes as u64) as usize;
    match mal {
        Mal::None => {}
        Mal::BadType => frames[victim][0] = *rng.pick(&[0u8, 4, 5, 7, 9, 65, 255]),
        Mal::BadEnd => {
            let l = frames[victim].len();
            frames[victim][l - 1] = *rng.pick(&[0u8, 0xCD, 0xCF, 1]);
        }
        Mal::SizePlus => {
            let f = &mut frames[victim];
            let s = u32::from_be_bytes([f[3], f[4], f[5], f[6]]) + 1;
            f[3..7].copy_from_slice(&s.to_be_bytes());
        }
        Mal::SizeMinus => {
            let f = &mut frames[victim];
            let s = u32::from_be_bytes([f[3], f[4], f[5], f[6]]);
            if s > 0 {
                f[3..7].copy_from_slice(&(s - 1).to_be_bytes());
            } else {
                f[0] = 9;
            }
        }
        Mal::BadPayload => {
            // valid envelope, payload amq-protocol cannot parse
            frames[victim] = wire::envelope(1, 1, &[0xFF, 0xFF, 0xFF, 0xFF, 1, 2, 3]);
        }
        Mal::Garbage => {
            // garbage whose own bytes 3..7 (the size field the client will read) stay
            // small: a random size field makes the client reserve and zero up to 4 GiB
            // per frame (inbound frame_max is not enforced; DESIGN.md D.3), which only
            // slows the run down
            let n = rng.range(4, 20) as usize;
            let mut g: Vec<u8> = vec![0; n];
            g[0] = rng.below(256) as u8;
            if n > 7 {
                g[6] = rng.below(12) as u8;
                for x in g[7..].iter_mut() {
                    *x = rng.below(256) as u8;
                }
            }
            frames.insert(victim, g);
        }
    }
    frames.concat()
}

/// cut the stream at the given sorted positions; `blocks[i]` says whether a would-block
/// follows chunk i; chunks never exceed 4096 bytes
fn make_script(stream: &[u8], cuts: &[usize], rng: &mut Rng, end: &Rd, block_p: u64) -> Vec<Rd> {
    let mut script = Vec::new();
    let mut pos = 0;
    let mut all_cuts: Vec<usize> = cuts.to_vec();
    all_cuts.push(stream.len());
    for &c in &all_cuts {
        let mut p = pos;
        while p < c {
            let q = (p + 4096).min(c);
            script.push(Rd::Chunk(stream[p..q].to_vec()));
            p = q;
        }
        pos = c;
        if c < stream.len() && rng.chance(block_p, 100) {
            script.push(Rd::Block);
        }
    }
    script.push(end.clone());
    script
}

fn accepts(stream: &[u8]) -> Vec<bool> {
    let mut v = Vec::new();
    let mut s = stream;
    loop {
        if s.len() < 7 {
            return v;
        }
        let size = u32::from_be_bytes([s[3], s[4], s[5], s[6]]) as usize + 8;
        if s.len() < size {
            return v;
        }
        let ok = match amq_protocol::frame::parse_frame(&s[..size]) {
            Ok((rest, _)) => rest.is_empty(),
            Err(_) => false,
        };
        v.push(ok);
        s = &s[size..];
    }
}

fn rd_coq(r: &Rd) -> String {
    match r {
        Rd::Chunk(bs) => format!("Chunk {}", {
            let s = coqfmt::bytes_rle(bs);
            if s.starts_with('(') || s.starts_with('[') {
                s
            } else {
                format!("({})", s)
            }
        }),
        Rd::Block => "Block".into(),
        Rd::Eof => "Eof".into(),
        Rd::IoErr => "IoErr".into(),
    }
}

fn hex(bs: &[u8]) -> String {
    bs.iter().map(|b| format!("{:02x}", b)).collect()
}
fn unhex(s: &str) -> Vec<u8> {
    (0..s.len() / 2).map(|i| u8::from_str_radix(&s[2 * i..2 * i + 2], 16).unwrap()).collect()
}

fn emit(sink: &mut CaseSink, kind: &str, script: &[Rd]) {
    let stream: Vec<u8> = script
        .iter()
        .flat_map(|r| match r {
            Rd::Chunk(b) => b.clone(),
            _ => vec![],
        })
        .collect();
    let acc = accepts(&stream);
    // watchdog: a decoder that has lost its place may ask for gigabytes or never come back
    let (tx, rx) = std::sync::mpsc::channel();
    let sc: Vec<Rd> = script.to_vec();
    std::thread::spawn(move || {
        let _ = tx.send(run_impl(&sc));
    });
    let (obs, truncated) = match rx.recv_timeout(std::time::Duration::from_secs(15)) {
        Ok(x) => x,
        Err(_) => {
            let line = replay_line(script);
            let extra = format!(
                "\"direct_violations\":[{{\"id\":\"decoder-stuck\",\"line\":{},\"what\":\"FrameBuffer::read_from did not come back within 15 s on a {}-byte stream of well-formed frames cut into {} reads\"}}]",
                coqfmt::json_str(&line), stream.len(), script.len()
            );
            sink.finish_mut(&extra);
            // the stuck thread cannot be stopped: leave
            std::process::exit(0);
        }
    };
    sink.count(&format!("kind:{}", kind));
    sink.count_n("truncated_reads", truncated);
    sink.count_n("frames_handed", obs.iter().map(|o| o.0.len() as u64).sum());
    sink.count_n("episodes", obs.len() as u64);
    if let Some((_, r)) = obs.last() {
        sink.count(&format!("end:{}", r.split(' ').next().unwrap()));
    }
    if stream.len() > 4096 {
        sink.count("stream_gt_4096");
    }
    let term = format!(
        "({}, {}, {})",
        coqfmt::list(script, rd_coq),
        coqfmt::list(&acc, |b| coqfmt::b(*b).to_string()),
        coqfmt::list(&obs, |(hs, r)| format!(
            "({}, {})",
            coqfmt::list(hs, |(i, l, a)| format!("({}, {}, {})", i, l, a)),
            r
        ))
    );
    let line = replay_line(script);
    let nontrivial = obs.iter().map(|o| o.0.len()).sum::<usize>() >= 1 && script.len() >= 3;
    sink.push_line(term, nontrivial, line);
}

fn replay_line(script: &[Rd]) -> String {
    script
        .iter()
        .map(|r| match r {
            Rd::Chunk(b) => format!("c{}", hex(b)),
            Rd::Block => "B".into(),
            Rd::Eof => "E".into(),
            Rd::IoErr => "X".into(),
        })
        .collect::<Vec<_>>()
        .join(" ")
}

fn parse_line(line: &str) -> Option<Vec<Rd>> {
    let line = line.split('#').next().unwrap().trim();
    if line.is_empty() {
        return None;
    }
    let mut v = Vec::new();
    for tok in line.split_whitespace() {
        v.push(match tok {
            "B" => Rd::Block,
            "E" => Rd::Eof,
            "X" => Rd::IoErr,
            t if t.starts_with('c') => Rd::Chunk(unhex(&t[1..])),
            _ => return None,
        });
    }
    Some(v)
}

pub fn run(a: &Args) {
    let mut sink = CaseSink::new("C06", "C06", &a.out, 150);
    let mut rng = Rng::new(a.seed);
    if let Some(dir) = &a.corpus {
        if let Ok(rd) = std::fs::read_dir(dir) {
            let mut files: Vec<_> = rd.flatten().map(|e| e.path()).collect();
            files.sort();
            for f in files {
                for line in std::fs::read_to_string(&f).unwrap_or_default().lines() {
                    if let Some(sc) = parse_line(line) {
                        emit(&mut sink, "corpus", &sc);
                    }
                }
            }
        }
    }
    if let Some(pos) = a.rest.iter().position(|x| x == "--line") {
        if let Some(sc) = parse_line(&a.rest[pos + 1]) {
            emit(&mut sink, "replay", &sc);
        }
        sink.finish("");
        return;
    }
    // 1. every single cut position (with would-block) of short 3-frame streams
    let n_every = if a.tier == "thorough" { 12 } else { 3 };
    for _ in 0..n_every {
        let stream = build_stream(&mut rng, 3, false, Mal::None);
        if stream.len() > 90 {
            continue;
        }
        for c in 1..stream.len() {
            let sc = make_script(&stream, &[c], &mut rng, &Rd::Block, 100);
            emit(&mut sink, "every_cut", &sc);
        }
        if a.tier == "thorough" {
            for c1 in 1..stream.len() {
                for c2 in (c1 + 1)..stream.len() {
                    let sc = make_script(&stream, &[c1, c2], &mut rng, &Rd::Block, 100);
                    emit(&mut sink, "every_two_cuts", &sc);
                }
            }
        }
    }
    // 2. byte-at-a-time delivery
    for _ in 0..(if a.tier == "thorough" { 20 } else { 3 }) {
        let stream = build_stream(&mut rng, 2, false, Mal::None);
        let cuts: Vec<usize> = (1..stream.len()).collect();
        let sc = make_script(&stream, &cuts, &mut rng, &Rd::Block, 50);
        emit(&mut sink, "byte_at_a_time", &sc);
    }
    // 3. random
    for i in 0..a.n {
        let big = i % 10 == 0;
        let nframes = rng.range(1, if big { 3 } else { 6 }) as usize;
        let mal = match rng.below(12) {
            0 => Mal::BadType,
            1 => Mal::BadEnd,
            2 => Mal::SizePlus,
            3 => Mal::SizeMinus,
            4 => Mal::BadPayload,
            5 => Mal::Garbage,
            _ => Mal::None,
        };
        let mut stream = build_stream(&mut rng, nframes, big, mal);
        if rng.chance(1, 8) && stream.len() > 2 {
            // truncated stream
            let l = rng.range(1, stream.len() as u64 - 1) as usize;
            stream.truncate(l);
        }
        let ncuts = rng.range(0, 6) as usize;
        let mut cuts: Vec<usize> = (0..ncuts)
            .map(|_| rng.range(1, stream.len().max(2) as u64 - 1) as usize)
            .filter(|c| *c < stream.len())
            .collect();
        // boundary-directed: cut right at / around frame boundaries and header bytes
        if rng.boolean() {
            let (frs, _) = wire::split(&stream);
            let mut off = 0;
            for f in frs {
                let l = f.payload.len() + 8;
                for d in &[0usize, 1, 6, 7, 8] {
                    if rng.chance(1, 4) && off + d > 0 && off + d < stream.len() {
                        cuts.push(off + d);
                    }
                }
                off += l;
            }
        }
        cuts.sort();
        cuts.dedup();
        let end = match rng.below(6) {
            0 => Rd::Eof,
            1 => Rd::IoErr,
            _ => Rd::Block,
        };
        let sc = make_script(&stream, &cuts, &mut rng, &end, 60);
        emit(&mut sink, if big { "random_big" } else { "random" }, &sc);
    }
    sink.finish("");
}
