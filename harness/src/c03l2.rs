//! C03 end to end: consumers from the public API on a real connection; the broker pushes
//! deliveries (bodies of 0 .. 20000 bytes in any partition, properties, channels interleaved,
//! the byte stream cut anywhere); every consumer's receiver is read out and compared.
use crate::absframe::{consumer_msg_to_coq, FR, SM};
use crate::coqfmt::{self, CaseSink};
use crate::l2::*;
use crate::rng::Rng;
use crate::wire;
use crate::Args;
use amiquip::{Auth, Connection, ConnectionOptions, ConnectionTuning, ConsumerOptions};
use std::time::{Duration, Instant};

fn texts(rng: &mut Rng) -> String {
    rng.pick(&["", "x", "amq.direct", "a-longer-routing-key.with.dots", "é€"]).to_string()
}

pub fn scenario(sub: u64) -> Option<(String, usize, usize)> {
    let mut rng = Rng::new(sub);
    // a body beyond the collector's pre-allocation bound (1 MiB), in frames up to 1 MiB: the
    // negotiated frame_max is 4 MiB there (scenario 3 is always part of a run)
    let big = sub == 3 || rng.chance(1, 60);
    let nch = if big { 1 } else { rng.range(1, 2) as usize };
    let n = if big { 2 } else { *rng.pick(&[1usize, 6, 25, 60]) };
    let (stream, peer) = mock_pair();
    let broker = Broker::start(peer.clone(), BrokerCfg { tune: if big { (2047, 4 << 20, 0) } else { BrokerCfg::default().tune }, ..BrokerCfg::default() });
    let mut conn = with_deadline(
        move || Connection::insecure_open_stream(stream, ConnectionOptions::<Auth>::default(), ConnectionTuning::default()),
        Duration::from_secs(5),
    )?
    .ok()?;
    let mut chans = Vec::new();
    let mut tags: Vec<Vec<String>> = Vec::new();
    let mut rxs: Vec<(u16, String, crossbeam_channel::Receiver<amiquip::ConsumerMessage>)> = Vec::new();
    for _ in 0..nch {
        let ch = conn.open_channel(None).ok()?;
        let id = ch.channel_id();
        let mut ts = Vec::new();
        for _ in 0..rng.range(1, 2) {
            let c = ch.basic_consume("q", ConsumerOptions::default()).ok()?;
            ts.push(c.consumer_tag().to_string());
            rxs.push((id, c.consumer_tag().to_string(), c.receiver().clone()));
            std::mem::forget(c);
        }
        tags.push(ts);
        chans.push(ch);
    }
    // per channel a list of messages (each a list of frames); then interleave the channels
    let mut per_chan: Vec<Vec<Vec<FR>>> = vec![Vec::new(); nch];
    let mut expect: Vec<usize> = vec![0; rxs.len()];
    for i in 0..n {
        let k = rng.below(rxs.len() as u64) as usize;
        let (id, tag, _) = &rxs[k];
        expect[k] += 1;
        let len = if big && i == 0 { (1usize << 20) + *rng.pick(&[10usize, 1, 4096]) } else { *rng.pick(&[0usize, 1, 10, 300, 4088, 5000, 20000]) };
        let b0 = rng.below(250) as u8;
        let body: Vec<u8> = (0..len).map(|j| if j == 0 { b0.wrapping_add(1) } else if j + 1 == len { b0.wrapping_add(2) } else { b0 }).collect();
        let mut fs = vec![
            FR::Method(*id, SM::Deliver { tag: tag.clone(), dtag: i as u64 + 1, red: rng.boolean(), exch: texts(&mut rng), rk: texts(&mut rng) }),
            FR::Header(*id, len as u64, rng.below(4) as u8),
        ];
        let mut pos = 0;
        while pos < len {
            if rng.chance(1, 8) {
                fs.push(FR::Body(*id, vec![]));
            }
            let m = if big && i == 0 {
                // a small first frame, then one of exactly the pre-allocation bound
                if pos == 0 { len - (1 << 20) } else { len - pos }
            } else {
                match rng.below(4) {
                    0 => 1,
                    1 => len - pos,
                    _ => rng.range(1, (len - pos) as u64) as usize,
                }
            };
            fs.push(FR::Body(*id, body[pos..pos + m].to_vec()));
            pos += m;
        }
        let ci = chans.iter().position(|c| c.channel_id() == *id).unwrap();
        per_chan[ci].push(fs);
    }
    let mut frames: Vec<FR> = Vec::new();
    let mut queues: Vec<std::collections::VecDeque<FR>> = per_chan.into_iter().map(|ms| ms.into_iter().flatten().collect()).collect();
    while queues.iter().any(|q| !q.is_empty()) {
        let k = rng.below(queues.len() as u64) as usize;
        let take = rng.range(1, 4);
        for _ in 0..take {
            if let Some(f) = queues[k].pop_front() {
                frames.push(f);
            }
        }
    }
    // the byte stream, cut anywhere
    let mut bytes = Vec::new();
    for f in &frames {
        bytes.extend_from_slice(&wire::encode(&f.to_amqp()));
    }
    let mut pos = 0;
    while pos < bytes.len() {
        let m = match rng.below(4) {
            0 => rng.range(1, 9) as usize,
            1 => rng.range(1, 200) as usize,
            _ => rng.range(1, 70000) as usize,
        }
        .min(bytes.len() - pos);
        peer.push(bytes[pos..pos + m].to_vec());
        pos += m;
    }
    // read everything out
    let mut got: Vec<Vec<String>> = vec![Vec::new(); rxs.len()];
    let t0 = Instant::now();
    let mut last_progress = Instant::now();
    while t0.elapsed() < Duration::from_secs(20) {
        let mut progressed = false;
        for (k, (_, _, rx)) in rxs.iter().enumerate() {
            while let Ok(m) = rx.try_recv() {
                got[k].push(consumer_msg_to_coq(&m));
                progressed = true;
            }
        }
        if progressed {
            last_progress = Instant::now();
        }
        let done = got.iter().zip(expect.iter()).all(|(g, e)| g.len() >= *e);
        if (done && last_progress.elapsed() > Duration::from_millis(60)) || last_progress.elapsed() > Duration::from_millis(4000) {
            break;
        }
        std::thread::sleep(Duration::from_millis(3));
    }
    for ch in chans {
        std::mem::forget(ch);
    }
    std::mem::forget(conn);
    let _ = broker.stop();
    let term = format!(
        "({}, {}, {})",
        coqfmt::list(&tags, |ts| coqfmt::list(ts, |t| coqfmt::string(t))),
        coqfmt::list(&frames, |f| {
            let t = f.to_coq();
            format!("{}, [])", &t[..t.rfind(", [").unwrap_or(t.len() - 1)])
        }),
        coqfmt::list(&rxs.iter().zip(got.iter()).collect::<Vec<_>>(), |((id, tag, _), g)| format!(
            "({}, {}, {})",
            id,
            coqfmt::string(tag),
            coqfmt::list(g, |x| x.clone())
        ))
    );
    Some((term, n, bytes.len()))
}

pub fn run(a: &Args) {
    let mut sink = CaseSink::new("C03", "C03l2", &a.out, 4);
    let mut rng = Rng::new(a.seed ^ 0xC03_2);
    let subs: Vec<u64> = if let Some(pos) = a.rest.iter().position(|x| x == "--line") {
        vec![a.rest[pos + 1].split_whitespace().last().unwrap().parse().unwrap()]
    } else {
        std::iter::once(3u64).chain((1..a.n).map(|_| rng.next())).collect()
    };
    for chunk in subs.chunks(6) {
        if crate::l2::timeouts() >= crate::l2::ENOUGH_TIMEOUTS {
            sink.count("stopped-early-after-timeouts");
            break;
        }
        let hs: Vec<_> = chunk.iter().map(|&s| std::thread::spawn(move || (s, crate::l2::watchdog(format!("l2 {}", s), 150, move || scenario(s))))).collect();
        for h in hs {
            match h.join() {
                Ok((s, Some((term, n, bytes)))) => {
                    sink.count("scenario");
                    sink.count_n("messages", n as u64);
                    sink.count_n("stream_bytes", bytes as u64);
                    sink.push_line(term, true, format!("l2 {}", s));
                }
                _ => sink.count("setup_failed"),
            }
        }
    }
    sink.finish("");
}
