//! The abstract frame alphabet of coq/Model/Frames.v on the Rust side: conversion to
//! real amq-protocol frames (what the code under test sees), to Coq terms (what the
//! model sees), and back from the values the client side receives.
use crate::coqfmt;
use amiquip::{AmqpProperties, ConsumerMessage, Error};
use amq_protocol::frame::{AMQPContentHeader, AMQPFrame};
use amq_protocol::protocol::{access, basic, channel, confirm, connection, exchange, queue, tx};
use amq_protocol::protocol::AMQPClass;
use amq_protocol::types::FieldTable;

#[derive(Clone, Debug, PartialEq)]
pub enum SM {
    ConnClose(u16, String),
    ConnCloseOk,
    Blocked(String),
    Unblocked,
    ConnOther(u8),
    ChanClose(u16, String),
    ChanCloseOk,
    ConsumeOk(String),
    Cancel(String, bool),
    CancelOk(String),
    Deliver { tag: String, dtag: u64, red: bool, exch: String, rk: String },
    Return { code: u16, text: String, exch: String, rk: String },
    GetOk { dtag: u64, red: bool, exch: String, rk: String, count: u32 },
    GetEmpty,
    Ack(u64, bool),
    Nack(u64, bool),
    Generic(u8, String, u32, u32),
    Unimpl(u8),
    Illegal(u8, String),
}

#[derive(Clone, Debug, PartialEq)]
pub enum FR {
    Method(u16, SM),
    Header(u16, u64, u8),
    Body(u16, Vec<u8>),
    Heartbeat(u16),
    ProtoHeader,
}

pub const N_PROPS: u8 = 4;

pub fn props_of(id: u8) -> AmqpProperties {
    match id {
        0 => AmqpProperties::default(),
        1 => AmqpProperties::default().with_content_type("text/plain".to_string()),
        2 => AmqpProperties::default().with_priority(7).with_delivery_mode(2),
        _ => {
            let mut t = FieldTable::new();
            t.insert("k".to_string(), amq_protocol::types::AMQPValue::LongInt(42));
            AmqpProperties::default().with_headers(t).with_message_id("m-1".to_string())
        }
    }
}

pub fn props_id(p: &AmqpProperties) -> u64 {
    for id in 0..N_PROPS {
        if *p == props_of(id) {
            return id as u64;
        }
    }
    999
}

pub const GENERIC_KINDS: u8 = 13;
const GENERIC_NAMES: [&str; 13] = [
    "KQosOk", "KRecoverOk", "KChanOpenOk", "KSelectOk", "KExDeclareOk", "KExDeleteOk", "KExBindOk",
    "KExUnbindOk", "KQDeclareOk", "KQDeleteOk", "KQBindOk", "KQPurgeOk", "KQUnbindOk",
];

fn generic_class(k: u8, s: &str, a: u32, b: u32) -> AMQPClass {
    match k {
        0 => AMQPClass::Basic(basic::AMQPMethod::QosOk(basic::QosOk {})),
        1 => AMQPClass::Basic(basic::AMQPMethod::RecoverOk(basic::RecoverOk {})),
        2 => AMQPClass::Channel(channel::AMQPMethod::OpenOk(channel::OpenOk { channel_id: s.to_string() })),
        3 => AMQPClass::Confirm(confirm::AMQPMethod::SelectOk(confirm::SelectOk {})),
        4 => AMQPClass::Exchange(exchange::AMQPMethod::DeclareOk(exchange::DeclareOk {})),
        5 => AMQPClass::Exchange(exchange::AMQPMethod::DeleteOk(exchange::DeleteOk {})),
        6 => AMQPClass::Exchange(exchange::AMQPMethod::BindOk(exchange::BindOk {})),
        7 => AMQPClass::Exchange(exchange::AMQPMethod::UnbindOk(exchange::UnbindOk {})),
        8 => AMQPClass::Queue(queue::AMQPMethod::DeclareOk(queue::DeclareOk {
            queue: s.to_string(),
            message_count: a,
            consumer_count: b,
        })),
        9 => AMQPClass::Queue(queue::AMQPMethod::DeleteOk(queue::DeleteOk { message_count: a })),
        10 => AMQPClass::Queue(queue::AMQPMethod::BindOk(queue::BindOk {})),
        11 => AMQPClass::Queue(queue::AMQPMethod::PurgeOk(queue::PurgeOk { message_count: a })),
        _ => AMQPClass::Queue(queue::AMQPMethod::UnbindOk(queue::UnbindOk {})),
    }
}

/// which payload fields a generic kind carries (the others are normalised to empty / 0)
pub fn generic_norm(k: u8, s: &str, a: u32, b: u32) -> (String, u32, u32) {
    match k {
        2 => (s.to_string(), 0, 0),
        8 => (s.to_string(), a, b),
        9 | 11 => (String::new(), a, 0),
        _ => (String::new(), 0, 0),
    }
}

pub const N_CONN_OTHER: u8 = 5;
fn conn_other(k: u8) -> AMQPClass {
    AMQPClass::Connection(match k {
        0 => connection::AMQPMethod::Start(connection::Start {
            version_major: 0,
            version_minor: 9,
            server_properties: FieldTable::new(),
            mechanisms: "PLAIN".into(),
            locales: "en_US".into(),
        }),
        1 => connection::AMQPMethod::Tune(connection::Tune { channel_max: 1, frame_max: 4096, heartbeat: 1 }),
        2 => connection::AMQPMethod::OpenOk(connection::OpenOk { known_hosts: "".into() }),
        3 => connection::AMQPMethod::Secure(connection::Secure { challenge: "c".into() }),
        _ => connection::AMQPMethod::TuneOk(connection::TuneOk { channel_max: 1, frame_max: 4096, heartbeat: 1 }),
    })
}

pub const N_UNIMPL: u8 = 6;
fn unimpl(k: u8) -> AMQPClass {
    match k {
        0 => AMQPClass::Access(access::AMQPMethod::RequestOk(access::RequestOk { ticket: 1 })),
        1 => AMQPClass::Channel(channel::AMQPMethod::Flow(channel::Flow { active: true })),
        2 => AMQPClass::Channel(channel::AMQPMethod::FlowOk(channel::FlowOk { active: false })),
        3 => AMQPClass::Tx(tx::AMQPMethod::SelectOk(tx::SelectOk {})),
        4 => AMQPClass::Tx(tx::AMQPMethod::CommitOk(tx::CommitOk {})),
        _ => AMQPClass::Tx(tx::AMQPMethod::RollbackOk(tx::RollbackOk {})),
    }
}

pub const N_ILLEGAL: u8 = 19;
fn illegal(k: u8, s: &str) -> AMQPClass {
    let s = s.to_string();
    match k {
        0 => AMQPClass::Basic(basic::AMQPMethod::Qos(basic::Qos { prefetch_size: 0, prefetch_count: 1, global: false })),
        1 => AMQPClass::Basic(basic::AMQPMethod::Consume(basic::Consume {
            ticket: 0, queue: s, consumer_tag: "".into(), no_local: false, no_ack: false,
            exclusive: false, nowait: false, arguments: FieldTable::new(),
        })),
        2 => AMQPClass::Basic(basic::AMQPMethod::Get(basic::Get { ticket: 0, queue: s, no_ack: false })), // amq-protocol 1.4 parses no_ack back as false
        3 => AMQPClass::Basic(basic::AMQPMethod::Publish(basic::Publish {
            ticket: 0, exchange: s, routing_key: "rk".into(), mandatory: false, immediate: false,
        })),
        4 => AMQPClass::Basic(basic::AMQPMethod::Recover(basic::Recover { requeue: true })),
        5 => AMQPClass::Basic(basic::AMQPMethod::RecoverAsync(basic::RecoverAsync { requeue: true })),
        6 => AMQPClass::Basic(basic::AMQPMethod::Reject(basic::Reject { delivery_tag: 1, requeue: true })),
        7 => AMQPClass::Channel(channel::AMQPMethod::Open(channel::Open { out_of_band: s })),
        8 => AMQPClass::Confirm(confirm::AMQPMethod::Select(confirm::Select { nowait: false })),
        9 => AMQPClass::Exchange(exchange::AMQPMethod::Declare(exchange::Declare {
            ticket: 0, exchange: s, type_: "direct".into(), passive: false, durable: false,
            auto_delete: false, internal: false, nowait: false, arguments: FieldTable::new(),
        })),
        10 => AMQPClass::Exchange(exchange::AMQPMethod::Delete(exchange::Delete { ticket: 0, exchange: s, if_unused: false, nowait: false })),
        11 => AMQPClass::Exchange(exchange::AMQPMethod::Bind(exchange::Bind {
            ticket: 0, destination: s, source: "src".into(), routing_key: "".into(), nowait: false, arguments: FieldTable::new(),
        })),
        12 => AMQPClass::Exchange(exchange::AMQPMethod::Unbind(exchange::Unbind {
            ticket: 0, destination: s, source: "src".into(), routing_key: "".into(), nowait: false, arguments: FieldTable::new(),
        })),
        13 => AMQPClass::Queue(queue::AMQPMethod::Declare(queue::Declare {
            ticket: 0, queue: s, passive: false, durable: false, exclusive: false, auto_delete: false,
            nowait: false, arguments: FieldTable::new(),
        })),
        14 => AMQPClass::Queue(queue::AMQPMethod::Delete(queue::Delete { ticket: 0, queue: s, if_unused: false, if_empty: false, nowait: false })),
        15 => AMQPClass::Queue(queue::AMQPMethod::Bind(queue::Bind {
            ticket: 0, queue: s, exchange: "e".into(), routing_key: "".into(), nowait: false, arguments: FieldTable::new(),
        })),
        16 => AMQPClass::Queue(queue::AMQPMethod::Purge(queue::Purge { ticket: 0, queue: s, nowait: false })),
        17 => AMQPClass::Queue(queue::AMQPMethod::Unbind(queue::Unbind {
            ticket: 0, queue: s, exchange: "e".into(), routing_key: "".into(), arguments: FieldTable::new(),
        })),
        _ => AMQPClass::Connection(connection::AMQPMethod::Blocked(connection::Blocked { reason: s })),
    }
}

impl SM {
    pub fn to_class(&self) -> AMQPClass {
        match self {
            SM::ConnClose(code, text) => AMQPClass::Connection(connection::AMQPMethod::Close(connection::Close {
                reply_code: *code, reply_text: text.clone(), class_id: 0, method_id: 0,
            })),
            SM::ConnCloseOk => AMQPClass::Connection(connection::AMQPMethod::CloseOk(connection::CloseOk {})),
            SM::Blocked(r) => AMQPClass::Connection(connection::AMQPMethod::Blocked(connection::Blocked { reason: r.clone() })),
            SM::Unblocked => AMQPClass::Connection(connection::AMQPMethod::Unblocked(connection::Unblocked {})),
            SM::ConnOther(k) => conn_other(*k),
            SM::ChanClose(code, text) => AMQPClass::Channel(channel::AMQPMethod::Close(channel::Close {
                reply_code: *code, reply_text: text.clone(), class_id: 0, method_id: 0,
            })),
            SM::ChanCloseOk => AMQPClass::Channel(channel::AMQPMethod::CloseOk(channel::CloseOk {})),
            SM::ConsumeOk(t) => AMQPClass::Basic(basic::AMQPMethod::ConsumeOk(basic::ConsumeOk { consumer_tag: t.clone() })),
            SM::Cancel(t, nw) => AMQPClass::Basic(basic::AMQPMethod::Cancel(basic::Cancel { consumer_tag: t.clone(), nowait: *nw })),
            SM::CancelOk(t) => AMQPClass::Basic(basic::AMQPMethod::CancelOk(basic::CancelOk { consumer_tag: t.clone() })),
            SM::Deliver { tag, dtag, red, exch, rk } => AMQPClass::Basic(basic::AMQPMethod::Deliver(basic::Deliver {
                consumer_tag: tag.clone(), delivery_tag: *dtag, redelivered: *red, exchange: exch.clone(), routing_key: rk.clone(),
            })),
            SM::Return { code, text, exch, rk } => AMQPClass::Basic(basic::AMQPMethod::Return(basic::Return {
                reply_code: *code, reply_text: text.clone(), exchange: exch.clone(), routing_key: rk.clone(),
            })),
            SM::GetOk { dtag, red, exch, rk, count } => AMQPClass::Basic(basic::AMQPMethod::GetOk(basic::GetOk {
                delivery_tag: *dtag, redelivered: *red, exchange: exch.clone(), routing_key: rk.clone(), message_count: *count,
            })),
            SM::GetEmpty => AMQPClass::Basic(basic::AMQPMethod::GetEmpty(basic::GetEmpty { cluster_id: "".into() })),
            SM::Ack(t, m) => AMQPClass::Basic(basic::AMQPMethod::Ack(basic::Ack { delivery_tag: *t, multiple: *m })),
            SM::Nack(t, m) => AMQPClass::Basic(basic::AMQPMethod::Nack(basic::Nack { delivery_tag: *t, multiple: *m, requeue: false })),
            SM::Generic(k, s, a, b) => generic_class(*k, s, *a, *b),
            SM::Unimpl(k) => unimpl(*k),
            SM::Illegal(k, s) => illegal(*k, s),
        }
    }

    pub fn to_coq(&self) -> String {
        use coqfmt::{b, string as s};
        match self {
            SM::ConnClose(c, t) => format!("(MConnClose {} {})", c, s(t)),
            SM::ConnCloseOk => "MConnCloseOk".into(),
            SM::Blocked(r) => format!("(MBlocked {})", s(r)),
            SM::Unblocked => "MUnblocked".into(),
            SM::ConnOther(_) => "MConnOther".into(),
            SM::ChanClose(c, t) => format!("(MChanClose {} {})", c, s(t)),
            SM::ChanCloseOk => "MChanCloseOk".into(),
            SM::ConsumeOk(t) => format!("(MConsumeOk {})", s(t)),
            SM::Cancel(t, nw) => format!("(MCancel {} {})", s(t), b(*nw)),
            SM::CancelOk(t) => format!("(MCancelOk {})", s(t)),
            SM::Deliver { tag, dtag, red, exch, rk } => {
                format!("(MDeliver {} {} {} {} {})", s(tag), dtag, b(*red), s(exch), s(rk))
            }
            SM::Return { code, text, exch, rk } => format!("(MReturn {} {} {} {})", code, s(text), s(exch), s(rk)),
            SM::GetOk { dtag, red, exch, rk, count } => {
                format!("(MGetOk {} {} {} {} {})", dtag, b(*red), s(exch), s(rk), count)
            }
            SM::GetEmpty => "MGetEmpty".into(),
            SM::Ack(t, m) => format!("(MAck {} {})", t, b(*m)),
            SM::Nack(t, m) => format!("(MNack {} {})", t, b(*m)),
            SM::Generic(k, st, a, bb) => {
                let (st, a, bb) = generic_norm(*k, st, *a, *bb);
                format!("(MGeneric {} {} {} {})", GENERIC_NAMES[*k as usize], s(&st), a, bb)
            }
            SM::Unimpl(_) => "MUnimpl".into(),
            SM::Illegal(_, _) => "MIllegal".into(),
        }
    }
}

/// the method a client receives back on its reply queue, as an smethod term
pub fn class_to_coq(c: &AMQPClass) -> String {
    use coqfmt::string as s;
    match c {
        AMQPClass::Connection(connection::AMQPMethod::CloseOk(_)) => "MConnCloseOk".into(),
        AMQPClass::Channel(channel::AMQPMethod::CloseOk(_)) => "MChanCloseOk".into(),
        AMQPClass::Basic(basic::AMQPMethod::CancelOk(c)) => format!("(MCancelOk {})", s(&c.consumer_tag)),
        AMQPClass::Basic(basic::AMQPMethod::QosOk(_)) => "(MGeneric KQosOk [] 0 0)".into(),
        AMQPClass::Basic(basic::AMQPMethod::RecoverOk(_)) => "(MGeneric KRecoverOk [] 0 0)".into(),
        AMQPClass::Channel(channel::AMQPMethod::OpenOk(o)) => format!("(MGeneric KChanOpenOk {} 0 0)", s(&o.channel_id)),
        AMQPClass::Confirm(confirm::AMQPMethod::SelectOk(_)) => "(MGeneric KSelectOk [] 0 0)".into(),
        AMQPClass::Exchange(exchange::AMQPMethod::DeclareOk(_)) => "(MGeneric KExDeclareOk [] 0 0)".into(),
        AMQPClass::Exchange(exchange::AMQPMethod::DeleteOk(_)) => "(MGeneric KExDeleteOk [] 0 0)".into(),
        AMQPClass::Exchange(exchange::AMQPMethod::BindOk(_)) => "(MGeneric KExBindOk [] 0 0)".into(),
        AMQPClass::Exchange(exchange::AMQPMethod::UnbindOk(_)) => "(MGeneric KExUnbindOk [] 0 0)".into(),
        AMQPClass::Queue(queue::AMQPMethod::DeclareOk(o)) => {
            format!("(MGeneric KQDeclareOk {} {} {})", s(&o.queue), o.message_count, o.consumer_count)
        }
        AMQPClass::Queue(queue::AMQPMethod::DeleteOk(o)) => format!("(MGeneric KQDeleteOk [] {} 0)", o.message_count),
        AMQPClass::Queue(queue::AMQPMethod::BindOk(_)) => "(MGeneric KQBindOk [] 0 0)".into(),
        AMQPClass::Queue(queue::AMQPMethod::PurgeOk(o)) => format!("(MGeneric KQPurgeOk [] {} 0)", o.message_count),
        AMQPClass::Queue(queue::AMQPMethod::UnbindOk(_)) => "(MGeneric KQUnbindOk [] 0 0)".into(),
        _ => "MIllegal (* unexpected reply class *)".into(),
    }
}

impl FR {
    pub fn to_amqp(&self) -> AMQPFrame {
        match self {
            FR::Method(ch, m) => AMQPFrame::Method(*ch, m.to_class()),
            FR::Header(ch, size, p) => AMQPFrame::Header(
                *ch,
                60,
                Box::new(AMQPContentHeader { class_id: 60, weight: 0, body_size: *size, properties: props_of(*p) }),
            ),
            FR::Body(ch, b) => AMQPFrame::Body(*ch, b.clone()),
            FR::Heartbeat(ch) => AMQPFrame::Heartbeat(*ch),
            FR::ProtoHeader => AMQPFrame::ProtocolHeader,
        }
    }
    /// the text `{:?}` yields where the client-exception arms use it
    pub fn dbg(&self) -> String {
        match self {
            FR::Method(ch, m) => {
                let needs = *ch == 0
                    || matches!(m, SM::Unimpl(_) | SM::Illegal(_, _) | SM::ConnOther(_) | SM::ConnClose(_, _)
                        | SM::ConnCloseOk | SM::Blocked(_) | SM::Unblocked);
                if needs { format!("{:?}", m.to_class()) } else { String::new() }
            }
            FR::Header(0, _, _) | FR::Body(0, _) => format!("{:?}", self.to_amqp()),
            _ => String::new(),
        }
    }
    pub fn to_coq(&self) -> String {
        let f = match self {
            // Connection.Blocked stands in for "a connection-class method on a channel": on
            // channel 0 it is simply a Blocked notice
            FR::Method(0, SM::Illegal(k, r)) if *k >= 18 => format!("FMethod 0 (MBlocked {})", coqfmt::string(r)),
            FR::Method(ch, m) => format!("FMethod {} {}", ch, m.to_coq()),
            FR::Header(ch, size, p) => format!("FHeader {} {} {}", ch, size, p),
            FR::Body(ch, b) => format!("FBody {} {}", ch, wrap(coqfmt::bytes_rle(b))),
            FR::Heartbeat(ch) => format!("FHeartbeat {}", ch),
            FR::ProtoHeader => "FProtoHeader".into(),
        };
        format!("({}, {})", f, coqfmt::string(&self.dbg()))
    }
    /// can this frame travel as bytes and come back as the same frame?
    pub fn encodable(&self) -> bool {
        !matches!(self, FR::ProtoHeader) && !matches!(self, FR::Heartbeat(ch) if *ch != 0)
    }
}

pub fn wrap(s: String) -> String {
    if s.starts_with('(') || s.starts_with('[') { s } else { format!("({})", s) }
}

pub fn err_to_coq(e: &Error) -> String {
    use coqfmt::string as s;
    match e {
        Error::FrameUnexpected => "EFrameUnexpected".into(),
        Error::ReceivedFrameWithBogusChannelId { channel_id } => format!("(EBogusChannel {})", channel_id),
        Error::UnknownConsumerTag { channel_id, consumer_tag } => {
            format!("(EUnknownConsumerTag {} {})", channel_id, s(consumer_tag))
        }
        Error::DuplicateConsumerTag { channel_id, consumer_tag } => {
            format!("(EDuplicateConsumerTag {} {})", channel_id, s(consumer_tag))
        }
        Error::EventLoopClientDropped => "EClientDropped".into(),
        Error::EventLoopDropped => "EEventLoopDropped".into(),
        Error::UnexpectedSocketClose => "EUnexpectedSocketClose".into(),
        Error::IoErrorReadingSocket { .. } => "EIoRead".into(),
        Error::IoErrorWritingSocket { .. } => "EIoWrite".into(),
        Error::MalformedFrame => "EMalformed".into(),
        Error::MissedServerHeartbeats => "EMissedHeartbeats".into(),
        Error::ServerClosedConnection { code, message } => format!("(EServerClosedConnection {} {})", code, s(message)),
        Error::ClientClosedConnection => "EClientClosedConnection".into(),
        Error::ServerClosedChannel { channel_id, code, message } => {
            format!("(EServerClosedChannel {} {} {})", channel_id, code, s(message))
        }
        Error::ClientClosedChannel => "EClientClosedChannel".into(),
        Error::ClientException => "EClientException".into(),
        Error::UnavailableChannelId { channel_id } => format!("(EUnavailableChannelId {})", channel_id),
        Error::ExhaustedChannelIds => "EExhaustedChannelIds".into(),
        _ => "EOther".into(),
    }
}

pub fn message_to_coq(d: &amiquip::Delivery) -> String {
    use coqfmt::{b, string as s};
    format!(
        "{{| m_ch := {}; m_dtag := {}; m_redelivered := {}; m_exch := {}; m_rk := {}; m_body := {}; m_props := {} |}}",
        d.verif_channel_id(),
        d.delivery_tag(),
        b(d.redelivered),
        s(&d.exchange),
        s(&d.routing_key),
        coqfmt::bytes_rle(&d.body),
        props_id(&d.properties)
    )
}

pub fn consumer_msg_to_coq(m: &ConsumerMessage) -> String {
    match m {
        ConsumerMessage::Delivery(d) => format!("(IDelivery {})", message_to_coq(d)),
        ConsumerMessage::ClientCancelled => "IClientCancelled".into(),
        ConsumerMessage::ServerCancelled => "IServerCancelled".into(),
        ConsumerMessage::ClientClosedChannel => "IClientClosedChannel".into(),
        ConsumerMessage::ServerClosedChannel(e) => format!("(IServerClosedChannel {})", err_to_coq(e)),
        ConsumerMessage::ClientClosedConnection => "IClientClosedConnection".into(),
        ConsumerMessage::ServerClosedConnection(e) => format!("(IServerClosedConnection {})", err_to_coq(e)),
    }
}
