//! C10: the real `ChannelSlots` (through `amiquip::verif::SlotsProbe`) on corpus,
//! bounded-exhaustive and random operation sequences.
use crate::coqfmt::{self, CaseSink};
use crate::rng::Rng;
use crate::Args;
use amiquip::verif::SlotsProbe;
use amiquip::Error;
use std::panic::{catch_unwind, AssertUnwindSafe};

#[derive(Clone, Debug, PartialEq)]
pub enum Op {
    OpenSome(u16),
    OpenNone,
    FailSome(u16),
    FailNone,
    Close(u16),
    Drain,
}

#[derive(Clone, Debug, PartialEq)]
pub enum Res {
    Ok(u16),
    Unavailable(u16),
    Exhausted,
    MakeEntryFailed,
    Panic,
    Removed(bool),
    Drained(Vec<u16>),
    Other(String),
}

fn op_coq(o: &Op) -> String {
    match o {
        Op::OpenSome(i) => format!("OpenSome {}", i),
        Op::OpenNone => "OpenNone".into(),
        Op::FailSome(i) => format!("FailSome {}", i),
        Op::FailNone => "FailNone".into(),
        Op::Close(i) => format!("Close {}", i),
        Op::Drain => "Drain".into(),
    }
}
fn op_txt(o: &Op) -> String {
    match o {
        Op::OpenSome(i) => format!("S{}", i),
        Op::OpenNone => "N".into(),
        Op::FailSome(i) => format!("FS{}", i),
        Op::FailNone => "FN".into(),
        Op::Close(i) => format!("C{}", i),
        Op::Drain => "D".into(),
    }
}
fn res_coq(r: &Res) -> String {
    match r {
        Res::Ok(i) => format!("ROk {}", i),
        Res::Unavailable(i) => format!("RUnavailable {}", i),
        Res::Exhausted => "RExhausted".into(),
        Res::MakeEntryFailed => "RMakeEntryFailed".into(),
        Res::Panic => "RPanic".into(),
        Res::Removed(b) => format!("RRemoved {}", coqfmt::b(*b)),
        Res::Drained(v) => format!("RDrained {}", coqfmt::list(v, |x| x.to_string())),
        // anything else is no result the model can produce: shown as a panic-class result
        Res::Other(_) => "RFuel".into(),
    }
}

fn conv(r: Result<u16, Error>) -> Res {
    match r {
        Ok(id) => Res::Ok(id),
        Err(Error::UnavailableChannelId { channel_id }) => Res::Unavailable(channel_id),
        Err(Error::ExhaustedChannelIds) => Res::Exhausted,
        Err(Error::FrameUnexpected) => Res::MakeEntryFailed,
        Err(e) => Res::Other(format!("{:?}", e)),
    }
}

pub fn run_impl(max: u16, ops: &[(u64, Op)]) -> Vec<(u64, Res)> {
    let mut probe = SlotsProbe::new(max);
    let mut out: Vec<(u64, Res)> = Vec::new();
    'outer: for (n, op) in ops {
        for _ in 0..*n {
            let r = catch_unwind(AssertUnwindSafe(|| match op {
                Op::OpenSome(i) => conv(probe.insert(Some(*i))),
                Op::OpenNone => conv(probe.insert(None)),
                Op::FailSome(i) => conv(probe.insert_failing(Some(*i))),
                Op::FailNone => conv(probe.insert_failing(None)),
                Op::Close(i) => Res::Removed(probe.remove(*i)),
                Op::Drain => Res::Drained(probe.drain()),
            }));
            let r = r.unwrap_or(Res::Panic);
            let stop = r == Res::Panic;
            match out.last_mut() {
                Some((k, last)) if *last == r => *k += 1,
                _ => out.push((1, r)),
            }
            if stop {
                break 'outer;
            }
        }
    }
    out
}

fn emit(sink: &mut CaseSink, kind: &str, max: u16, ops: &[(u64, Op)]) {
    let obs = run_impl(max, ops);
    sink.count(&format!("kind:{}", kind));
    let nops: u64 = ops.iter().map(|(n, _)| *n).sum();
    sink.count(&format!("len:{}", if nops > 12 { ">12".to_string() } else { nops.to_string() }));
    for (n, r) in &obs {
        let k = match r {
            Res::Ok(_) => "res:ok",
            Res::Unavailable(_) => "res:unavailable",
            Res::Exhausted => "res:exhausted",
            Res::MakeEntryFailed => "res:make_entry_failed",
            Res::Panic => "res:PANIC",
            Res::Removed(true) => "res:removed",
            Res::Removed(false) => "res:not_open",
            Res::Drained(_) => "res:drained",
            Res::Other(_) => "res:OTHER",
        };
        sink.count_n(k, *n);
    }
    let term = format!(
        "({}, {}, {})",
        max,
        coqfmt::list(ops, |(n, o)| format!("({}, {})", n, op_coq(o))),
        coqfmt::list(&obs, |(n, r)| format!("({}, {})", n, res_coq(r)))
    );
    let line = format!(
        "{} {}",
        max,
        ops.iter()
            .map(|(n, o)| if *n == 1 { op_txt(o) } else { format!("{}*{}", n, op_txt(o)) })
            .collect::<Vec<_>>()
            .join(" ")
    );
    let nontrivial = nops >= 2 && obs.iter().any(|(_, r)| matches!(r, Res::Ok(_)));
    sink.push_line(term, nontrivial, line);
}

pub fn parse_line(line: &str) -> Option<(u16, Vec<(u64, Op)>)> {
    let line = line.split('#').next().unwrap().trim();
    if line.is_empty() {
        return None;
    }
    let mut it = line.split_whitespace();
    let max: u16 = it.next()?.parse().ok()?;
    let mut ops = Vec::new();
    for tok in it {
        if tok.starts_with('@') {
            continue;
        }
        let (n, t) = match tok.find('*') {
            Some(p) => (tok[..p].parse().ok()?, &tok[p + 1..]),
            None => (1u64, tok),
        };
        let op = if t == "N" {
            Op::OpenNone
        } else if t == "FN" {
            Op::FailNone
        } else if t == "D" {
            Op::Drain
        } else if let Some(r) = t.strip_prefix("FS") {
            Op::FailSome(r.parse().ok()?)
        } else if let Some(r) = t.strip_prefix('S') {
            Op::OpenSome(r.parse().ok()?)
        } else if let Some(r) = t.strip_prefix('C') {
            Op::Close(r.parse().ok()?)
        } else {
            return None;
        };
        ops.push((n, op));
    }
    Some((max, ops))
}

fn exhaustive(sink: &mut CaseSink, max: u16, len: usize) {
    let mut alphabet = vec![Op::OpenNone];
    for i in 0..=(max + 1) {
        alphabet.push(Op::OpenSome(i));
    }
    for i in 1..=max {
        alphabet.push(Op::Close(i));
    }
    let k = alphabet.len();
    for l in 1..=len {
        let total = (k as u64).pow(l as u32);
        for mut code in 0..total {
            let mut ops = Vec::with_capacity(l);
            for _ in 0..l {
                ops.push((1u64, alphabet[(code % k as u64) as usize].clone()));
                code /= k as u64;
            }
            emit(sink, &format!("exhaustive_max{}", max), max, &ops);
        }
    }
}

fn random_case(rng: &mut Rng) -> (u16, Vec<(u64, Op)>) {
    let big = rng.chance(1, 5);
    let max: u16 = if big {
        *rng.pick(&[65535u16, 65534, 65535, 1000])
    } else {
        rng.range(1, 6) as u16
    };
    let mut ops = Vec::new();
    if big {
        // bring the never-used counter close to the top without filling the table
        let skip = (max as u64).saturating_sub(rng.range(0, 4));
        if rng.chance(4, 5) {
            ops.push((skip, Op::FailNone));
        }
    }
    let len = rng.range(1, if big { 14 } else { 30 });
    let near = |rng: &mut Rng| -> u16 {
        if big {
            match rng.below(4) {
                0 => max,
                1 => max.saturating_sub(rng.range(0, 3) as u16),
                2 => rng.range(0, 3) as u16,
                _ => max.wrapping_add(rng.range(0, 1) as u16),
            }
        } else {
            rng.range(0, max as u64 + 1) as u16
        }
    };
    for _ in 0..len {
        let op = match rng.below(20) {
            0..=7 => Op::OpenNone,
            8..=11 => Op::OpenSome(near(rng)),
            12..=17 => Op::Close(near(rng)),
            18 => {
                if rng.chance(1, 3) {
                    Op::FailNone
                } else {
                    Op::OpenNone
                }
            }
            _ => {
                if rng.chance(1, 3) {
                    Op::FailSome(near(rng))
                } else {
                    Op::Close(near(rng))
                }
            }
        };
        ops.push((1, op));
    }
    if rng.chance(1, 6) {
        ops.push((1, Op::Drain));
    }
    (max, ops)
}

pub fn run(a: &Args) {
    let mut sink = CaseSink::new("C10", "C10", &a.out, 500);
    let mut rng = Rng::new(a.seed);
    if let Some(dir) = &a.corpus {
        if let Ok(rd) = std::fs::read_dir(dir) {
            let mut files: Vec<_> = rd.flatten().map(|e| e.path()).collect();
            files.sort();
            for f in files {
                for line in std::fs::read_to_string(&f).unwrap_or_default().lines() {
                    if let Some((max, ops)) = parse_line(line) {
                        emit(&mut sink, "corpus", max, &ops);
                    }
                }
            }
        }
    }
    if let Some(pos) = a.rest.iter().position(|x| x == "--line") {
        if let Some((max, ops)) = parse_line(&a.rest[pos + 1]) {
            emit(&mut sink, "replay", max, &ops);
        }
        sink.finish("");
        return;
    }
    let plan: &[(u16, usize)] = if a.tier == "thorough" {
        &[(1, 8), (2, 6), (3, 6)]
    } else {
        &[(1, 5), (2, 4), (3, 4)]
    };
    for (max, len) in plan {
        exhaustive(&mut sink, *max, *len);
    }
    for _ in 0..a.n {
        let (max, ops) = random_case(&mut rng);
        emit(&mut sink, "random", max, &ops);
    }
    sink.finish("");
}
