//! C18 / C01, the wake-up discipline: the REAL run_io_loop on this thread through the
//! LoopProbe (real Poll, real mio-extras channels, real handle_steady_event and throttle
//! tail). The callback below plays the publishers and the transport; every micro-step is
//! recorded in the order it really happened, with what was observed, and the Coq model
//! (Model/Wake.v + Model/Loop.v) has to reproduce every observation.
use crate::coqfmt::{self, CaseSink};
use crate::rng::Rng;
use crate::Args;
use amiquip::verif::{run_loop, LoopClient, LoopEvent, Wr};
use std::collections::BTreeMap;

const STREAM: usize = 65536;
const ALLOC: usize = 65538;

#[derive(Clone, Debug)]
enum Op {
    Send(u16, usize),
    DropTx(u16),
    Poll,
    Ev(u16),
    Wrote(usize),
    Alloc(u16),
    Remove(u16),
    Grow(usize),
    Tail,
}

#[derive(Clone, Debug)]
enum Obs {
    Accepted(bool),
    Polled(Vec<u16>),
    Event(u8, usize, bool),
    Out(usize),
    Tail(u8, bool, bool, bool),
    Unit,
    Any,
}

fn op_term(o: &Op) -> String {
    match o {
        Op::Send(ch, sz) => format!("WSend {} {}", ch, sz),
        Op::DropTx(ch) => format!("WDropTx {}", ch),
        Op::Poll => "WPoll".into(),
        Op::Ev(ch) => format!("WEv {}", ch),
        Op::Wrote(k) => format!("WWrote {}", k),
        Op::Alloc(ch) => format!("WAlloc {}", ch),
        Op::Remove(ch) => format!("WRemove {}", ch),
        Op::Grow(k) => format!("WGrow {}", k),
        Op::Tail => "WTail".into(),
    }
}

fn obs_term(o: &Obs) -> String {
    match o {
        Obs::Accepted(b) => format!("BAccepted {}", coqfmt::b(*b)),
        Obs::Polled(v) => format!("BPolled {}", coqfmt::list(v, |x| x.to_string())),
        Obs::Event(c, out, need) => format!("BEvent {} {} {}", c, out, coqfmt::b(*need)),
        Obs::Out(n) => format!("BOut {}", n),
        Obs::Tail(a, l, n, i) => format!("BTail {} {} {} {}", a, coqfmt::b(*l), coqfmt::b(*n), coqfmt::b(*i)),
        Obs::Unit => "BUnit".into(),
        Obs::Any => "BAny".into(),
    }
}

/// message = [ch hi, ch lo, seq x4, len x2, fill...]
fn message(ch: u16, seq: u32, len: usize) -> Vec<u8> {
    let len = len.max(8);
    let mut m = Vec::with_capacity(len);
    m.extend_from_slice(&ch.to_be_bytes());
    m.extend_from_slice(&seq.to_be_bytes());
    m.extend_from_slice(&(len as u16).to_be_bytes());
    while m.len() < len {
        m.push((seq as u8).wrapping_mul(31).wrapping_add(m.len() as u8));
    }
    m
}

/// the wire must be whole messages, per channel seq 0, 1, 2, ... exactly the accepted ones
fn delivered(wire: &[u8], accepted: &BTreeMap<u16, u32>, closed: &[u16]) -> bool {
    let mut next: BTreeMap<u16, u32> = BTreeMap::new();
    let mut i = 0;
    while i < wire.len() {
        // the thread's own Channel.CloseOk (a method frame, 12 bytes) between messages
        if wire.len() - i >= 12 && wire[i] == 1 && wire[i + 3..i + 11] == [0, 0, 0, 4, 0, 20, 0, 41] && wire[i + 11] == 206 {
            i += 12;
            continue;
        }
        if wire.len() - i < 8 {
            return false;
        }
        let ch = u16::from_be_bytes([wire[i], wire[i + 1]]);
        let seq = u32::from_be_bytes([wire[i + 2], wire[i + 3], wire[i + 4], wire[i + 5]]);
        let len = u16::from_be_bytes([wire[i + 6], wire[i + 7]]) as usize;
        if len < 8 || wire.len() - i < len || wire[i..i + len] != message(ch, seq, len)[..] {
            return false;
        }
        let n = next.entry(ch).or_insert(0);
        if *n != seq {
            return false;
        }
        *n += 1;
        i += len;
    }
    // a channel the server closed: what its mailbox still held went with it (a prefix was delivered)
    accepted.iter().all(|(ch, n)| { let d = next.get(ch).copied().unwrap_or(0); if closed.contains(ch) { d <= *n } else { d == *n } })
        && next.iter().all(|(ch, n)| accepted.get(ch).copied().unwrap_or(0) >= *n)
}

fn channel_close_frame(ch: u16) -> Vec<u8> {
    use amq_protocol::frame::AMQPFrame;
    use amq_protocol::protocol::{channel, AMQPClass};
    crate::wire::encode(&AMQPFrame::Method(ch, AMQPClass::Channel(channel::AMQPMethod::Close(channel::Close { reply_code: 404, reply_text: "gone".into(), class_id: 0, method_id: 0 }))))
}

pub struct Outcome {
    pub term: String,
    pub steps: usize,
    pub throttled: bool,
    pub rearmed: bool,
    pub refused: bool,
    pub alloc_throttled: bool,
    pub dropped: bool,
    pub lost_all: bool,
    pub loop_err: Option<String>,
}

pub fn scenario(sub: u64) -> Outcome {
    let mut rng = Rng::new(sub);
    let bound = *rng.pick(&[1usize, 2, 4]);
    let high = *rng.pick(&[100usize, 300, 1000]);
    let low = *rng.pick(&[0usize, high / 2, high]);
    let nch = rng.range(1, 3) as usize;
    let traffic = rng.range(10, 40) as usize;
    let with_drop = rng.chance(1, 8);
    // a quarter of the scenarios are built around the pattern in which a wake-up is owed without
    // throttling: channel A stops at the mark with a message left, the socket takes the data in
    // the same batch, another channel's event comes after that
    let directed = rng.chance(1, 4);
    let nch = if directed { nch.max(2) } else { nch };
    // one scenario in six: while the connection is throttled the server closes EVERY channel (one
    // per batch); the transport then drains, the channels are polled again with none left, and a
    // channel opened after that must work like any other
    let lose_all = !directed && !with_drop && rng.chance(1, 5);
    let mut closing: Option<u16> = None; // a Channel.Close pushed for the next socket event
    let mut closed: Vec<u16> = Vec::new();
    let mut phase_lost = 0u8; // 0 traffic, 1 closing the channels, 2 draining, 3 reopened
    let mut extra_sent = 0usize;
    let mut steps: Vec<(Op, Obs)> = Vec::new();
    let mut tail_idx: Vec<usize> = Vec::new(); // positions of the WTail steps
    let mut interest_seen: Vec<u8> = Vec::new(); // the socket's interest as each callback found it
    let mut chans: Vec<u16> = Vec::new();
    let mut seq: BTreeMap<u16, u32> = BTreeMap::new();
    let mut mx = 8usize;
    let mut k = 0usize;
    let mut quiet = 0usize;
    let mut pending_alloc = false;
    let mut alloc_throttled = false;
    let mut refused = false;
    let mut dropped = false;
    let mut throttled_now = false;
    let mut stall = 0usize;
    let mut r2 = rng.fork();
    let mut cb = |evs: &[LoopEvent], cl: &mut LoopClient, out: usize, _need: bool| -> bool {
        interest_seen.push(cl.interests().last().copied().unwrap_or(3));
        // --- what the batch did, in order ---
        let mut polled: Vec<u16> = evs.iter().filter(|e| e.token >= 1 && e.token <= 65535).map(|e| e.token as u16).collect();
        polled.sort();
        // an event that fails ends the loop: the rest of what the poll reported is not seen
        let cut_short = evs.iter().any(|e| !e.ok);
        steps.push((Op::Poll, if cut_short { Obs::Any } else { Obs::Polled(polled.clone()) }));
        let mut failed = false;
        for e in evs {
            if e.token == STREAM {
                if e.written > 0 {
                    steps.push((Op::Wrote(e.written), if closing.is_some() { Obs::Any } else { Obs::Out(e.out_after) }));
                }
                if let Some(ch) = closing.take() {
                    // the read of this event carried the server's Channel.Close(ch): the slot goes
                    // (its receiver leaves the poll), Channel.CloseOk (12 bytes) is queued
                    steps.push((Op::Remove(ch), Obs::Unit));
                    steps.push((Op::Grow(12), Obs::Out(e.out_after)));
                    chans.retain(|c| *c != ch);
                    closed.push(ch);
                    cl.drop_handle(ch);
                }
            } else if e.token == ALLOC {
                if let Some(id) = cl.take_alloc() {
                    steps.push((Op::Alloc(id), Obs::Unit));
                    chans.push(id);
                    pending_alloc = false;
                    if throttled_now {
                        alloc_throttled = true;
                    }
                }
            } else if e.token >= 1 && e.token <= 65535 {
                let code = if e.ok { 0 } else if e.client_dropped { 1 } else { 7 };
                steps.push((Op::Ev(e.token as u16), Obs::Event(code, e.out_after, e.need_after)));
            }
            if !e.ok {
                failed = true;
            }
        }
        if failed {
            return false;
        }
        k += 1;
        throttled_now = out > high || (throttled_now && out > low);
        // --- the publishers and the transport ---
        if lose_all && phase_lost == 0 && throttled_now && chans.len() >= nch {
            phase_lost = 1;
        }
        if phase_lost == 1 {
            // throttled: the transport takes nothing; the server closes one channel per batch
            cl.script_writes(vec![]);
            if let Some(&ch) = chans.first() {
                cl.push_read(channel_close_frame(ch));
                closing = Some(ch);
            } else {
                phase_lost = 2;
            }
            if phase_lost == 1 {
                tail_idx.push(steps.len());
                steps.push((Op::Tail, Obs::Unit));
                return true;
            }
        }
        if phase_lost == 2 {
            // the transport drains: the tail resumes the channels - with none left
            cl.script_writes((0..64).map(|_| Wr::Wrote(100_000)).collect());
            if !throttled_now && out == 0 {
                if !pending_alloc && chans.is_empty() && cl.alloc_req() {
                    pending_alloc = true;
                }
                if !chans.is_empty() {
                    phase_lost = 3;
                }
            }
            if phase_lost == 2 {
                if k > 400 {
                    return false;
                }
                tail_idx.push(steps.len());
                steps.push((Op::Tail, Obs::Unit));
                return true;
            }
        }
        if phase_lost == 3 {
            // the new channel is used like any other
            cl.script_writes((0..64).map(|_| Wr::Wrote(100_000)).collect());
            if extra_sent < 3 {
                let ch = chans[0];
                let s = *seq.get(&ch).unwrap_or(&0);
                let ok = cl.send(ch, message(ch, s, 20));
                steps.push((Op::Send(ch, 20), Obs::Accepted(ok)));
                if ok {
                    seq.insert(ch, s + 1);
                    extra_sent += 1;
                }
            }
            let busy = out > 0 || !polled.is_empty() || extra_sent < 3;
            quiet = if busy { 0 } else { quiet + 1 };
            if quiet >= 3 || k > 600 {
                return false;
            }
            tail_idx.push(steps.len());
            steps.push((Op::Tail, Obs::Unit));
            return true;
        }
        let setup = chans.len() < nch;
        if setup {
            if !pending_alloc && cl.alloc_req() {
                pending_alloc = true;
            }
        }
        let in_traffic = !setup && k <= nch + 2 + traffic;
        if in_traffic && directed && k % 3 == 0 && out <= high {
            let (a, b) = (chans[0], chans[1]);
            let mut send = |cl: &mut LoopClient, ch: u16, len: usize| {
                let s = *seq.get(&ch).unwrap_or(&0);
                let ok = cl.send(ch, message(ch, s, len));
                steps.push((Op::Send(ch, len.max(8)), Obs::Accepted(ok)));
                if ok {
                    seq.insert(ch, s + 1);
                    mx = mx.max(len);
                }
            };
            send(cl, a, high - out.min(high) + 1 + r2.below(40) as usize);
            send(cl, a, 20);
            cl.kick();
            send(cl, b, 20);
            cl.script_writes((0..8).map(|_| Wr::Wrote(100_000)).collect());
        } else if in_traffic {
            // a channel opened while throttled
            if throttled_now && !pending_alloc && chans.len() < nch + 1 && r2.chance(1, 4) && cl.alloc_req() {
                pending_alloc = true;
            }
            let sends = r2.range(0, 2 * bound as u64 + 1);
            // where among these sends the socket's event is queued for the next batch
            let kick_at = r2.below(sends + 1);
            for i in 0..sends {
                if i == kick_at {
                    cl.kick();
                }
                let ch = *r2.pick(&chans);
                let len = *r2.pick(&[8usize, 20, 60, 150, high / 2 + 9]);
                let s = *seq.get(&ch).unwrap_or(&0);
                let ok = cl.send(ch, message(ch, s, len));
                steps.push((Op::Send(ch, len.max(8)), Obs::Accepted(ok)));
                if ok {
                    seq.insert(ch, s + 1);
                    mx = mx.max(len);
                } else {
                    refused = true;
                }
            }
            // the transport: stalls for a while, then takes some
            if stall > 0 {
                stall -= 1;
                cl.script_writes(vec![]);
            } else if r2.chance(1, 3) {
                stall = r2.range(1, 6) as usize;
                cl.script_writes(vec![]);
            } else {
                let n = r2.range(1, 3);
                cl.script_writes((0..n).map(|_| Wr::Wrote(r2.range(1, 400) as usize)).collect());
            }
        } else if !setup {
            // drain: nothing new, the transport takes everything
            if with_drop && !dropped && !chans.is_empty() {
                let ch = chans[0];
                cl.drop_handle(ch);
                steps.push((Op::DropTx(ch), Obs::Unit));
                dropped = true;
            }
            cl.script_writes((0..64).map(|_| Wr::Wrote(100_000)).collect());
            let busy = out > 0 || !polled.is_empty();
            quiet = if busy { 0 } else { quiet + 1 };
            if quiet >= 3 || k > 600 {
                return false;
            }
        }
        tail_idx.push(steps.len());
        steps.push((Op::Tail, Obs::Unit));
        true
    };
    let mut wire: Vec<u8> = Vec::new();
    let mut last_interest: u8 = 3;
    let (res, tails) = {
        let mut cb2 = |evs: &[LoopEvent], cl: &mut LoopClient, out: usize, need: bool| -> bool {
            let go = cb(evs, cl, out, need);
            wire.extend(cl.take_written());
            last_interest = cl.interests().last().copied().unwrap_or(3);
            go
        };
        run_loop(bound, high, low, &mut cb2)
    };
    // the tail records: one per callback that answered "go on"
    let mut throttled = false;
    let mut rearmed = false;
    for (j, &pos) in tail_idx.iter().enumerate() {
        if let Some(t) = tails.get(j) {
            let action = if t.listening_before && !t.listening_after {
                1
            } else if !t.listening_before && t.listening_after {
                2
            } else if t.listening_before && t.need_before && !t.need_after {
                3
            } else {
                0
            };
            throttled |= action == 1;
            rearmed |= action == 3;
            // the socket's interest after this tail: what the next callback found
            let interest = interest_seen.get(j + 1).copied().unwrap_or(last_interest);
            steps[pos].1 = Obs::Tail(action, t.listening_after, t.need_after, interest & 2 != 0);
        } else {
            // the loop ended (error) before this tail ran
            steps.truncate(pos);
            break;
        }
    }
    let loop_err = match &res {
        Ok(()) => None,
        Err(e) => Some(format!("{:?}", e)),
    };
    let client_dropped_end = matches!(&res, Err(amiquip::Error::EventLoopClientDropped));
    let ok_end = res.is_ok() || (dropped && client_dropped_end);
    // when the loop ended because a handle was dropped, what that channel still held is moot
    let all = if dropped { true } else { delivered(&wire, &seq, &closed) };
    let term = format!(
        "(({}, {}, {}), {}, {}, {})",
        bound,
        high,
        low,
        coqfmt::list(&steps, |(o, b)| format!("({}, {})", op_term(o), obs_term(b))),
        coqfmt::b(all && ok_end),
        mx
    );
    Outcome { term, steps: steps.len(), throttled, rearmed, refused, alloc_throttled, dropped, lost_all: phase_lost == 3 && extra_sent == 3, loop_err }
}

pub fn run(a: &Args) {
    let mut sink = CaseSink::new("C18", "C18loop", &a.out, 16);
    let mut rng = Rng::new(a.seed ^ 0xC18_100);
    let mut lines: Vec<u64> = Vec::new();
    if let Some(pos) = a.rest.iter().position(|x| x == "--line") {
        lines.push(a.rest[pos + 1].split_whitespace().last().unwrap().parse().unwrap());
    } else {
        if let Some(dir) = &a.corpus {
            if let Ok(txt) = std::fs::read_to_string(dir.join("loop.txt")) {
                for l in txt.lines() {
                    if let Some(s) = l.strip_prefix("loop ") {
                        if let Ok(v) = s.trim().parse() {
                            lines.push(v);
                        }
                    }
                }
            }
        }
        for _ in 0..a.n {
            lines.push(rng.next());
        }
    }
    for s in lines {
        let o = scenario(s);
        sink.count("scenario");
        sink.count_n("steps", o.steps as u64);
        if o.throttled {
            sink.count("throttled");
        }
        if o.rearmed {
            sink.count("rearmed-without-throttling");
        }
        if o.refused {
            sink.count("mailbox-full-refusal");
        }
        if o.alloc_throttled {
            sink.count("channel-opened-while-throttled");
        }
        if o.dropped {
            sink.count("handle-dropped");
        }
        if o.lost_all {
            sink.count("all-channels-closed-while-throttled-then-reopened");
        }
        if let Some(e) = &o.loop_err {
            sink.count(&format!("loop-ended:{}", e.chars().take(40).collect::<String>()));
        }
        sink.push_line(o.term, o.throttled || o.rearmed, format!("loop {}", s));
    }
    sink.finish("");
}
