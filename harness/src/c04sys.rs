//! C04 at the level of the whole system (coq/Model/Sys.v): K caller threads, each running a
//! program of synchronous calls (queue_declare / queue_purge / queue_delete: each is answered
//! with a count) and nowait calls (publish, purge_nowait, delete_nowait) on its own channel of
//! one real connection; a broker that answers the requests of one channel in order and the
//! channels in ANY relative order - at once, in batches, one per read episode, or only after
//! every running channel has a request outstanding.  Whatever the interleaving, the i-th call
//! of channel n must return answer(n, r_i), the broker's reply to that channel's i-th
//! synchronous request (C04_system_own_reply), and the broker must have seen each channel's
//! requests exactly as issued, in order.
use crate::coqfmt::{self, CaseSink};
use crate::l2::*;
use crate::rng::Rng;
use crate::Args;
use amiquip::{Auth, Connection, ConnectionOptions, ConnectionTuning, Publish, QueueDeclareOptions, QueueDeleteOptions};
use amq_protocol::frame::AMQPFrame;
use amq_protocol::protocol::{basic, channel, connection, queue, AMQPClass};
use std::collections::{BTreeMap, VecDeque};
use std::sync::atomic::{AtomicBool, AtomicUsize, Ordering};
use std::sync::{Arc, Mutex};
use std::time::{Duration, Instant};

/// shared with Coq (Check/C04sys.v)
pub fn answer(n: u64, r: u64) -> u64 {
    (n * 7919 + r * 104729 + 13) % 1000003
}

#[derive(Clone, Copy, Debug)]
pub struct Call {
    pub sync: bool,
    pub r: u64,
}

fn parse_name(s: &str) -> Option<u64> {
    s.get(1..).and_then(|x| x.parse().ok())
}

/// (is_sync, r, reply) of a client method, if it is one of the program's requests
fn classify(ch: u16, m: &AMQPClass) -> Option<(bool, u64, Option<AMQPFrame>)> {
    match m {
        AMQPClass::Queue(queue::AMQPMethod::Declare(d)) => {
            let r = parse_name(&d.queue)?;
            let rep = AMQPFrame::Method(ch, AMQPClass::Queue(queue::AMQPMethod::DeclareOk(queue::DeclareOk { queue: d.queue.clone(), message_count: answer(ch as u64, r) as u32, consumer_count: 0 })));
            Some((!d.nowait, r, if d.nowait { None } else { Some(rep) }))
        }
        AMQPClass::Queue(queue::AMQPMethod::Purge(d)) => {
            let r = parse_name(&d.queue)?;
            let rep = AMQPFrame::Method(ch, AMQPClass::Queue(queue::AMQPMethod::PurgeOk(queue::PurgeOk { message_count: answer(ch as u64, r) as u32 })));
            Some((!d.nowait, r, if d.nowait { None } else { Some(rep) }))
        }
        AMQPClass::Queue(queue::AMQPMethod::Delete(d)) => {
            let r = parse_name(&d.queue)?;
            let rep = AMQPFrame::Method(ch, AMQPClass::Queue(queue::AMQPMethod::DeleteOk(queue::DeleteOk { message_count: answer(ch as u64, r) as u32 })));
            Some((!d.nowait, r, if d.nowait { None } else { Some(rep) }))
        }
        AMQPClass::Basic(basic::AMQPMethod::Publish(p)) => {
            let r = parse_name(&p.routing_key)?;
            Some((false, r, None))
        }
        _ => None,
    }
}

struct BrokerOut {
    seen: BTreeMap<u16, Vec<(bool, u64)>>,
    bad_stream: bool,
}

/// answer policy: 0 at once, 1 random batches, 2 one reply per episode in random channel order,
/// 3 hold until every running channel waits (or 15 ms), then all heads in random order
fn broker(peer: Peer, policy: u64, seed: u64, running: Arc<AtomicUsize>, stop: Arc<AtomicBool>, kill_after: Option<usize>, close_at: Arc<Mutex<BTreeMap<u16, (usize, bool)>>>) -> BrokerOut {
    let mut rng = Rng::new(seed);
    let mut out = BrokerOut { seen: BTreeMap::new(), bad_stream: false };
    let mut pend: BTreeMap<u16, VecDeque<AMQPFrame>> = BTreeMap::new();
    let mut seen = 0usize;
    let mut header_done = false;
    let mut last_len = 0usize;
    let mut hold_since: Option<Instant> = None;
    let mut program_frames = 0usize;
    let mut syncs_seen: BTreeMap<u16, usize> = BTreeMap::new();
    let mut srv_closed: std::collections::BTreeSet<u16> = Default::default();
    loop {
        if stop.load(Ordering::SeqCst) || peer.dropped() {
            return out;
        }
        peer.wait(|s| s.out.len() > last_len || s.dropped, Duration::from_millis(if pend.values().any(|q| !q.is_empty()) { 1 } else { 10 }));
        let bytes = peer.out();
        last_len = bytes.len();
        if !header_done {
            if bytes.len() >= 8 {
                header_done = true;
                peer.push_frames(&[start_frame("PLAIN", "en_US")]);
            } else {
                continue;
            }
        }
        let frames = match client_frames(&bytes) {
            Some((f, _)) => f,
            None => {
                out.bad_stream = true;
                return out;
            }
        };
        while seen < frames.len() {
            let f = frames[seen].clone();
            seen += 1;
            if let AMQPFrame::Method(ch, m) = &f {
                match m {
                    AMQPClass::Connection(connection::AMQPMethod::StartOk(_)) => peer.push_frames(&[tune_frame(2047, 131072, 0)]),
                    AMQPClass::Connection(connection::AMQPMethod::TuneOk(_)) => {}
                    AMQPClass::Connection(connection::AMQPMethod::Open(_)) => peer.push_frames(&[open_ok_frame()]),
                    AMQPClass::Connection(connection::AMQPMethod::Close(_)) => {
                        peer.push_frames(&[AMQPFrame::Method(0, AMQPClass::Connection(connection::AMQPMethod::CloseOk(connection::CloseOk {})))]);
                    }
                    AMQPClass::Channel(channel::AMQPMethod::Open(_)) => {
                        peer.push_frames(&[AMQPFrame::Method(*ch, AMQPClass::Channel(channel::AMQPMethod::OpenOk(channel::OpenOk { channel_id: "".into() })))]);
                    }
                    AMQPClass::Channel(channel::AMQPMethod::Close(_)) if srv_closed.contains(ch) => {
                        // the server has closed that channel itself: it only waits for the CloseOk
                    }
                    AMQPClass::Channel(channel::AMQPMethod::Close(_)) => {
                        // behind whatever is still owed on that channel
                        pend.entry(*ch).or_default().push_back(AMQPFrame::Method(*ch, AMQPClass::Channel(channel::AMQPMethod::CloseOk(channel::CloseOk {}))));
                    }
                    other => {
                        if let Some((sync, r, rep)) = classify(*ch, other) {
                            program_frames += 1;
                            out.seen.entry(*ch).or_default().push((sync, r));
                            if srv_closed.contains(ch) {
                                // a request on a channel the server has closed is discarded
                            } else if let Some(rep) = rep {
                                let cnt = syncs_seen.entry(*ch).or_default();
                                *cnt += 1;
                                let close = AMQPFrame::Method(*ch, AMQPClass::Channel(channel::AMQPMethod::Close(channel::Close { reply_code: 406, reply_text: "closed by the scenario".into(), class_id: 0, method_id: 0 })));
                                match close_at.lock().unwrap().get(ch).copied() {
                                    Some((k, false)) if k == *cnt => {
                                        pend.entry(*ch).or_default().push_back(close);
                                        srv_closed.insert(*ch);
                                    }
                                    Some((k, true)) if k == *cnt => {
                                        pend.entry(*ch).or_default().push_back(rep);
                                        pend.entry(*ch).or_default().push_back(close);
                                        srv_closed.insert(*ch);
                                    }
                                    _ => pend.entry(*ch).or_default().push_back(rep),
                                }
                            }
                        }
                    }
                }
            }
        }
        // the server goes away: end of stream, nothing more is answered
        if let Some(k) = kill_after {
            if program_frames >= k {
                peer.push_episode(Episode::Eof);
                while !stop.load(Ordering::SeqCst) && !peer.dropped() {
                    std::thread::sleep(Duration::from_millis(2));
                }
                return out;
            }
        }
        // release
        let waiting: Vec<u16> = pend.iter().filter(|(_, q)| !q.is_empty()).map(|(c, _)| *c).collect();
        if waiting.is_empty() {
            hold_since = None;
            continue;
        }
        match policy {
            0 => {
                for c in waiting {
                    let q = pend.get_mut(&c).unwrap();
                    let fs: Vec<AMQPFrame> = q.drain(..).collect();
                    peer.push_frames(&fs);
                }
            }
            1 => {
                // a random subset of the heads, in random order, as one read episode
                let mut w = waiting.clone();
                rng.shuffle(&mut w);
                let k = rng.range(1, w.len() as u64) as usize;
                let fs: Vec<AMQPFrame> = w.iter().take(k).filter_map(|c| pend.get_mut(c).unwrap().pop_front()).collect();
                peer.push_frames(&fs);
            }
            2 => {
                let c = *rng.pick(&waiting);
                let f = pend.get_mut(&c).unwrap().pop_front().unwrap();
                peer.push_frames(&[f]);
            }
            _ => {
                let all_wait = waiting.len() >= running.load(Ordering::SeqCst).max(1);
                let since = *hold_since.get_or_insert_with(Instant::now);
                if all_wait || since.elapsed() > Duration::from_millis(15) {
                    let mut w = waiting.clone();
                    rng.shuffle(&mut w);
                    // the last one that asked is answered first as often as not
                    let fs: Vec<AMQPFrame> = w.iter().filter_map(|c| pend.get_mut(c).unwrap().pop_front()).collect();
                    if rng.boolean() {
                        peer.push_frames(&fs);
                    } else {
                        for f in fs {
                            peer.push_frames(&[f]);
                        }
                    }
                    hold_since = None;
                }
            }
        }
    }
}

fn gen_prog(rng: &mut Rng, len: u64) -> Vec<Call> {
    (0..len).map(|_| Call { sync: rng.chance(2, 3), r: rng.range(0, 999_999) }).collect()
}

/// one scenario; None = could not be set up
pub fn scenario(sub: u64) -> Option<(String, bool)> {
    let mut rng = Rng::new(sub);
    let k = rng.range(1, 5) as usize;
    let policy = rng.below(4);
    let bound = *rng.pick(&[1usize, 1, 2, 16]);
    let progs: Vec<Vec<Call>> = (0..k).map(|_| { let l = rng.range(1, 14); gen_prog(&mut rng, l) }).collect();
    let (stream, peer) = mock_pair();
    let running = Arc::new(AtomicUsize::new(0));
    let stop = Arc::new(AtomicBool::new(false));
    let (p2, r2, s2, bseed) = (peer.clone(), running.clone(), stop.clone(), rng.next());
    // in a quarter of the scenarios the server goes away (end of stream) after a random number of requests
    let total: usize = progs.iter().map(|p| p.len()).sum();
    let kill_after = if rng.chance(1, 4) { Some(rng.range(1, total as u64) as usize) } else { None };
    let close_at: Arc<Mutex<BTreeMap<u16, (usize, bool)>>> = Arc::new(Mutex::new(BTreeMap::new()));
    let ca2 = close_at.clone();
    let bh = std::thread::spawn(move || broker(p2, policy, bseed, r2, s2, kill_after, ca2));
    // the transport takes the client's bytes in small pieces now and then
    if rng.chance(1, 3) {
        let steps: VecDeque<WStep> = (0..rng.range(5, 60)).map(|_| if rng.chance(1, 4) { WStep::Block } else { WStep::Wrote(rng.range(1, 40) as usize) }).collect();
        peer.set_wpolicy(WPolicy::Script(steps));
    }
    let opts = ConnectionOptions::<Auth>::default().heartbeat(0);
    let tuning = ConnectionTuning::default().mem_channel_bound(bound);
    let mut conn = with_deadline(move || Connection::insecure_open_stream(stream, opts, tuning), Duration::from_secs(5))?.ok()?;
    let mut chans = Vec::new();
    for _ in 0..k {
        chans.push(conn.open_channel(None).ok()?);
    }
    // in a third of the scenarios the server closes some of the channels (C09): instead of its
    // answer to the k-th synchronous request of that channel, or right behind that answer
    let mut closes: BTreeMap<u16, (usize, bool)> = BTreeMap::new();
    if rng.chance(1, 3) {
        for (ch, prog) in chans.iter().zip(progs.iter()) {
            let ns = prog.iter().filter(|c| c.sync).count();
            if ns > 0 && rng.chance(1, 2) {
                closes.insert(ch.channel_id(), (rng.range(1, ns as u64) as usize, rng.boolean()));
            }
        }
    }
    *close_at.lock().unwrap() = closes.clone();
    running.store(k, Ordering::SeqCst);
    let results: Arc<Mutex<BTreeMap<u16, (Vec<u64>, bool, u8)>>> = Arc::new(Mutex::new(BTreeMap::new()));
    let mut hs = Vec::new();
    let mut ids = Vec::new();
    for (ch, prog) in chans.into_iter().zip(progs.iter().cloned()) {
        let id = ch.channel_id();
        ids.push(id);
        let res = results.clone();
        let run = running.clone();
        let jitter = rng.range(0, 3);
        hs.push(std::thread::spawn(move || {
            let mut got = Vec::new();
            let mut failed = false;
            // the first error: 0 none, 1 ServerClosedChannel naming this channel with the server's code and text, 2 another
            let mut err_kind = 0u8;
            for (i, c) in prog.iter().enumerate() {
                if jitter > 0 && i as u64 % 3 == jitter - 1 {
                    std::thread::yield_now();
                }
                let name = format!("{}{}", if c.sync { "s" } else { "n" }, c.r);
                let r = if c.sync {
                    match c.r % 3 {
                        0 => ch.queue_declare(name, QueueDeclareOptions::default()).map(|q| { let m = q.declared_message_count().unwrap_or(u32::MAX) as u64; std::mem::forget(q); Some(m) }),
                        1 => ch.queue_purge(name).map(|m| Some(m as u64)),
                        _ => ch.queue_delete(name, QueueDeleteOptions::default()).map(|m| Some(m as u64)),
                    }
                } else {
                    match c.r % 3 {
                        0 => ch.basic_publish("", Publish::new(b"x", name)).map(|_| None),
                        1 => ch.queue_purge_nowait(name).map(|_| None),
                        _ => ch.queue_delete_nowait(name, QueueDeleteOptions::default()).map(|_| None),
                    }
                };
                match r {
                    Ok(Some(v)) => got.push(v),
                    Ok(None) => {}
                    Err(e) => {
                        failed = true;
                        err_kind = match &e {
                            amiquip::Error::ServerClosedChannel { channel_id, code: 406, message } if *channel_id == id && message == "closed by the scenario" => 1,
                            _ => 2,
                        };
                        break;
                    }
                }
            }
            run.fetch_sub(1, Ordering::SeqCst);
            res.lock().unwrap().insert(id, (got, failed, err_kind));
            let _ = ch.close();
        }));
    }
    let deadline = Instant::now() + Duration::from_secs(20);
    let mut hung = false;
    for h in hs {
        while !h.is_finished() && Instant::now() < deadline {
            std::thread::sleep(Duration::from_millis(1));
        }
        if h.is_finished() {
            let _ = h.join();
        } else {
            hung = true;
        }
    }
    let closed = if hung { std::mem::forget(conn); false } else { matches!(with_deadline(move || conn.close(), Duration::from_secs(5)), Some(Ok(()))) };
    stop.store(true, Ordering::SeqCst);
    let bo = bh.join().ok()?;
    let res = results.lock().unwrap();
    let mut chans_coq = Vec::new();
    for (id, prog) in ids.iter().zip(progs.iter()) {
        let (got, failed, err_kind) = res.get(id).cloned().unwrap_or((vec![], true, 2));
        let seen = bo.seen.get(id).cloned().unwrap_or_default();
        chans_coq.push(format!(
            "({}, {}, {}, {}, {}, {}, {})",
            id,
            coqfmt::list(prog, |c| format!("({}, {})", if c.sync { "KSync" } else { "KNowait" }, c.r)),
            coqfmt::list(&got, |x| x.to_string()),
            coqfmt::list(&seen, |(s, r)| format!("({}, {})", if *s { "KSync" } else { "KNowait" }, r)),
            coqfmt::b(failed),
            match closes.get(id) { None => "None".to_string(), Some((k, after)) => format!("(Some ({}, {}))", k, coqfmt::b(*after)) },
            err_kind
        ));
    }
    // a pseudo-random schedule for the model, derived from the same seed
    let sched: Vec<u64> = (0..rng.range(0, 120)).map(|_| rng.below(1000)).collect();
    let term = format!(
        "({}, [{}], {}, {}, {}, {}, {})",
        bound,
        chans_coq.join("; "),
        coqfmt::list(&sched, |x| x.to_string()),
        coqfmt::b(hung),
        coqfmt::b(closed),
        coqfmt::b(bo.bad_stream),
        coqfmt::b(kill_after.is_some())
    );
    Some((term, hung))
}

pub fn run(a: &Args) {
    let mut sink = CaseSink::new("C04", "C04sys", &a.out, 40);
    // the I/O thread is slow between telling a closed channel's consumers and telling its caller
    // (scheduling point 2): a call made in that window must still learn of the server's close
    amiquip::verif::set_sched_delay(2, 3000);
    let mut rng = Rng::new(a.seed ^ 0xC04_5);
    let mut subs: Vec<u64> = Vec::new();
    if let Some(pos) = a.rest.iter().position(|x| x == "--line") {
        let v: Vec<u64> = a.rest[pos + 1].split_whitespace().skip(1).filter_map(|x| x.parse().ok()).collect();
        subs.push(v[0]);
    } else {
        for _ in 0..a.n {
            subs.push(rng.next());
        }
    }
    for chunk in subs.chunks(6) {
        if crate::l2::timeouts() >= crate::l2::ENOUGH_TIMEOUTS {
            sink.count("stopped-early-after-timeouts");
            break;
        }
        let hs: Vec<_> = chunk.iter().map(|&s| std::thread::spawn(move || (s, crate::l2::watchdog(format!("c04sys {}", s), 150, move || scenario(s))))).collect();
        for h in hs {
            match h.join() {
                Ok((s, Some((term, hung)))) => {
                    sink.count("scenario");
                    if hung {
                        sink.count("hung");
                    }
                    if term.contains("(Some (") {
                        sink.count("server-closed-a-channel");
                    }
                    if term.ends_with("true)") {
                        sink.count("server-went-away");
                    }
                    sink.push_line(term, true, format!("c04sys {}", s));
                }
                _ => sink.count("setup_failed"),
            }
        }
    }
    amiquip::verif::set_sched_delay(2, 0);
    sink.finish("");
}
