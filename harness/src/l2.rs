//! L2: the REAL `Connection` (real I/O thread, real `mio::Poll`) over a mock transport
//! built on `mio::Registration`, with a scripted broker at the other end.
//!
//! Reads are organised in *episodes*: everything pushed with one `push` is delivered
//! before the next would-block, and a would-block is reported between episodes, so the
//! read loop of the client sees exactly the segmentation the scenario asks for.
use amq_protocol::frame::AMQPFrame;
use mio::{Evented, Poll, PollOpt, Ready, Registration, SetReadiness, Token};
use std::collections::VecDeque;
use std::io::{self, Read, Write};
use std::sync::{Arc, Condvar, Mutex};
use std::time::{Duration, Instant};

#[derive(Clone, Debug)]
pub enum Episode {
    Data(Vec<u8>),
    /// the data and then, in the same read loop (no would-block in between), the end
    DataEof(Vec<u8>),
    DataReset(Vec<u8>),
    Eof,
    Reset,
}

#[derive(Clone, Debug, PartialEq)]
pub enum WPolicy {
    /// accept everything offered
    All,
    /// accept nothing: would-block
    Stall,
    /// a script of single write results, then `All`
    Script(VecDeque<WStep>),
    /// every write fails
    Fail,
}

#[derive(Clone, Debug, PartialEq)]
pub enum WStep {
    Wrote(usize),
    Block,
    Err,
}

pub struct State {
    inbox: VecDeque<Episode>,
    cur: Option<(Vec<u8>, usize)>,
    /// what follows the current data without a would-block: 1 = EOF, 2 = reset
    cur_then: u8,
    boundary: bool,
    pub out: Vec<u8>,
    pub out_times: Vec<(usize, Instant)>,
    pub wpolicy: WPolicy,
    pub dropped: bool,
    pub reads: u64,
    /// read episodes the client has seen the end of (would-block, EOF or error returned)
    pub episodes_done: u64,
    pub eof_seen: bool,
    /// the I/O thread is parked inside read() until this is false
    pub hold: bool,
    pub held: bool,
}

pub struct Shared {
    pub st: Mutex<State>,
    pub cv: Condvar,
    set: SetReadiness,
}

pub struct MockStream {
    sh: Arc<Shared>,
    reg: Registration,
}

#[derive(Clone)]
pub struct Peer {
    pub sh: Arc<Shared>,
}

pub fn mock_pair() -> (MockStream, Peer) {
    let (reg, set) = Registration::new2();
    let sh = Arc::new(Shared {
        st: Mutex::new(State {
            inbox: VecDeque::new(),
            cur: None,
            cur_then: 0,
            boundary: false,
            out: Vec::new(),
            out_times: Vec::new(),
            wpolicy: WPolicy::All,
            dropped: false,
            reads: 0,
            episodes_done: 0,
            eof_seen: false,
            hold: false,
            held: false,
        }),
        cv: Condvar::new(),
        set,
    });
    // the loop registers for writable first
    sh.set.set_readiness(Ready::writable()).unwrap();
    (MockStream { sh: sh.clone(), reg }, Peer { sh })
}

impl Read for MockStream {
    fn read(&mut self, buf: &mut [u8]) -> io::Result<usize> {
        let mut st = self.sh.st.lock().unwrap();
        st.reads += 1;
        while st.hold {
            st.held = true;
            self.sh.cv.notify_all();
            st = self.sh.cv.wait(st).unwrap();
        }
        st.held = false;
        loop {
            if let Some((data, pos)) = st.cur.take() {
                let n = (data.len() - pos).min(buf.len());
                buf[..n].copy_from_slice(&data[pos..pos + n]);
                if pos + n < data.len() {
                    st.cur = Some((data, pos + n));
                } else if st.cur_then == 0 {
                    st.boundary = true;
                }
                return Ok(n);
            }
            if st.cur_then != 0 {
                let t = st.cur_then;
                st.cur_then = 0;
                st.eof_seen = true;
                st.episodes_done += 1;
                self.sh.cv.notify_all();
                return if t == 1 { Ok(0) } else { Err(io::Error::new(io::ErrorKind::ConnectionReset, "reset")) };
            }
            if st.boundary {
                st.boundary = false;
                st.episodes_done += 1;
                self.sh.cv.notify_all();
                if !st.inbox.is_empty() {
                    // the next episode is already there: make sure we are woken again
                    let _ = self.sh.set.set_readiness(Ready::readable() | Ready::writable());
                }
                return Err(io::Error::new(io::ErrorKind::WouldBlock, "episode boundary"));
            }
            match st.inbox.pop_front() {
                None => return Err(io::Error::new(io::ErrorKind::WouldBlock, "no data")),
                Some(Episode::Data(d)) => {
                    if d.is_empty() {
                        st.boundary = true;
                        continue;
                    }
                    st.cur = Some((d, 0));
                }
                Some(Episode::DataEof(d)) if d.is_empty() => {
                    st.eof_seen = true;
                    st.episodes_done += 1;
                    self.sh.cv.notify_all();
                    return Ok(0);
                }
                Some(Episode::DataReset(d)) if d.is_empty() => {
                    st.eof_seen = true;
                    st.episodes_done += 1;
                    self.sh.cv.notify_all();
                    return Err(io::Error::new(io::ErrorKind::ConnectionReset, "reset"));
                }
                Some(Episode::DataEof(d)) => {
                    st.cur = Some((d, 0));
                    st.cur_then = 1;
                }
                Some(Episode::DataReset(d)) => {
                    st.cur = Some((d, 0));
                    st.cur_then = 2;
                }
                Some(Episode::Eof) => {
                    st.eof_seen = true;
                    st.episodes_done += 1;
                    self.sh.cv.notify_all();
                    return Ok(0);
                }
                Some(Episode::Reset) => {
                    st.eof_seen = true;
                    st.episodes_done += 1;
                    self.sh.cv.notify_all();
                    return Err(io::Error::new(io::ErrorKind::ConnectionReset, "reset"));
                }
            }
        }
    }
}

impl Write for MockStream {
    fn write(&mut self, buf: &[u8]) -> io::Result<usize> {
        let mut st = self.sh.st.lock().unwrap();
        let step = match &mut st.wpolicy {
            WPolicy::All => WStep::Wrote(buf.len()),
            WPolicy::Stall => WStep::Block,
            WPolicy::Fail => WStep::Err,
            WPolicy::Script(q) => match q.pop_front() {
                Some(s) => s,
                None => {
                    st.wpolicy = WPolicy::All;
                    WStep::Wrote(buf.len())
                }
            },
        };
        match step {
            WStep::Wrote(n) => {
                let n = n.min(buf.len()).max(1.min(buf.len()));
                st.out.extend_from_slice(&buf[..n]);
                let l = st.out.len();
                st.out_times.push((l, Instant::now()));
                self.sh.cv.notify_all();
                Ok(n)
            }
            WStep::Block => Err(io::Error::new(io::ErrorKind::WouldBlock, "stalled")),
            WStep::Err => Err(io::Error::new(io::ErrorKind::BrokenPipe, "broken")),
        }
    }
    fn flush(&mut self) -> io::Result<()> {
        Ok(())
    }
}

impl Evented for MockStream {
    fn register(&self, poll: &Poll, token: Token, interest: Ready, opts: PollOpt) -> io::Result<()> {
        self.reg.register(poll, token, interest, opts)
    }
    fn reregister(&self, poll: &Poll, token: Token, interest: Ready, opts: PollOpt) -> io::Result<()> {
        self.reg.reregister(poll, token, interest, opts)
    }
    fn deregister(&self, poll: &Poll) -> io::Result<()> {
        mio::Evented::deregister(&self.reg, poll)
    }
}

impl amiquip::IoStream for MockStream {}

impl Drop for MockStream {
    fn drop(&mut self) {
        let mut st = self.sh.st.lock().unwrap();
        st.dropped = true;
        self.sh.cv.notify_all();
    }
}

impl Peer {
    pub fn wake(&self) {
        let _ = self.sh.set.set_readiness(Ready::readable() | Ready::writable());
    }
    /// one read episode
    pub fn push(&self, data: Vec<u8>) {
        self.sh.st.lock().unwrap().inbox.push_back(Episode::Data(data));
        self.wake();
    }
    pub fn push_frames(&self, frames: &[AMQPFrame]) {
        let mut v = Vec::new();
        for f in frames {
            v.extend_from_slice(&crate::wire::encode(f));
        }
        self.push(v);
    }
    pub fn push_episode(&self, e: Episode) {
        self.sh.st.lock().unwrap().inbox.push_back(e);
        self.wake();
    }
    pub fn set_wpolicy(&self, p: WPolicy) {
        self.sh.st.lock().unwrap().wpolicy = p;
        self.wake();
    }
    pub fn out_len(&self) -> usize {
        self.sh.st.lock().unwrap().out.len()
    }
    pub fn out(&self) -> Vec<u8> {
        self.sh.st.lock().unwrap().out.clone()
    }
    pub fn dropped(&self) -> bool {
        self.sh.st.lock().unwrap().dropped
    }
    /// wait until `pred(state)` holds or the deadline passes
    pub fn wait<F: Fn(&State) -> bool>(&self, pred: F, timeout: Duration) -> bool {
        let deadline = Instant::now() + timeout;
        let mut st = self.sh.st.lock().unwrap();
        loop {
            if pred(&st) {
                return true;
            }
            let now = Instant::now();
            if now >= deadline {
                return false;
            }
            let (g, _) = self.sh.cv.wait_timeout(st, (deadline - now).min(Duration::from_millis(50))).unwrap();
            st = g;
        }
    }
    pub fn wait_out_len(&self, n: usize, timeout: Duration) -> bool {
        self.wait(|s| s.out.len() >= n, timeout)
    }
    /// park the I/O thread inside its next read() call
    pub fn hold(&self) {
        self.sh.st.lock().unwrap().hold = true;
    }
    pub fn wait_held(&self, timeout: Duration) -> bool {
        self.wait(|s| s.held, timeout)
    }
    pub fn release(&self) {
        self.sh.st.lock().unwrap().hold = false;
        self.sh.cv.notify_all();
    }
}

/// complete frames the client has written so far, after the 8-byte protocol header;
/// `None` if the header is wrong or a frame does not parse
pub fn client_frames(out: &[u8]) -> Option<(Vec<AMQPFrame>, usize)> {
    if out.len() < 8 {
        return Some((vec![], 0));
    }
    if &out[..8] != b"AMQP\x00\x00\x09\x01" {
        return None;
    }
    let (raw, rest) = crate::wire::split(&out[8..]);
    let mut v = Vec::new();
    let mut used = 8;
    for r in raw {
        if !r.end_ok {
            return None;
        }
        let bytes = crate::wire::envelope(r.ty, r.ch, &r.payload);
        used += bytes.len();
        match amq_protocol::frame::parse_frame(&bytes) {
            Ok((rem, f)) if rem.is_empty() => v.push(f),
            _ => return None,
        }
    }
    let _ = rest;
    Some((v, used))
}

// ---------------------------------------------------------------------------------
// a reactive broker: answers the client's frames as a compliant server would, unless
// the scenario overrides the answer
// ---------------------------------------------------------------------------------
use amq_protocol::protocol::{basic, channel, confirm, connection, exchange, queue, AMQPClass};
use amq_protocol::types::FieldTable;

pub fn start_frame(mechanisms: &str, locales: &str) -> AMQPFrame {
    let mut props = FieldTable::new();
    props.insert("product".to_string(), amq_protocol::types::AMQPValue::LongString("mock".to_string()));
    AMQPFrame::Method(
        0,
        AMQPClass::Connection(connection::AMQPMethod::Start(connection::Start {
            version_major: 0,
            version_minor: 9,
            server_properties: props,
            mechanisms: mechanisms.to_string(),
            locales: locales.to_string(),
        })),
    )
}
pub fn tune_frame(channel_max: u16, frame_max: u32, heartbeat: u16) -> AMQPFrame {
    AMQPFrame::Method(0, AMQPClass::Connection(connection::AMQPMethod::Tune(connection::Tune { channel_max, frame_max, heartbeat })))
}
pub fn open_ok_frame() -> AMQPFrame {
    AMQPFrame::Method(0, AMQPClass::Connection(connection::AMQPMethod::OpenOk(connection::OpenOk { known_hosts: "".into() })))
}

/// the compliant reply to a client method, if it expects one (counts are derived from a
/// per-broker sequence number so that every reply is distinguishable)
pub fn default_reply(ch: u16, m: &AMQPClass, seq: u32) -> Option<AMQPFrame> {
    let r = match m {
        AMQPClass::Connection(connection::AMQPMethod::Close(_)) => AMQPClass::Connection(connection::AMQPMethod::CloseOk(connection::CloseOk {})),
        AMQPClass::Channel(channel::AMQPMethod::Open(_)) => AMQPClass::Channel(channel::AMQPMethod::OpenOk(channel::OpenOk { channel_id: "".into() })),
        AMQPClass::Channel(channel::AMQPMethod::Close(_)) => AMQPClass::Channel(channel::AMQPMethod::CloseOk(channel::CloseOk {})),
        AMQPClass::Basic(basic::AMQPMethod::Qos(_)) => AMQPClass::Basic(basic::AMQPMethod::QosOk(basic::QosOk {})),
        AMQPClass::Basic(basic::AMQPMethod::Recover(_)) => AMQPClass::Basic(basic::AMQPMethod::RecoverOk(basic::RecoverOk {})),
        AMQPClass::Basic(basic::AMQPMethod::Consume(c)) if !c.nowait => {
            let tag = if c.consumer_tag.is_empty() { format!("gen-{}", seq) } else { c.consumer_tag.clone() };
            AMQPClass::Basic(basic::AMQPMethod::ConsumeOk(basic::ConsumeOk { consumer_tag: tag }))
        }
        AMQPClass::Basic(basic::AMQPMethod::Cancel(c)) if !c.nowait => {
            AMQPClass::Basic(basic::AMQPMethod::CancelOk(basic::CancelOk { consumer_tag: c.consumer_tag.clone() }))
        }
        AMQPClass::Basic(basic::AMQPMethod::Get(_)) => AMQPClass::Basic(basic::AMQPMethod::GetEmpty(basic::GetEmpty { cluster_id: "".into() })),
        AMQPClass::Confirm(confirm::AMQPMethod::Select(s)) if !s.nowait => AMQPClass::Confirm(confirm::AMQPMethod::SelectOk(confirm::SelectOk {})),
        AMQPClass::Exchange(exchange::AMQPMethod::Declare(d)) if !d.nowait => AMQPClass::Exchange(exchange::AMQPMethod::DeclareOk(exchange::DeclareOk {})),
        AMQPClass::Exchange(exchange::AMQPMethod::Delete(d)) if !d.nowait => AMQPClass::Exchange(exchange::AMQPMethod::DeleteOk(exchange::DeleteOk {})),
        AMQPClass::Exchange(exchange::AMQPMethod::Bind(d)) if !d.nowait => AMQPClass::Exchange(exchange::AMQPMethod::BindOk(exchange::BindOk {})),
        AMQPClass::Exchange(exchange::AMQPMethod::Unbind(d)) if !d.nowait => AMQPClass::Exchange(exchange::AMQPMethod::UnbindOk(exchange::UnbindOk {})),
        AMQPClass::Queue(queue::AMQPMethod::Declare(d)) if !d.nowait => AMQPClass::Queue(queue::AMQPMethod::DeclareOk(queue::DeclareOk {
            queue: if d.queue.is_empty() { format!("amq.gen-{}", seq) } else { d.queue.clone() },
            message_count: 1000 + seq,
            consumer_count: 2000 + seq,
        })),
        AMQPClass::Queue(queue::AMQPMethod::Delete(d)) if !d.nowait => AMQPClass::Queue(queue::AMQPMethod::DeleteOk(queue::DeleteOk { message_count: 3000 + seq })),
        AMQPClass::Queue(queue::AMQPMethod::Bind(d)) if !d.nowait => AMQPClass::Queue(queue::AMQPMethod::BindOk(queue::BindOk {})),
        AMQPClass::Queue(queue::AMQPMethod::Purge(d)) if !d.nowait => AMQPClass::Queue(queue::AMQPMethod::PurgeOk(queue::PurgeOk { message_count: 4000 + seq })),
        AMQPClass::Queue(queue::AMQPMethod::Unbind(_)) => AMQPClass::Queue(queue::AMQPMethod::UnbindOk(queue::UnbindOk {})),
        _ => return None,
    };
    Some(AMQPFrame::Method(ch, r))
}

pub struct BrokerCfg {
    pub mechanisms: String,
    pub locales: String,
    pub tune: (u16, u32, u16),
    /// answer client frames automatically after the handshake
    pub auto_reply: bool,
    /// answer Basic.Get with a one-byte message instead of Get-Empty
    pub message_on_get: bool,
    /// push one delivery right after each ConsumeOk
    pub deliver_on_consume: bool,
    /// what a Basic.Cancel is answered with: 0 CancelOk, 1 Connection.Close(320) instead,
    /// 2 Channel.Close(406) of that channel instead
    pub on_cancel: u8,
    /// answer the client's Connection.Close with CloseOk
    pub answer_conn_close: bool,
    /// frames pushed right before the CloseOk that answers a Channel.Close
    pub before_chan_close_ok: Vec<AMQPFrame>,
}

impl Default for BrokerCfg {
    fn default() -> Self {
        BrokerCfg { mechanisms: "PLAIN EXTERNAL".into(), locales: "en_US".into(), tune: (2047, 131072, 0), auto_reply: true, message_on_get: false, deliver_on_consume: false, on_cancel: 0, answer_conn_close: true, before_chan_close_ok: Vec::new() }
    }
}

/// what the broker saw and did
#[derive(Default)]
pub struct BrokerLog {
    pub frames: Vec<AMQPFrame>,
    pub bad_stream: bool,
    pub replies: Vec<(u16, AMQPFrame)>,
}

pub struct Broker {
    pub peer: Peer,
    pub log: Arc<Mutex<BrokerLog>>,
    stop: Arc<Mutex<bool>>,
    thread: Option<std::thread::JoinHandle<()>>,
}

impl Broker {
    /// start a broker thread that performs the handshake and then answers every
    /// synchronous method with its -Ok
    pub fn start(peer: Peer, cfg: BrokerCfg) -> Broker {
        let log = Arc::new(Mutex::new(BrokerLog::default()));
        let stop = Arc::new(Mutex::new(false));
        let (p2, l2, s2) = (peer.clone(), log.clone(), stop.clone());
        let thread = std::thread::spawn(move || {
            let mut seen = 0usize;
            let mut seq = 0u32;
            let mut header_done = false;
            let mut last_len = 0usize;
            loop {
                if *s2.lock().unwrap() {
                    return;
                }
                p2.wait(|s| s.out.len() > last_len || s.dropped, Duration::from_millis(25));
                let out = p2.out();
                last_len = out.len();
                if !header_done {
                    if out.len() >= 8 {
                        header_done = true;
                        p2.push_frames(&[start_frame(&cfg.mechanisms, &cfg.locales)]);
                    } else {
                        if p2.dropped() {
                            return;
                        }
                        continue;
                    }
                }
                let frames = match client_frames(&out) {
                    Some((f, _)) => f,
                    None => {
                        l2.lock().unwrap().bad_stream = true;
                        return;
                    }
                };
                while seen < frames.len() {
                    let f = frames[seen].clone();
                    seen += 1;
                    l2.lock().unwrap().frames.push(f.clone());
                    if let AMQPFrame::Method(ch, m) = &f {
                        let reply = match m {
                            AMQPClass::Connection(connection::AMQPMethod::StartOk(_)) => Some(tune_frame(cfg.tune.0, cfg.tune.1, cfg.tune.2)),
                            AMQPClass::Connection(connection::AMQPMethod::TuneOk(_)) => None,
                            AMQPClass::Connection(connection::AMQPMethod::Open(_)) => Some(open_ok_frame()),
                            AMQPClass::Connection(connection::AMQPMethod::Close(_)) if !cfg.answer_conn_close => None,
                            AMQPClass::Basic(basic::AMQPMethod::Cancel(_)) if cfg.on_cancel == 1 => Some(AMQPFrame::Method(
                                0,
                                AMQPClass::Connection(connection::AMQPMethod::Close(connection::Close { reply_code: 320, reply_text: "bye".into(), class_id: 0, method_id: 0 })),
                            )),
                            AMQPClass::Basic(basic::AMQPMethod::Cancel(_)) if cfg.on_cancel == 2 => Some(AMQPFrame::Method(
                                *ch,
                                AMQPClass::Channel(channel::AMQPMethod::Close(channel::Close { reply_code: 406, reply_text: "gone".into(), class_id: 0, method_id: 0 })),
                            )),
                            other if cfg.auto_reply => {
                                seq += 1;
                                default_reply(*ch, other, seq)
                            }
                            _ => None,
                        };
                        let content = |ch: u16| -> Vec<AMQPFrame> {
                            vec![
                                AMQPFrame::Header(ch, 60, Box::new(amq_protocol::frame::AMQPContentHeader {
                                    class_id: 60, weight: 0, body_size: 1, properties: basic::AMQPProperties::default(),
                                })),
                                AMQPFrame::Body(ch, vec![120]),
                            ]
                        };
                        if let Some(r) = reply {
                            l2.lock().unwrap().replies.push((*ch, r.clone()));
                            let mut out = vec![r.clone()];
                            if let AMQPClass::Channel(channel::AMQPMethod::Close(_)) = m {
                                out = cfg.before_chan_close_ok.clone();
                                out.push(r.clone());
                            }
                            match (&r, m) {
                                (_, AMQPClass::Basic(basic::AMQPMethod::Get(_))) if cfg.message_on_get => {
                                    out = vec![AMQPFrame::Method(*ch, AMQPClass::Basic(basic::AMQPMethod::GetOk(basic::GetOk {
                                        delivery_tag: 500 + seq as u64, redelivered: false, exchange: "".into(), routing_key: "rk".into(), message_count: 0,
                                    })))];
                                    out.extend(content(*ch));
                                }
                                (AMQPFrame::Method(_, AMQPClass::Basic(basic::AMQPMethod::ConsumeOk(ok))), _) if cfg.deliver_on_consume => {
                                    out.push(AMQPFrame::Method(*ch, AMQPClass::Basic(basic::AMQPMethod::Deliver(basic::Deliver {
                                        consumer_tag: ok.consumer_tag.clone(), delivery_tag: 700 + seq as u64, redelivered: false,
                                        exchange: "".into(), routing_key: "rk".into(),
                                    }))));
                                    out.extend(content(*ch));
                                }
                                _ => {}
                            }
                            p2.push_frames(&out);
                        }
                    }
                }
                if p2.dropped() {
                    return;
                }
            }
        });
        Broker { peer, log, stop, thread: Some(thread) }
    }

    pub fn frames(&self) -> Vec<AMQPFrame> {
        self.log.lock().unwrap().frames.clone()
    }

    /// wait until the broker has seen at least n client frames
    pub fn wait_frames(&self, n: usize, timeout: Duration) -> bool {
        let deadline = Instant::now() + timeout;
        while Instant::now() < deadline {
            if self.log.lock().unwrap().frames.len() >= n {
                return true;
            }
            std::thread::sleep(Duration::from_millis(2));
        }
        false
    }

    pub fn stop(mut self) -> BrokerLog {
        *self.stop.lock().unwrap() = true;
        if let Some(t) = self.thread.take() {
            let _ = t.join();
        }
        std::mem::take(&mut *self.log.lock().unwrap())
    }
}

/// run `f` on another thread with a deadline: None = it did not finish (hang)
static TIMEOUTS: std::sync::atomic::AtomicUsize = std::sync::atomic::AtomicUsize::new(0);
/// how many `with_deadline` calls of this process did not finish in time: every one of them is
/// reported (a hang); once there are several the verdict is settled and a driver need not
/// spend its remaining scenarios waiting for more
pub fn timeouts() -> usize {
    TIMEOUTS.load(std::sync::atomic::Ordering::SeqCst)
}
pub const ENOUGH_TIMEOUTS: usize = 4;

pub fn with_deadline<T: Send + 'static, F: FnOnce() -> T + Send + 'static>(f: F, timeout: Duration) -> Option<T> {
    let (tx, rx) = std::sync::mpsc::channel();
    std::thread::spawn(move || {
        let r = f();
        let _ = tx.send(r);
    });
    let r = rx.recv_timeout(timeout).ok();
    if r.is_none() {
        TIMEOUTS.fetch_add(1, std::sync::atomic::Ordering::SeqCst);
    }
    r
}

static HANGS: Mutex<Vec<String>> = Mutex::new(Vec::new());
/// replay lines of the scenarios that did not finish within their time limit
pub fn hangs() -> Vec<String> {
    HANGS.lock().unwrap().clone()
}
/// run one scenario under a watchdog: a scenario that does not finish (some call of the client
/// never returned, with or without a deadline of its own) is recorded as a hang - the driver goes
/// on, and the sink reports it as a direct violation
pub fn watchdog<T: Send + 'static, F: FnOnce() -> Option<T> + Send + 'static>(line: String, secs: u64, f: F) -> Option<T> {
    match with_deadline(f, Duration::from_secs(secs)) {
        Some(r) => r,
        None => {
            HANGS.lock().unwrap().push(line);
            None
        }
    }
}
