//! C17: heartbeats.  L1: the real Heartbeat::fire through the backdate hook and the real
//! start_heartbeats' intervals.  L2: real-time scenarios with h = 1 s over the mock transport.
use crate::coqfmt::{self, CaseSink};
use crate::l2::*;
use crate::rng::Rng;
use crate::wire;
use crate::Args;
use amiquip::verif::{Heartbeat, HeartbeatState};
use amiquip::{Auth, Connection, ConnectionOptions, ConnectionTuning, Error};
use amq_protocol::frame::AMQPFrame;
use std::time::{Duration, Instant};

fn fire_case(sink: &mut CaseSink, interval: u64, elapsed: u64) {
    let mut timer: mio_extras::timer::Timer<u32> = mio_extras::timer::Builder::default().build();
    let mut hb = Heartbeat::start(7u32, Duration::from_millis(interval), &mut timer);
    hb.verif_backdate(Duration::from_millis(elapsed));
    let st = hb.fire(&mut timer);
    let expired = st == HeartbeatState::Expired;
    sink.count(if expired { "fire:expired" } else { "fire:running" });
    sink.push_line(format!("Fire {} {} {}", interval, elapsed, coqfmt::b(expired)), true, format!("fire {} {}", interval, elapsed));
}

thread_local! {
    /// connection_timeout option for the connections this thread opens (it is a limit on the
    /// handshake only: once the connection is up it must play no part)
    static CONN_TIMEOUT_MS: std::cell::Cell<Option<u64>> = std::cell::Cell::new(None);
}

fn open_with(server_hb: u16, client_hb: u16, auto: bool) -> Option<(Connection, Peer, Broker)> {
    let (stream, peer) = mock_pair();
    let broker = Broker::start(peer.clone(), BrokerCfg { tune: (2047, 131072, server_hb), auto_reply: auto, ..Default::default() });
    let opts = ConnectionOptions::<Auth>::default().heartbeat(client_hb).connection_timeout(CONN_TIMEOUT_MS.with(|c| c.get()).map(Duration::from_millis));
    let conn = with_deadline(move || Connection::insecure_open_stream(stream, opts, ConnectionTuning::default()), Duration::from_secs(5))?.ok()?;
    Some((conn, peer, broker))
}

/// gaps (ms) between consecutive writes of an idle client with h = secs, the broker keeping
/// the connection alive with its own heartbeats
fn idle_send(secs: u16, dur_ms: u64) -> Option<Vec<u64>> {
    let (conn, peer, broker) = open_with(secs, 60, true)?;
    let t0 = Instant::now();
    let start_len = { peer.sh.st.lock().unwrap().out_times.len() };
    while t0.elapsed() < Duration::from_millis(dur_ms) {
        std::thread::sleep(Duration::from_millis(400 * secs as u64));
        peer.push_frames(&[AMQPFrame::Heartbeat(0)]);
    }
    let times: Vec<Instant> = { peer.sh.st.lock().unwrap().out_times.iter().map(|x| x.1).collect() };
    let out = peer.out();
    // everything after the handshake must be heartbeat frames
    let frames = client_frames(&out)?.0;
    let hb_frames = frames.iter().filter(|f| matches!(f, AMQPFrame::Heartbeat(_))).count();
    let mut gaps = Vec::new();
    let base = start_len.saturating_sub(1);
    for w in times[base..].windows(2) {
        gaps.push(w[1].duration_since(w[0]).as_millis() as u64);
    }
    let _ = hb_frames;
    std::mem::forget(conn);
    broker.stop();
    Some(gaps)
}

/// ms from the last byte the server sent until the transport is dropped, and the error kind
fn silent(secs: u16) -> Option<(Option<u64>, bool)> {
    let (conn, peer, broker) = open_with(secs, 60, true)?;
    let t0 = Instant::now(); // OpenOk has been read by now (the connection is up)
    let dropped = peer.wait(|s| s.dropped, Duration::from_millis(2000 * secs as u64 + 3000));
    let after = if dropped { Some(t0.elapsed().as_millis() as u64) } else { None };
    let r = with_deadline(move || conn.close(), Duration::from_secs(3));
    let kind_ok = matches!(r, Some(Err(Error::MissedServerHeartbeats)));
    broker.stop();
    Some((after, kind_ok))
}

/// the server goes silent while the client has unsent data queued behind a transport that
/// takes nothing: (ms from the connection being up to the server's last byte, ms until the
/// transport is dropped, error kind)
fn silent_busy(secs: u16) -> Option<(u64, Option<u64>, bool)> {
    let (mut conn, peer, broker) = open_with(secs, 60, true)?;
    let t0 = Instant::now(); // the timers were started a moment ago (at Tune)
    let until = |ms: u64| {
        let d = Duration::from_millis(ms);
        if t0.elapsed() < d {
            std::thread::sleep(d - t0.elapsed());
        }
    };
    until(300);
    let ch = conn.open_channel(None).ok()?; // the client's last write that the transport takes
    peer.set_wpolicy(WPolicy::Stall);
    for _ in 0..2 {
        let _ = ch.ack_all(); // queued, never written: the tx timer will find output pending
    }
    until(450);
    peer.push_frames(&[AMQPFrame::Heartbeat(0)]); // the server's last byte
    let last = t0.elapsed().as_millis() as u64;
    // tx timer: due 1 s after the last write that went out (0.3 s), i.e. 1.3 s and 2.3 s;
    // rx timer: due 2 s after the last byte, i.e. 2.45 s - a later tick of the wheel. The
    // I/O thread is kept busy from 2.2 s to 2.6 s (scheduling point 1, hit when it takes a
    // channel message), so that it finds both due in one pass, the tx entry first.
    until(2200 * secs as u64);
    amiquip::verif::set_sched_delay(1, 400_000);
    let _ = ch.ack_all();
    std::thread::sleep(Duration::from_millis(150));
    amiquip::verif::set_sched_delay(1, 0);
    let dropped = peer.wait(|s| s.dropped, Duration::from_millis(4000 * secs as u64 + 3000));
    let after = if dropped { Some(t0.elapsed().as_millis() as u64) } else { None };
    std::mem::forget(ch);
    let r = with_deadline(move || conn.close(), Duration::from_secs(3));
    let kind_ok = matches!(r, Some(Err(Error::MissedServerHeartbeats)));
    broker.stop();
    Some((last, after, kind_ok))
}

/// the server sends something every `period` ms: whole heartbeat frames, or single bytes of
/// a frame that never completes; returns whether the client gave up
fn live(secs: u16, period: u64, dur_ms: u64, trickle: bool) -> Option<bool> {
    let (conn, peer, broker) = open_with(secs, 60, true)?;
    let t0 = Instant::now();
    let big = wire::envelope(3, 1, &vec![0u8; 200]); // a body frame for a channel; never completed
    let mut i = 0;
    if trickle {
        // the first bytes of the frame, including its size field
        peer.push(big[..8].to_vec());
        i = 8;
    }
    while t0.elapsed() < Duration::from_millis(dur_ms) {
        std::thread::sleep(Duration::from_millis(period));
        if trickle {
            peer.push(vec![big[i]]);
            i += 1;
        } else {
            peer.push_frames(&[AMQPFrame::Heartbeat(0)]);
        }
    }
    let failed = peer.dropped();
    std::mem::forget(conn);
    broker.stop();
    Some(failed)
}

fn zero(dur_ms: u64) -> Option<(u64, u64)> {
    let (conn, peer, broker) = open_with(0, 60, true)?;
    let base = client_frames(&peer.out())?.0.len();
    std::thread::sleep(Duration::from_millis(dur_ms));
    let frames = client_frames(&peer.out())?.0;
    let hbs = frames[base..].iter().filter(|f| matches!(f, AMQPFrame::Heartbeat(_))).count() as u64;
    let fails = if peer.dropped() { 1 } else { 0 };
    std::mem::forget(conn);
    broker.stop();
    Some((hbs, fails))
}

fn within(x: u64, lo: u64, hi: u64) -> bool { x >= lo && x <= hi }

pub fn run(a: &Args) {
    let mut sink = CaseSink::new("C17", "C17", &a.out, 500);
    let mut rng = Rng::new(a.seed ^ 0xC17);
    // ---- L1: fire on a grid and at random, away from the +-2 ms band around the boundary ----
    let intervals = [1u64, 5, 6, 10, 100, 999, 1000, 1001, 2000, 3000, 60_000, 120_000, 131_070_000];
    for &i in &intervals {
        for d in [-2000i64, -500, -100, -20, -9, -8, 3, 4, 10, 100, 1000, 100_000] {
            // elapsed = interval - 5 + d  (expired iff d >= 0); |d| >= 3 keeps clear of clock jitter
            let e = i as i64 - 5 + d;
            if e >= 0 {
                fire_case(&mut sink, i, e as u64);
            }
        }
    }
    for _ in 0..a.n {
        let i = match rng.below(3) { 0 => rng.range(1, 3000), 1 => 1000 * rng.range(1, 600), _ => rng.range(1, 200_000) };
        let mut e = match rng.below(3) { 0 => rng.range(0, 2 * i), 1 => i.saturating_sub(rng.range(0, 12)), _ => rng.range(0, 300_000) };
        let d = e as i64 + 5 - i as i64;
        if d.abs() < 3 {
            e += 6;
        }
        fire_case(&mut sink, i, e);
    }
    for secs in [0u16, 1, 2, 10, 60, 580, 65535] {
        let st = amiquip::verif::heartbeat_intervals_ms(secs);
        sink.count("intervals");
        sink.push_line(format!("Intervals {} {}", secs, coqfmt::opt(&st, |(r, t)| format!("({}, {})", r, t))), true, format!("intervals {}", secs));
    }
    // ---- one pass of process_heartbeat_timers over real timers (ms intervals), the thread
    // having been away for 1.5 h / 2.5 h / 3.4 h with and without output pending; away from
    // the boundaries by far more than the 100 ms tick of the wheel ----
    let mut passes = Vec::new();
    for &h in &[400u64, 600] {
        for &num in &[15u64, 25, 34] {
            for &queued in &[0usize, 40] {
                let away = h * num / 10;
                passes.push(std::thread::spawn(move || (h, queued, away, amiquip::verif::heartbeat_pass(h, queued, away))));
            }
        }
    }
    // ---- L2: real time, h = 1 s, all scenarios at once; a timing miss is retried twice ----
    let mut handles = Vec::new();
    handles.push(std::thread::spawn(|| {
        let mut last = None;
        for _ in 0..3 {
            last = idle_send(1, 3600);
            if let Some(g) = &last {
                if g.len() >= 2 && g.iter().all(|x| within(*x, 300, 1700)) { break; }
            }
        }
        last.map(|g| ("idle".to_string(), format!("IdleSend 1 {}", coqfmt::list(&g, |x| x.to_string()))))
    }));
    handles.push(std::thread::spawn(|| {
        let mut last = None;
        for _ in 0..3 {
            last = silent(1);
            if let Some((Some(t), true)) = last { if within(t, 1950, 3400) { break; } }
        }
        last.map(|(t, k)| ("silent".to_string(), format!("Silent 1 {} {}", coqfmt::opt(&t, |x| x.to_string()), coqfmt::b(k))))
    }));
    handles.push(std::thread::spawn(|| {
        let mut last = None;
        for _ in 0..3 {
            last = silent_busy(1);
            if let Some((l, Some(t), true)) = last {
                let due = l + 2000 - 5;
                if within(t, due.saturating_sub(60), due + 450) { break; }
            }
        }
        last.map(|(l, t, k)| ("silent-busy".to_string(), format!("SilentBusy 1 {} {} {}", l, coqfmt::opt(&t, |x| x.to_string()), coqfmt::b(k))))
    }));
    handles.push(std::thread::spawn(|| {
        let mut last = None;
        for _ in 0..3 { last = live(1, 900, 4600, false); if last == Some(false) { break; } }
        last.map(|f| ("live".to_string(), format!("Live 1 900 4600 {}", coqfmt::b(f))))
    }));
    handles.push(std::thread::spawn(|| {
        let mut last = None;
        for _ in 0..3 { last = live(1, 700, 4300, true); if last == Some(false) { break; } }
        last.map(|f| ("trickle".to_string(), format!("Live 1 700 4300 {}", coqfmt::b(f))))
    }));
    handles.push(std::thread::spawn(|| {
        zero(2600).map(|(h, f)| ("zero".to_string(), format!("Zero 2600 {} {}", h, f)))
    }));
    // the same two with a connection_timeout of 300 ms configured: it limits the handshake, an
    // established connection that is quiet for longer than that is not affected
    handles.push(std::thread::spawn(|| {
        CONN_TIMEOUT_MS.with(|c| c.set(Some(300)));
        zero(2600).map(|(h, f)| ("zero-with-connection-timeout".to_string(), format!("Zero 2600 {} {}", h, f)))
    }));
    handles.push(std::thread::spawn(|| {
        CONN_TIMEOUT_MS.with(|c| c.set(Some(300)));
        let mut last = None;
        for _ in 0..3 { last = live(1, 900, 4600, false); if last == Some(false) { break; } }
        last.map(|f| ("live-with-connection-timeout".to_string(), format!("Live 1 900 4600 {}", coqfmt::b(f))))
    }));
    for p in passes {
        if let Ok((h, queued, _asked, (missed, ok, outlen, away))) = p.join() {
            // judged against how long the thread was really away; a measurement that lands
            // within 130 ms (timer tick + slack) of a boundary decides nothing and is left out
            let near = |x: u64| away + 130 >= x && away <= x + 130;
            if near(h) || near(2 * h) {
                sink.count("pass-too-close-to-a-boundary");
                continue;
            }
            sink.count("pass");
            sink.push_line(
                format!("HbPass {} {} {} {} {} {}", h, queued, away, coqfmt::b(missed), coqfmt::b(ok), outlen),
                true,
                format!("pass {} {} {}", h, queued, away),
            );
        }
    }
    for h in handles {
        match h.join() {
            Ok(Some((name, term))) => {
                sink.count(&format!("l2:{}", name));
                sink.push_line(term, true, format!("l2 {}", name));
            }
            _ => {
                sink.count("l2:setup_failed");
                sink.push_line("Silent 1 None false".into(), true, "l2 setup failed".into());
            }
        }
    }
    sink.finish("");
}
