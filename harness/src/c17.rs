//! C17: heartbeats.  L1: the real Heartbeat::fire through the backdate hook and the real
//! start_heartbeats' intervals.  L2: real-time scenarios with h = 1 s over the mock transport.
use crate::coqfmt::{self, CaseSink};
use crate::l2::*;
use crate::rng::Rng;
use crate::wire;
use crate::Args;
use amiquip::verif::{Heartbeat, HeartbeatState};
use amiquip::{Auth, Connection, ConnectionOptions, ConnectionTuning, Error};
use amq_protocol::frame::AMQPFrame;
use std::time::{Duration, Instant};

fn fire_case(sink: &mut CaseSink, interval: u64, elapsed: u64) {
    let mut timer: mio_extras::timer::Timer<u32> = mio_extras::timer::Builder::default().build();
    let mut hb = Heartbeat::start(7u32, Duration::from_millis(interval), &mut timer);
    hb.verif_backdate(Duration::from_millis(elapsed));
    let st = hb.fire(&mut timer);
    let expired = st == HeartbeatState::Expired;
    sink.count(if expired { "fire:expired" } else { "fire:running" });
    sink.push_line(format!("Fire {} {} {}", interval, elapsed, coqfmt::b(expired)), true, format!("fire {} {}", interval, elapsed));
}

fn open_with(server_hb: u16, client_hb: u16, auto: bool) -> Option<(Connection, Peer, Broker)> {
    let (stream, peer) = mock_pair();
    let broker = Broker::start(peer.clone(), BrokerCfg { tune: (2047, 131072, server_hb), auto_reply: auto, ..Default::default() });
    let opts = ConnectionOptions::<Auth>::default().heartbeat(client_hb);
    let conn = with_deadline(move || Connection::insecure_open_stream(stream, opts, ConnectionTuning::default()), Duration::from_secs(5))?.ok()?;
    Some((conn, peer, broker))
}

/// gaps (ms) between consecutive writes of an idle client with h = secs, the broker keeping
/// the connection alive with its own heartbeats
fn idle_send(secs: u16, dur_ms: u64) -> Option<Vec<u64>> {
    let (conn, peer, broker) = open_with(secs, 60, true)?;
    let t0 = Instant::now();
    let start_len = { peer.sh.st.lock().unwrap().out_times.len() };
    while t0.elapsed() < Duration::from_millis(dur_ms) {
        std::thread::sleep(Duration::from_millis(400 * secs as u64));
        peer.push_frames(&[AMQPFrame::Heartbeat(0)]);
    }
    let times: Vec<Instant> = { peer.sh.st.lock().unwrap().out_times.iter().map(|x| x.1).collect() };
    let out = peer.out();
    // everything after the handshake must be heartbeat frames
    let frames = client_frames(&out)?.0;
    let hb_frames = frames.iter().filter(|f| matches!(f, AMQPFrame::Heartbeat(_))).count();
    let mut gaps = Vec::new();
    let base = start_len.saturating_sub(1);
    for w in times[base..].windows(2) {
        gaps.push(w[1].duration_since(w[0]).as_millis() as u64);
    }
    let _ = hb_frames;
    std::mem::forget(conn);
    broker.stop();
    Some(gaps)
}

/// ms from the last byte the server sent until the transport is dropped, and the error kind
fn silent(secs: u16) -> Option<(Option<u64>, bool)> {
    let (conn, peer, broker) = open_with(secs, 60, true)?;
    let t0 = Instant::now(); // OpenOk has been read by now (the connection is up)
    let dropped = peer.wait(|s| s.dropped, Duration::from_millis(2000 * secs as u64 + 3000));
    let after = if dropped { Some(t0.elapsed().as_millis() as u64) } else { None };
    let r = with_deadline(move || conn.close(), Duration::from_secs(3));
    let kind_ok = matches!(r, Some(Err(Error::MissedServerHeartbeats)));
    broker.stop();
    Some((after, kind_ok))
}

/// the server sends something every `period` ms: whole heartbeat frames, or single bytes of
/// a frame that never completes; returns whether the client gave up
fn live(secs: u16, period: u64, dur_ms: u64, trickle: bool) -> Option<bool> {
    let (conn, peer, broker) = open_with(secs, 60, true)?;
    let t0 = Instant::now();
    let big = wire::envelope(3, 1, &vec![0u8; 200]); // a body frame for a channel; never completed
    let mut i = 0;
    if trickle {
        // the first bytes of the frame, including its size field
        peer.push(big[..8].to_vec());
        i = 8;
    }
    while t0.elapsed() < Duration::from_millis(dur_ms) {
        std::thread::sleep(Duration::from_millis(period));
        if trickle {
            peer.push(vec![big[i]]);
            i += 1;
        } else {
            peer.push_frames(&[AMQPFrame::Heartbeat(0)]);
        }
    }
    let failed = peer.dropped();
    std::mem::forget(conn);
    broker.stop();
    Some(failed)
}

fn zero(dur_ms: u64) -> Option<(u64, u64)> {
    let (conn, peer, broker) = open_with(0, 60, true)?;
    let base = client_frames(&peer.out())?.0.len();
    std::thread::sleep(Duration::from_millis(dur_ms));
    let frames = client_frames(&peer.out())?.0;
    let hbs = frames[base..].iter().filter(|f| matches!(f, AMQPFrame::Heartbeat(_))).count() as u64;
    let fails = if peer.dropped() { 1 } else { 0 };
    std::mem::forget(conn);
    broker.stop();
    Some((hbs, fails))
}

fn within(x: u64, lo: u64, hi: u64) -> bool { x >= lo && x <= hi }

pub fn run(a: &Args) {
    let mut sink = CaseSink::new("C17", "C17", &a.out, 500);
    let mut rng = Rng::new(a.seed ^ 0xC17);
    // ---- L1: fire on a grid and at random, away from the +-2 ms band around the boundary ----
    let intervals = [1u64, 5, 6, 10, 100, 999, 1000, 1001, 2000, 3000, 60_000, 120_000, 131_070_000];
    for &i in &intervals {
        for d in [-2000i64, -500, -100, -20, -9, -8, 3, 4, 10, 100, 1000, 100_000] {
            // elapsed = interval - 5 + d  (expired iff d >= 0); |d| >= 3 keeps clear of clock jitter
            let e = i as i64 - 5 + d;
            if e >= 0 {
                fire_case(&mut sink, i, e as u64);
            }
        }
    }
    for _ in 0..a.n {
        let i = match rng.below(3) { 0 => rng.range(1, 3000), 1 => 1000 * rng.range(1, 600), _ => rng.range(1, 200_000) };
        let mut e = match rng.below(3) { 0 => rng.range(0, 2 * i), 1 => i.saturating_sub(rng.range(0, 12)), _ => rng.range(0, 300_000) };
        let d = e as i64 + 5 - i as i64;
        if d.abs() < 3 {
            e += 6;
        }
        fire_case(&mut sink, i, e);
    }
    for secs in [0u16, 1, 2, 10, 60, 580, 65535] {
        let st = amiquip::verif::heartbeat_intervals_ms(secs);
        sink.count("intervals");
        sink.push_line(format!("Intervals {} {}", secs, coqfmt::opt(&st, |(r, t)| format!("({}, {})", r, t))), true, format!("intervals {}", secs));
    }
    // ---- L2: real time, h = 1 s, all scenarios at once; a timing miss is retried twice ----
    let mut handles = Vec::new();
    handles.push(std::thread::spawn(|| {
        let mut last = None;
        for _ in 0..3 {
            last = idle_send(1, 3600);
            if let Some(g) = &last {
                if g.len() >= 2 && g.iter().all(|x| within(*x, 300, 1700)) { break; }
            }
        }
        last.map(|g| ("idle".to_string(), format!("IdleSend 1 {}", coqfmt::list(&g, |x| x.to_string()))))
    }));
    handles.push(std::thread::spawn(|| {
        let mut last = None;
        for _ in 0..3 {
            last = silent(1);
            if let Some((Some(t), true)) = last { if within(t, 1950, 3400) { break; } }
        }
        last.map(|(t, k)| ("silent".to_string(), format!("Silent 1 {} {}", coqfmt::opt(&t, |x| x.to_string()), coqfmt::b(k))))
    }));
    handles.push(std::thread::spawn(|| {
        let mut last = None;
        for _ in 0..3 { last = live(1, 900, 4600, false); if last == Some(false) { break; } }
        last.map(|f| ("live".to_string(), format!("Live 1 900 4600 {}", coqfmt::b(f))))
    }));
    handles.push(std::thread::spawn(|| {
        let mut last = None;
        for _ in 0..3 { last = live(1, 700, 4300, true); if last == Some(false) { break; } }
        last.map(|f| ("trickle".to_string(), format!("Live 1 700 4300 {}", coqfmt::b(f))))
    }));
    handles.push(std::thread::spawn(|| {
        zero(2600).map(|(h, f)| ("zero".to_string(), format!("Zero 2600 {} {}", h, f)))
    }));
    for h in handles {
        match h.join() {
            Ok(Some((name, term))) => {
                sink.count(&format!("l2:{}", name));
                sink.push_line(term, true, format!("l2 {}", name));
            }
            _ => {
                sink.count("l2:setup_failed");
                sink.push_line("Silent 1 None false".into(), true, "l2 setup failed".into());
            }
        }
    }
    sink.finish("");
}
