//! C13 end to end: listeners obtained through the public API, a long run of notices pushed
//! by the broker before the client reads anything, then the receiver is drained.
use crate::absframe::{props_id, props_of, FR, SM};
use crate::coqfmt::{self, CaseSink};
use crate::l2::*;
use crate::rng::Rng;
use crate::wire;
use crate::Args;
use amiquip::{Auth, Confirm, Connection, ConnectionBlockedNotification, ConnectionOptions, ConnectionTuning};
use std::time::{Duration, Instant};

fn texts(rng: &mut Rng) -> String {
    rng.pick(&["", "x", "no route", "amq.direct", "a-longer-routing-key.with.dots", "é€"]).to_string()
}

pub fn scenario(sub: u64) -> Option<(String, u64, usize)> {
    let mut rng = Rng::new(sub);
    let kind = rng.below(3);
    let n = *rng.pick(&[1usize, 7, 300, 1500, 4097, 4300]);
    let (stream, peer) = mock_pair();
    let broker = Broker::start(peer.clone(), BrokerCfg::default());
    let mut conn = with_deadline(
        move || Connection::insecure_open_stream(stream, ConnectionOptions::<Auth>::default(), ConnectionTuning::default()),
        Duration::from_secs(5),
    )?
    .ok()?;
    let ch = conn.open_channel(None).ok()?;
    let id = ch.channel_id();
    // the frames the broker will push
    let mut frames: Vec<FR> = Vec::new();
    for i in 0..n {
        match kind {
            0 => {
                let tag = if rng.chance(1, 20) { rng.next() } else { i as u64 + 1 };
                let m = rng.chance(1, 5);
                frames.push(FR::Method(id, if rng.chance(1, 4) { SM::Nack(tag, m) } else { SM::Ack(tag, m) }));
            }
            1 => {
                // long runs are about the count: tiny messages keep the case file small
                let small = n > 300;
                let len = if small { *rng.pick(&[0usize, 1, 2]) } else { *rng.pick(&[0usize, 1, 10, 300]) };
                let body: Vec<u8> = (0..len).map(|j| (i + j) as u8).collect();
                let mut t = |rng: &mut Rng| if small { rng.pick(&["", "x"]).to_string() } else { texts(rng) };
                frames.push(FR::Method(id, SM::Return { code: *rng.pick(&[312u16, 313]), text: t(&mut rng), exch: t(&mut rng), rk: t(&mut rng) }));
                frames.push(FR::Header(id, len as u64, rng.below(4) as u8));
                if len > 0 {
                    let cut = rng.range(0, len as u64) as usize;
                    if cut > 0 && cut < len {
                        frames.push(FR::Body(id, body[..cut].to_vec()));
                        frames.push(FR::Body(id, body[cut..].to_vec()));
                    } else {
                        frames.push(FR::Body(id, body));
                    }
                }
            }
            _ => {
                frames.push(FR::Method(0, if rng.chance(1, 2) { SM::Blocked(texts(&mut rng)) } else { SM::Unblocked }));
            }
        }
    }
    // the listener, through the public API; a synchronous call afterwards makes sure the
    // I/O thread has it before the first notice arrives
    enum Rx {
        C(crossbeam_channel::Receiver<Confirm>),
        R(crossbeam_channel::Receiver<amiquip::Return>),
        B(crossbeam_channel::Receiver<ConnectionBlockedNotification>),
    }
    let rx = match kind {
        0 => {
            let r = ch.listen_for_publisher_confirms().ok()?;
            ch.enable_publisher_confirms().ok()?;
            Rx::C(r)
        }
        1 => {
            let r = ch.listen_for_returns().ok()?;
            ch.qos(0, 1, false).ok()?;
            Rx::R(r)
        }
        _ => {
            let r = conn.listen_for_connection_blocked().ok()?;
            let c2 = conn.open_channel(None).ok()?;
            std::mem::forget(c2);
            std::thread::sleep(Duration::from_millis(30));
            Rx::B(r)
        }
    };
    let len_of = |rx: &Rx| match rx {
        Rx::C(r) => r.len(),
        Rx::R(r) => r.len(),
        Rx::B(r) => r.len(),
    };
    // pushed in read episodes of up to 700 frames; nobody reads the receiver meanwhile
    for chunk in frames.chunks(700) {
        let mut bytes = Vec::new();
        for f in chunk {
            bytes.extend_from_slice(&wire::encode(&f.to_amqp()));
        }
        peer.push(bytes);
    }
    let t0 = Instant::now();
    let mut last = (len_of(&rx), Instant::now());
    while t0.elapsed() < Duration::from_secs(20) {
        std::thread::sleep(Duration::from_millis(5));
        let l = len_of(&rx);
        if l != last.0 {
            last = (l, Instant::now());
        } else if l >= n || last.1.elapsed() > Duration::from_millis(400) {
            break;
        }
    }
    // still alive? a synchronous call must work
    let fine = ch.qos(0, 2, false).is_ok();
    let got: Vec<String> = match &rx {
        Rx::C(r) => r
            .try_iter()
            .map(|c| match c {
                Confirm::Ack(p) => format!("(IConfirm true {} {})", p.delivery_tag, coqfmt::b(p.multiple)),
                Confirm::Nack(p) => format!("(IConfirm false {} {})", p.delivery_tag, coqfmt::b(p.multiple)),
            })
            .collect(),
        Rx::R(r) => r
            .try_iter()
            .map(|x| {
                format!(
                    "(IReturn {} {} {} {} {} {})",
                    x.reply_code,
                    coqfmt::string(&x.reply_text),
                    coqfmt::string(&x.exchange),
                    coqfmt::string(&x.routing_key),
                    crate::absframe::wrap(coqfmt::bytes_rle(&x.content)),
                    props_id(&x.properties)
                )
            })
            .collect(),
        Rx::B(r) => r
            .try_iter()
            .map(|x| match x {
                ConnectionBlockedNotification::Blocked(s) => format!("(IBlocked {})", coqfmt::string(&s)),
                ConnectionBlockedNotification::Unblocked => "IUnblocked".to_string(),
            })
            .collect(),
    };
    let _ = props_of;
    let term = format!(
        "({}, {}, {}, {})",
        kind,
        // the rendering of a frame matters only on the exception path, which is not taken here
        coqfmt::list(&frames, |f| { let t = f.to_coq(); format!("{}, [])", &t[..t.rfind(", [").unwrap_or(t.len() - 1)]) }),
        coqfmt::list(&got, |g| g.clone()),
        coqfmt::b(fine)
    );
    std::mem::forget(ch);
    std::mem::forget(conn);
    let _ = broker.stop();
    Some((term, kind, n))
}

pub fn run(a: &Args) {
    let mut sink = CaseSink::new("C13", "C13l2", &a.out, 2);
    let mut rng = Rng::new(a.seed ^ 0xC13_2);
    let subs: Vec<u64> = if let Some(pos) = a.rest.iter().position(|x| x == "--line") {
        vec![a.rest[pos + 1].split_whitespace().last().unwrap().parse().unwrap()]
    } else {
        (0..a.n).map(|_| rng.next()).collect()
    };
    for chunk in subs.chunks(4) {
        let hs: Vec<_> = chunk.iter().map(|&s| std::thread::spawn(move || (s, scenario(s)))).collect();
        for h in hs {
            match h.join() {
                Ok((s, Some((term, kind, n)))) => {
                    sink.count(["confirms", "returns", "blocked"][kind as usize]);
                    sink.count(if n > 4096 { "more-than-4096-unread" } else if n >= 300 { "300..4096-unread" } else { "few" });
                    sink.push_line(term, n > 1, format!("l2 {}", s));
                }
                _ => sink.count("setup_failed"),
            }
        }
    }
    sink.finish("");
}
