//! C13 end to end: listeners obtained through the public API, a long run of notices pushed
//! by the broker before the client reads anything, then the receiver is drained.
use crate::absframe::{props_id, props_of, FR, SM};
use crate::coqfmt::{self, CaseSink};
use crate::l2::*;
use crate::rng::Rng;
use crate::wire;
use crate::Args;
use amiquip::{Auth, Confirm, Connection, ConnectionBlockedNotification, ConnectionOptions, ConnectionTuning};
use std::time::{Duration, Instant};

fn texts(rng: &mut Rng) -> String {
    rng.pick(&["", "x", "no route", "amq.direct", "a-longer-routing-key.with.dots", "é€"]).to_string()
}

pub fn scenario(sub: u64) -> Option<(String, u64, usize)> {
    let mut rng = Rng::new(sub);
    // subs 1..=8 are fixed points of the space: every kind, the long backlogs included
    let forced: Option<(u64, usize)> = match sub {
        1 => Some((0, 4300)),
        2 => Some((1, 4097)),
        3 => Some((2, 4300)),
        4 => Some((3, 5)),
        5 => Some((4, 4)),
        6 => Some((1, 1500)),
        7 => Some((0, 300)),
        8 => Some((3, 7)),
        _ => None,
    };
    // 0 confirms / 1 returns / 2 blocked notices piling up unread; 3 confirms / 4 returns that
    // the server sends between the client's Channel.Close and its own CloseOk
    let kind = rng.below(5);
    let window0 = kind >= 3;
    let n = if window0 { rng.range(1, 7) as usize } else { *rng.pick(&[1usize, 7, 300, 1500, 4097, 4300]) };
    let (kind, n) = forced.unwrap_or((kind, n));
    let window = kind >= 3;
    // the channel will be the first one opened on the connection
    let id: u16 = 1;
    // the frames the broker will push
    let mut frames: Vec<FR> = Vec::new();
    for i in 0..n {
        match kind {
            0 | 3 => {
                let tag = if rng.chance(1, 20) { rng.next() } else { i as u64 + 1 };
                let m = rng.chance(1, 5);
                frames.push(FR::Method(id, if rng.chance(1, 4) { SM::Nack(tag, m) } else { SM::Ack(tag, m) }));
            }
            1 | 4 => {
                // long runs are about the count: tiny messages keep the case file small
                let small = n > 300;
                let len = if small { *rng.pick(&[0usize, 1, 2]) } else { *rng.pick(&[0usize, 1, 10, 300]) };
                let body: Vec<u8> = (0..len).map(|j| (i + j) as u8).collect();
                let mut t = |rng: &mut Rng| if small { rng.pick(&["", "x"]).to_string() } else { texts(rng) };
                frames.push(FR::Method(id, SM::Return { code: *rng.pick(&[312u16, 313]), text: t(&mut rng), exch: t(&mut rng), rk: t(&mut rng) }));
                frames.push(FR::Header(id, len as u64, rng.below(4) as u8));
                if len > 0 {
                    let cut = rng.range(0, len as u64) as usize;
                    if cut > 0 && cut < len {
                        frames.push(FR::Body(id, body[..cut].to_vec()));
                        frames.push(FR::Body(id, body[cut..].to_vec()));
                    } else {
                        frames.push(FR::Body(id, body));
                    }
                }
            }
            _ => {
                frames.push(FR::Method(0, if rng.chance(1, 2) { SM::Blocked(texts(&mut rng)) } else { SM::Unblocked }));
            }
        }
    }
    let (stream, peer) = mock_pair();
    let cfg = BrokerCfg { before_chan_close_ok: if window { frames.iter().map(|f| f.to_amqp()).collect() } else { Vec::new() }, ..BrokerCfg::default() };
    let broker = Broker::start(peer.clone(), cfg);
    let mut conn = with_deadline(
        move || Connection::insecure_open_stream(stream, ConnectionOptions::<Auth>::default(), ConnectionTuning::default()),
        Duration::from_secs(5),
    )?
    .ok()?;
    let ch = conn.open_channel(None).ok()?;
    if ch.channel_id() != id {
        return None;
    }
    // the listener, through the public API; a synchronous call afterwards makes sure the
    // I/O thread has it before the first notice arrives
    enum Rx {
        C(crossbeam_channel::Receiver<Confirm>),
        R(crossbeam_channel::Receiver<amiquip::Return>),
        B(crossbeam_channel::Receiver<ConnectionBlockedNotification>),
    }
    let rx = match kind {
        0 | 3 => {
            let r = ch.listen_for_publisher_confirms().ok()?;
            ch.enable_publisher_confirms().ok()?;
            Rx::C(r)
        }
        1 | 4 => {
            let r = ch.listen_for_returns().ok()?;
            ch.qos(0, 1, false).ok()?;
            Rx::R(r)
        }
        _ => {
            let r = conn.listen_for_connection_blocked().ok()?;
            let c2 = conn.open_channel(None).ok()?;
            std::mem::forget(c2);
            std::thread::sleep(Duration::from_millis(30));
            Rx::B(r)
        }
    };
    let len_of = |rx: &Rx| match rx {
        Rx::C(r) => r.len(),
        Rx::R(r) => r.len(),
        Rx::B(r) => r.len(),
    };
    let mut ch_opt = Some(ch);
    if window {
        // the client closes the channel; the server sends the notices, then its CloseOk
        let c = ch_opt.take().unwrap();
        let _ = with_deadline(move || c.close(), Duration::from_secs(5));
    } else {
        // pushed in read episodes of up to 700 frames; nobody reads the receiver meanwhile
        for chunk in frames.chunks(700) {
            let mut bytes = Vec::new();
            for f in chunk {
                bytes.extend_from_slice(&wire::encode(&f.to_amqp()));
            }
            peer.push(bytes);
        }
    }
    let t0 = Instant::now();
    let mut last = (len_of(&rx), Instant::now());
    while t0.elapsed() < Duration::from_secs(20) {
        std::thread::sleep(Duration::from_millis(5));
        let l = len_of(&rx);
        if l != last.0 {
            last = (l, Instant::now());
        } else if l >= n || last.1.elapsed() > Duration::from_millis(3000) {
            break;
        }
    }
    // still alive? a synchronous call must work
    let fine = match &ch_opt {
        Some(ch) => ch.qos(0, 2, false).is_ok(),
        None => conn.open_channel(None).map(|c| std::mem::forget(c)).is_ok(),
    };
    let got: Vec<String> = match &rx {
        Rx::C(r) => r
            .try_iter()
            .map(|c| match c {
                Confirm::Ack(p) => format!("(IConfirm true {} {})", p.delivery_tag, coqfmt::b(p.multiple)),
                Confirm::Nack(p) => format!("(IConfirm false {} {})", p.delivery_tag, coqfmt::b(p.multiple)),
            })
            .collect(),
        Rx::R(r) => r
            .try_iter()
            .map(|x| {
                format!(
                    "(IReturn {} {} {} {} {} {})",
                    x.reply_code,
                    coqfmt::string(&x.reply_text),
                    coqfmt::string(&x.exchange),
                    coqfmt::string(&x.routing_key),
                    crate::absframe::wrap(coqfmt::bytes_rle(&x.content)),
                    props_id(&x.properties)
                )
            })
            .collect(),
        Rx::B(r) => r
            .try_iter()
            .map(|x| match x {
                ConnectionBlockedNotification::Blocked(s) => format!("(IBlocked {})", coqfmt::string(&s)),
                ConnectionBlockedNotification::Unblocked => "IUnblocked".to_string(),
            })
            .collect(),
    };
    let _ = props_of;
    let term = format!(
        "({}, {}, {}, {})",
        kind,
        // the rendering of a frame matters only on the exception path, which is not taken here
        coqfmt::list(&frames, |f| { let t = f.to_coq(); format!("{}, [])", &t[..t.rfind(", [").unwrap_or(t.len() - 1)]) }),
        coqfmt::list(&got, |g| g.clone()),
        coqfmt::b(fine)
    );
    if let Some(ch) = ch_opt {
        std::mem::forget(ch);
    }
    std::mem::forget(conn);
    let _ = broker.stop();
    Some((term, kind, n))
}

pub fn run(a: &Args) {
    let mut sink = CaseSink::new("C13", "C13l2", &a.out, 2);
    let mut rng = Rng::new(a.seed ^ 0xC13_2);
    let subs: Vec<u64> = if let Some(pos) = a.rest.iter().position(|x| x == "--line") {
        vec![a.rest[pos + 1].split_whitespace().last().unwrap().parse().unwrap()]
    } else {
        (1..=8u64).chain((0..a.n.saturating_sub(8)).map(|_| rng.next())).collect()
    };
    for chunk in subs.chunks(4) {
        if crate::l2::timeouts() >= crate::l2::ENOUGH_TIMEOUTS {
            sink.count("stopped-early-after-timeouts");
            break;
        }
        let hs: Vec<_> = chunk.iter().map(|&s| std::thread::spawn(move || (s, crate::l2::watchdog(format!("l2 {}", s), 150, move || scenario(s))))).collect();
        for h in hs {
            match h.join() {
                Ok((s, Some((term, kind, n)))) => {
                    sink.count(["confirms", "returns", "blocked", "confirms-in-close-window", "returns-in-close-window"][kind as usize]);
                    sink.count(if n > 4096 { "more-than-4096-unread" } else if n >= 300 { "300..4096-unread" } else { "few" });
                    sink.push_line(term, n > 1, format!("l2 {}", s));
                }
                _ => sink.count("setup_failed"),
            }
        }
    }
    sink.finish("");
}
