//! C05 (and C04) end to end: a real connection with 1-3 caller threads, each issuing
//! synchronous calls on its own channel (and checking that every reply is the reply to its own
//! call), and a consumer; at a random moment the connection dies in one of seven ways.  Every
//! caller must get an error in bounded time, the consumer's queue must end, close() must name
//! the root cause and the transport must be released.
use crate::coqfmt::{self, CaseSink};
use crate::l2::*;
use crate::rng::Rng;
use crate::Args;
use amiquip::{Auth, Connection, ConnectionOptions, ConnectionTuning, ConsumerMessage, ConsumerOptions, Error, QueueDeclareOptions};
use amq_protocol::frame::AMQPFrame;
use amq_protocol::protocol::{connection, AMQPClass};
use std::sync::atomic::{AtomicBool, AtomicU64, Ordering};
use std::sync::Arc;
use std::time::{Duration, Instant};

/// 0 Ok, 1 UnexpectedSocketClose, 2 IoErrorReadingSocket, 3 MalformedFrame, 4 IoErrorWritingSocket,
/// 5 ServerClosedConnection(the server's code), 6 MissedServerHeartbeats, 7 ClientException, 8 other, 9 hang
fn close_code(r: &Option<amiquip::Result<()>>, srv_code: u16) -> u64 {
    match r {
        None => 9,
        Some(Ok(())) => 0,
        Some(Err(Error::UnexpectedSocketClose)) => 1,
        Some(Err(Error::IoErrorReadingSocket { .. })) => 2,
        Some(Err(Error::MalformedFrame)) => 3,
        Some(Err(Error::IoErrorWritingSocket { .. })) => 4,
        Some(Err(Error::ServerClosedConnection { code, .. })) if *code == srv_code => 5,
        Some(Err(Error::MissedServerHeartbeats)) => 6,
        Some(Err(Error::ClientException)) => 7,
        Some(Err(_)) => 8,
    }
}

pub fn scenario(sub: u64) -> Option<(String, u64)> {
    let mut rng = Rng::new(sub);
    // 0 the client itself closes the connection while the callers are busy,
    // 1 EOF, 2 reset, 3 malformed data, 4 write error, 5 server close, 6 silence (h = 1 s),
    // 7 a frame the client must answer with a client exception
    // 8: a publisher is parked on a full mailbox behind a stalled, throttled transport when
    //    the server closes the connection (reported as fault 5 with the parked flag)
    let pick = rng.range(0, 8);
    let parked = pick == 8;
    let fault = if parked { 5 } else { pick };
    // close() is already in flight (its Connection.Close is out, the server does not answer)
    // when the failure lands
    let close_first = !parked && [1u64, 2, 3, 5].contains(&fault) && rng.chance(1, 3);
    // the code the server closes with: usually CONNECTION_FORCED, but any code is the server's to choose -
    // 200 (reply-success) and 0 included
    let srv_code: u16 = *rng.pick(&[320u16, 320, 200, 541, 0]);
    let nthreads = rng.range(1, 3) as usize;
    let delay_ms = rng.range(3, 60);
    // the connection is given up with drop instead of close in a quarter of the scenarios
    let use_drop = fault != 0 && !close_first && rng.chance(1, 4);
    let (stream, peer) = mock_pair();
    let broker = Broker::start(peer.clone(), BrokerCfg { tune: (2047, 131072, if fault == 6 { 1 } else { 0 }), answer_conn_close: !close_first, ..BrokerCfg::default() });
    let opts = ConnectionOptions::<Auth>::default().heartbeat(if fault == 6 { 1 } else { 0 });
    let tuning = if parked {
        ConnectionTuning::default().mem_channel_bound(1).buffered_writes_high_water(1024).buffered_writes_low_water(0)
    } else {
        ConnectionTuning::default()
    };
    let mut conn = with_deadline(move || Connection::insecure_open_stream(stream, opts, tuning), Duration::from_secs(5))?.ok()?;
    let _ = &mut conn;
    let cons_ch = conn.open_channel(None).ok()?;
    let consumer_rx = {
        let c = cons_ch.basic_consume("q", ConsumerOptions::default()).ok()?;
        let rx = c.receiver().clone();
        std::mem::forget(c);
        rx
    };
    let fault_at = Arc::new(AtomicU64::new(0)); // ms since t0 when the fault was injected
    let t0 = Instant::now();
    let misrouted = Arc::new(AtomicBool::new(false));
    let mut handles = Vec::new();
    for k in 0..nthreads {
        let ch = conn.open_channel(None).ok()?;
        let fa = fault_at.clone();
        let mis = misrouted.clone();
        handles.push(std::thread::spawn(move || -> (u64, bool, u64, u16, Vec<String>) {
            // (calls that succeeded, ended with an error, ms from the fault to that error,
            //  channel, the queue names the calls returned)
            let id = ch.channel_id();
            let mut ok = 0u64;
            let mut names = Vec::new();
            loop {
                // every other declare lets the server pick the name
                let name = if ok % 2 == 1 { String::new() } else { format!("q-{}-{}", k, ok) };
                match ch.queue_declare(name.clone(), QueueDeclareOptions::default()) {
                    Ok(q) => {
                        // C04: the reply to this very call (checked against the broker's log below)
                        if !name.is_empty() && q.name() != name {
                            mis.store(true, Ordering::SeqCst);
                        }
                        names.push(format!("{}/{:?}/{:?}", q.name(), q.declared_message_count(), q.declared_consumer_count()));
                        std::mem::forget(q);
                        ok += 1;
                        if ok > 200_000 {
                            std::mem::forget(ch);
                            return (ok, false, 0, id, names);
                        }
                    }
                    Err(_) => {
                        let now = t0.elapsed().as_millis() as u64;
                        let f = fa.load(Ordering::SeqCst);
                        std::mem::forget(ch);
                        return (ok, true, if f == 0 { 0 } else { now.saturating_sub(f) }, id, names);
                    }
                }
            }
        }));
    }
    std::thread::sleep(Duration::from_millis(delay_ms));
    let mut broker_opt = Some(broker);
    let mut conn_opt = Some(conn);
    let mut stopped_log: Option<Vec<(u16, AMQPFrame)>> = None;
    // the parked publisher: the transport takes nothing, the buffer goes over its mark, the
    // 1-slot mailbox fills, the next publish blocks
    let mut parked_handle = None;
    if parked {
        let ch = conn_opt.as_mut().unwrap().open_channel(None).ok()?;
        peer.set_wpolicy(WPolicy::Stall);
        let progress = Arc::new(AtomicU64::new(0));
        let p2 = progress.clone();
        parked_handle = Some(std::thread::spawn(move || -> u64 {
            let body = vec![7u8; 300];
            loop {
                match ch.basic_publish("x", amiquip::Publish::new(&body, "rk")) {
                    Ok(()) => {
                        p2.fetch_add(1, Ordering::SeqCst);
                    }
                    Err(e) => {
                        std::mem::forget(ch);
                        return match e {
                            Error::ServerClosedConnection { code, .. } if code == srv_code => 5,
                            Error::EventLoopDropped => 2,
                            _ => 8,
                        };
                    }
                }
            }
        }));
        // wait until it stands still
        let mut last = (progress.load(Ordering::SeqCst), Instant::now());
        let tw = Instant::now();
        while tw.elapsed() < Duration::from_secs(5) {
            std::thread::sleep(Duration::from_millis(20));
            let p = progress.load(Ordering::SeqCst);
            if p != last.0 {
                last = (p, Instant::now());
            } else if p > 0 && last.1.elapsed() > Duration::from_millis(300) {
                break;
            }
        }
    }
    // close() first, where the scenario says so: wait until its Connection.Close is out
    let mut early_close = None;
    if close_first {
        let c = conn_opt.take().unwrap();
        let h = std::thread::spawn(move || c.close());
        let tw = Instant::now();
        while tw.elapsed() < Duration::from_secs(3) {
            if let Some((frames, _)) = client_frames(&peer.out()) {
                if frames.iter().any(|f| matches!(f, AMQPFrame::Method(0, AMQPClass::Connection(connection::AMQPMethod::Close(_))))) {
                    break;
                }
            }
            std::thread::sleep(Duration::from_millis(2));
        }
        early_close = Some(h);
    }
    fault_at.store(t0.elapsed().as_millis().max(1) as u64, Ordering::SeqCst);
    let mut client_close = None;
    match fault {
        0 => {
            let c = conn_opt.take().unwrap();
            client_close = Some(with_deadline(move || c.close(), Duration::from_secs(5)));
        }
        1 => peer.push_episode(Episode::Eof),
        2 => peer.push_episode(Episode::Reset),
        3 => peer.push(vec![9, 0, 1, 0, 0, 0, 1, 7, 0xCE]),
        4 => peer.set_wpolicy(WPolicy::Fail),
        5 => {
            // a server that closes sends nothing after its Close: the broker thread ends first
            if let Some(b) = broker_opt.take() {
                stopped_log = Some(b.stop().replies);
            }
            peer.push_frames(&[AMQPFrame::Method(
            0,
            AMQPClass::Connection(connection::AMQPMethod::Close(connection::Close { reply_code: srv_code, reply_text: "forced".into(), class_id: 0, method_id: 0 })),
            )]);
            if parked {
                peer.set_wpolicy(WPolicy::All);
            }
        }
        6 => {
            // the server falls silent: nobody answers any more
            if let Some(b) = broker_opt.take() {
                stopped_log = Some(b.stop().replies);
            }
        }
        _ => peer.push_frames(&[AMQPFrame::Method(
            1,
            AMQPClass::Connection(connection::AMQPMethod::Blocked(connection::Blocked { reason: "on a channel".into() })),
        )]),
    }
    // every caller must come back
    let bound = Duration::from_millis(if fault == 6 { 6000 } else { 3500 });
    let joined = with_deadline(
        move || {
            let v = handles.into_iter().map(|h| h.join().unwrap_or((0, false, 0, 0, Vec::new()))).collect::<Vec<_>>();
            let p = parked_handle.map(|h| h.join().unwrap_or(9));
            (v, p)
        },
        bound + Duration::from_secs(2),
    );
    let hang = joined.is_none();
    let (threads, parked_code) = joined.unwrap_or_default();
    // 0: no parked publisher in this scenario; else what released it (5 = the server's close)
    let parked_code = if parked { parked_code.unwrap_or(9) } else { 0 };
    // the consumer's queue ends
    let mut last_terminal = 0u64;
    let mut disconnected = false;
    let tc = Instant::now();
    while tc.elapsed() < Duration::from_secs(3) {
        match consumer_rx.recv_timeout(Duration::from_millis(200)) {
            Ok(ConsumerMessage::ServerClosedConnection(_)) => last_terminal = 6,
            Ok(ConsumerMessage::ClientClosedConnection) => last_terminal = 5,
            Ok(ConsumerMessage::Delivery(_)) => {}
            Ok(_) => last_terminal = 1,
            Err(crossbeam_channel::RecvTimeoutError::Disconnected) => {
                disconnected = true;
                break;
            }
            Err(crossbeam_channel::RecvTimeoutError::Timeout) => {}
        }
    }
    std::mem::forget(cons_ch);
    let closed = match (client_close.or_else(|| early_close.map(|h| with_deadline(move || h.join().unwrap_or(Err(Error::FrameUnexpected)), Duration::from_secs(5)))), conn_opt.take()) {
        (Some(r), _) => r,
        (None, Some(conn)) if use_drop => with_deadline(move || drop(conn), Duration::from_secs(5)).map(|_| Err(Error::FrameUnexpected)),
        (None, Some(conn)) => with_deadline(move || conn.close(), Duration::from_secs(5)),
        (None, None) => None,
    };
    // 99: drop returned (it has no result); 9: it did not
    let code = if use_drop && closed.is_some() { 99 } else { close_code(&closed, srv_code) };
    // C08: the client's Connection.Close is the last frame it ever sent
    if fault == 0 && std::env::var("VH_DEBUG").is_ok() {
        match client_frames(&peer.out()) {
            Some((frames, left)) => eprintln!("fault 0: leftover {} last frames {:?}", left, &frames[frames.len().saturating_sub(3)..]),
            None => eprintln!("fault 0: wire does not parse"),
        }
    }
    let wire_ok = if fault == 0 {
        let out = peer.out();
        match client_frames(&out) {
            Some((frames, used)) => used == out.len() && matches!(frames.last(), Some(AMQPFrame::Method(0, AMQPClass::Connection(connection::AMQPMethod::Close(_))))),
            None => false,
        }
    } else {
        true
    };
    if std::env::var("VH_DEBUG").is_ok() {
        eprintln!("fault {} close -> {:?}", fault, closed);
    }
    // the transport is released once close has returned
    let released = peer.wait(|s| s.dropped, Duration::from_secs(2));
    let log_replies: Vec<(u16, AMQPFrame)> = match broker_opt.take() {
        Some(b) => b.stop().replies,
        None => stopped_log.take().unwrap_or_default(),
    };
    for (_, _, _, id, names) in &threads {
        let sent: Vec<String> = log_replies
            .iter()
            .filter_map(|(ch, f)| match f {
                AMQPFrame::Method(_, AMQPClass::Queue(amq_protocol::protocol::queue::AMQPMethod::DeclareOk(d))) if ch == id => {
                    Some(format!("{}/{:?}/{:?}", d.queue, Some(d.message_count), Some(d.consumer_count)))
                }
                _ => None,
            })
            .collect();
        // the i-th call returned the name of the i-th DeclareOk the broker sent on that channel
        if names.len() > sent.len() || names.iter().zip(sent.iter()).any(|(a, b)| a != b) {
            misrouted.store(true, Ordering::SeqCst);
        }
    }
    let term = format!(
        "({}, {}, {}, ({}, {}), {}, {}, {}, {}, {}, ({}, {}))",
        fault,
        coqfmt::list(&threads, |(ok, err, ms, _, _)| format!("({}, {}, {})", ok, coqfmt::b(*err), ms)),
        nthreads,
        last_terminal,
        coqfmt::b(disconnected),
        code,
        coqfmt::b(released),
        coqfmt::b(hang),
        coqfmt::b(misrouted.load(Ordering::SeqCst)),
        coqfmt::b(wire_ok),
        coqfmt::b(close_first),
        parked_code
    );
    Some((term, fault))
}

pub fn run(a: &Args) {
    let mut sink = CaseSink::new("C05", "C05l2", &a.out, 16);
    let mut rng = Rng::new(a.seed ^ 0xC05_2);
    let subs: Vec<u64> = if let Some(pos) = a.rest.iter().position(|x| x == "--line") {
        vec![a.rest[pos + 1].split_whitespace().last().unwrap().parse().unwrap()]
    } else {
        (0..a.n).map(|_| rng.next()).collect()
    };
    for chunk in subs.chunks(6) {
        if crate::l2::timeouts() >= crate::l2::ENOUGH_TIMEOUTS {
            sink.count("stopped-early-after-timeouts");
            break;
        }
        let hs: Vec<_> = chunk.iter().map(|&s| std::thread::spawn(move || (s, crate::l2::watchdog(format!("l2 {}", s), 150, move || scenario(s))))).collect();
        for h in hs {
            match h.join() {
                Ok((s, Some((term, fault)))) => {
                    if term.contains("(true, ") && term.ends_with("0))") { sink.count("close-in-flight"); }
                    if !term.ends_with(", 0))") { sink.count("parked-publisher"); }
                    sink.count(["client-close", "eof", "reset", "malformed", "write-error", "server-close", "silence", "client-exception"][fault as usize]);
                    sink.push_line(term, true, format!("l2 {}", s));
                }
                _ => sink.count("setup_failed"),
            }
        }
    }
    sink.finish("");
}
