//! C05 (and C04) end to end: a real connection with 1-3 caller threads, each issuing
//! synchronous calls on its own channel (and checking that every reply is the reply to its own
//! call), and a consumer; at a random moment the connection dies in one of seven ways.  Every
//! caller must get an error in bounded time, the consumer's queue must end, close() must name
//! the root cause and the transport must be released.
use crate::coqfmt::{self, CaseSink};
use crate::l2::*;
use crate::rng::Rng;
use crate::Args;
use amiquip::{Auth, Connection, ConnectionOptions, ConnectionTuning, ConsumerMessage, ConsumerOptions, Error, QueueDeclareOptions};
use amq_protocol::frame::AMQPFrame;
use amq_protocol::protocol::{connection, AMQPClass};
use std::sync::atomic::{AtomicBool, AtomicU64, Ordering};
use std::sync::Arc;
use std::time::{Duration, Instant};

/// 0 Ok, 1 UnexpectedSocketClose, 2 IoErrorReadingSocket, 3 MalformedFrame, 4 IoErrorWritingSocket,
/// 5 ServerClosedConnection(320), 6 MissedServerHeartbeats, 7 ClientException, 8 other, 9 hang
fn close_code(r: &Option<amiquip::Result<()>>) -> u64 {
    match r {
        None => 9,
        Some(Ok(())) => 0,
        Some(Err(Error::UnexpectedSocketClose)) => 1,
        Some(Err(Error::IoErrorReadingSocket { .. })) => 2,
        Some(Err(Error::MalformedFrame)) => 3,
        Some(Err(Error::IoErrorWritingSocket { .. })) => 4,
        Some(Err(Error::ServerClosedConnection { code: 320, .. })) => 5,
        Some(Err(Error::MissedServerHeartbeats)) => 6,
        Some(Err(Error::ClientException)) => 7,
        Some(Err(_)) => 8,
    }
}

pub fn scenario(sub: u64) -> Option<(String, u64)> {
    let mut rng = Rng::new(sub);
    // 0 the client itself closes the connection while the callers are busy,
    // 1 EOF, 2 reset, 3 malformed data, 4 write error, 5 server close, 6 silence (h = 1 s),
    // 7 a frame the client must answer with a client exception
    let fault = rng.range(0, 7);
    let nthreads = rng.range(1, 3) as usize;
    let delay_ms = rng.range(3, 60);
    // the connection is given up with drop instead of close in a quarter of the scenarios
    let use_drop = fault != 0 && rng.chance(1, 4);
    let (stream, peer) = mock_pair();
    let broker = Broker::start(peer.clone(), BrokerCfg { tune: (2047, 131072, if fault == 6 { 1 } else { 0 }), ..BrokerCfg::default() });
    let opts = ConnectionOptions::<Auth>::default().heartbeat(if fault == 6 { 1 } else { 0 });
    let mut conn = with_deadline(move || Connection::insecure_open_stream(stream, opts, ConnectionTuning::default()), Duration::from_secs(5))?.ok()?;
    let _ = &mut conn;
    let cons_ch = conn.open_channel(None).ok()?;
    let consumer_rx = {
        let c = cons_ch.basic_consume("q", ConsumerOptions::default()).ok()?;
        let rx = c.receiver().clone();
        std::mem::forget(c);
        rx
    };
    let fault_at = Arc::new(AtomicU64::new(0)); // ms since t0 when the fault was injected
    let t0 = Instant::now();
    let misrouted = Arc::new(AtomicBool::new(false));
    let mut handles = Vec::new();
    for k in 0..nthreads {
        let ch = conn.open_channel(None).ok()?;
        let fa = fault_at.clone();
        let mis = misrouted.clone();
        handles.push(std::thread::spawn(move || -> (u64, bool, u64) {
            // (calls that succeeded, ended with an error, ms from the fault to that error)
            let mut ok = 0u64;
            loop {
                let name = format!("q-{}-{}", k, ok);
                match ch.queue_declare(name.clone(), QueueDeclareOptions::default()) {
                    Ok(q) => {
                        // C04: the reply to this very call
                        if q.name() != name {
                            mis.store(true, Ordering::SeqCst);
                        }
                        std::mem::forget(q);
                        ok += 1;
                        if ok > 200_000 {
                            std::mem::forget(ch);
                            return (ok, false, 0);
                        }
                    }
                    Err(_) => {
                        let now = t0.elapsed().as_millis() as u64;
                        let f = fa.load(Ordering::SeqCst);
                        std::mem::forget(ch);
                        return (ok, true, if f == 0 { 0 } else { now.saturating_sub(f) });
                    }
                }
            }
        }));
    }
    std::thread::sleep(Duration::from_millis(delay_ms));
    fault_at.store(t0.elapsed().as_millis().max(1) as u64, Ordering::SeqCst);
    let mut broker_opt = Some(broker);
    let mut early_close = None;
    let mut conn_opt = Some(conn);
    match fault {
        0 => {
            let c = conn_opt.take().unwrap();
            early_close = Some(with_deadline(move || c.close(), Duration::from_secs(5)));
        }
        1 => peer.push_episode(Episode::Eof),
        2 => peer.push_episode(Episode::Reset),
        3 => peer.push(vec![9, 0, 1, 0, 0, 0, 1, 7, 0xCE]),
        4 => peer.set_wpolicy(WPolicy::Fail),
        5 => {
            // a server that closes sends nothing after its Close: the broker thread ends first
            if let Some(b) = broker_opt.take() {
                let _ = b.stop();
            }
            peer.push_frames(&[AMQPFrame::Method(
            0,
            AMQPClass::Connection(connection::AMQPMethod::Close(connection::Close { reply_code: 320, reply_text: "forced".into(), class_id: 0, method_id: 0 })),
            )])
        }
        6 => {
            // the server falls silent: nobody answers any more
            if let Some(b) = broker_opt.take() {
                let _ = b.stop();
            }
        }
        _ => peer.push_frames(&[AMQPFrame::Method(
            1,
            AMQPClass::Connection(connection::AMQPMethod::Blocked(connection::Blocked { reason: "on a channel".into() })),
        )]),
    }
    // every caller must come back
    let bound = Duration::from_millis(if fault == 6 { 6000 } else { 3500 });
    let joined = with_deadline(move || handles.into_iter().map(|h| h.join().unwrap_or((0, false, 0))).collect::<Vec<_>>(), bound + Duration::from_secs(2));
    let hang = joined.is_none();
    let threads = joined.unwrap_or_default();
    // the consumer's queue ends
    let mut last_terminal = 0u64;
    let mut disconnected = false;
    let tc = Instant::now();
    while tc.elapsed() < Duration::from_secs(3) {
        match consumer_rx.recv_timeout(Duration::from_millis(200)) {
            Ok(ConsumerMessage::ServerClosedConnection(_)) => last_terminal = 6,
            Ok(ConsumerMessage::ClientClosedConnection) => last_terminal = 5,
            Ok(ConsumerMessage::Delivery(_)) => {}
            Ok(_) => last_terminal = 1,
            Err(crossbeam_channel::RecvTimeoutError::Disconnected) => {
                disconnected = true;
                break;
            }
            Err(crossbeam_channel::RecvTimeoutError::Timeout) => {}
        }
    }
    std::mem::forget(cons_ch);
    let closed = match (early_close, conn_opt.take()) {
        (Some(r), _) => r,
        (None, Some(conn)) if use_drop => with_deadline(move || drop(conn), Duration::from_secs(5)).map(|_| Err(Error::FrameUnexpected)),
        (None, Some(conn)) => with_deadline(move || conn.close(), Duration::from_secs(5)),
        (None, None) => None,
    };
    // 99: drop returned (it has no result); 9: it did not
    let code = if use_drop && closed.is_some() { 99 } else { close_code(&closed) };
    // C08: the client's Connection.Close is the last frame it ever sent
    if fault == 0 && std::env::var("VH_DEBUG").is_ok() {
        match client_frames(&peer.out()) {
            Some((frames, left)) => eprintln!("fault 0: leftover {} last frames {:?}", left, &frames[frames.len().saturating_sub(3)..]),
            None => eprintln!("fault 0: wire does not parse"),
        }
    }
    let wire_ok = if fault == 0 {
        let out = peer.out();
        match client_frames(&out) {
            Some((frames, used)) => used == out.len() && matches!(frames.last(), Some(AMQPFrame::Method(0, AMQPClass::Connection(connection::AMQPMethod::Close(_))))),
            None => false,
        }
    } else {
        true
    };
    if std::env::var("VH_DEBUG").is_ok() {
        eprintln!("fault {} close -> {:?}", fault, closed);
    }
    // the transport is released once close has returned
    let released = peer.wait(|s| s.dropped, Duration::from_secs(2));
    if let Some(b) = broker_opt.take() {
        let _ = b.stop();
    }
    let term = format!(
        "({}, {}, {}, ({}, {}), {}, {}, {}, {}, {})",
        fault,
        coqfmt::list(&threads, |(ok, err, ms)| format!("({}, {}, {})", ok, coqfmt::b(*err), ms)),
        nthreads,
        last_terminal,
        coqfmt::b(disconnected),
        code,
        coqfmt::b(released),
        coqfmt::b(hang),
        coqfmt::b(misrouted.load(Ordering::SeqCst)),
        coqfmt::b(wire_ok)
    );
    Some((term, fault))
}

pub fn run(a: &Args) {
    let mut sink = CaseSink::new("C05", "C05l2", &a.out, 16);
    let mut rng = Rng::new(a.seed ^ 0xC05_2);
    let subs: Vec<u64> = if let Some(pos) = a.rest.iter().position(|x| x == "--line") {
        vec![a.rest[pos + 1].split_whitespace().last().unwrap().parse().unwrap()]
    } else {
        (0..a.n).map(|_| rng.next()).collect()
    };
    for chunk in subs.chunks(6) {
        let hs: Vec<_> = chunk.iter().map(|&s| std::thread::spawn(move || (s, scenario(s)))).collect();
        for h in hs {
            match h.join() {
                Ok((s, Some((term, fault)))) => {
                    sink.count(["client-close", "eof", "reset", "malformed", "write-error", "server-close", "silence", "client-exception"][fault as usize]);
                    sink.push_line(term, true, format!("l2 {}", s));
                }
                _ => sink.count("setup_failed"),
            }
        }
    }
    sink.finish("");
}
