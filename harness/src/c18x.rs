//! experiment: how far past the high-water mark does a flood of tiny nowait calls get?
use crate::l2::*;
use crate::Args;
use amiquip::{Auth, Connection, ConnectionOptions, ConnectionTuning};
use std::sync::atomic::{AtomicU64, Ordering};
use std::sync::Arc;
use std::time::Duration;

pub fn run(_a: &Args) {
    amiquip::verif::set_sched_delay(1, 200);
    for &(bound, high, nch) in &[(1usize, 1000usize, 1usize), (1, 1000, 3), (16, 1000, 1), (1, 100, 1), (1000, 1000, 1)] {
        let (stream, peer) = mock_pair();
        let broker = Broker::start(peer.clone(), BrokerCfg::default());
        let tuning = ConnectionTuning::default().mem_channel_bound(bound).buffered_writes_high_water(high).buffered_writes_low_water(0);
        let mut conn = Connection::insecure_open_stream(stream, ConnectionOptions::<Auth>::default(), tuning).unwrap();
        let chans: Vec<_> = (0..nch).map(|_| conn.open_channel(None).unwrap()).collect();
        std::thread::sleep(Duration::from_millis(20));
        peer.set_wpolicy(WPolicy::Stall);
        let ctr = Arc::new(AtomicU64::new(0));
        for ch in chans {
            let c = ctr.clone();
            std::thread::spawn(move || {
                for _ in 0..2_000_000u64 {
                    if ch.ack_all().is_err() { break; }
                    c.fetch_add(1, Ordering::SeqCst);
                }
                std::mem::forget(ch);
            });
        }
        std::thread::sleep(Duration::from_millis(300));
        let a = ctr.load(Ordering::SeqCst);
        std::thread::sleep(Duration::from_millis(100));
        let b = ctr.load(Ordering::SeqCst);
        println!("bound={} high={} nch={}: accepted {} acks (x21 bytes = {}), stable={}", bound, high, nch, b, b * 21, a == b);
        std::mem::forget(conn);
        broker.stop();
    }
}
