//! C04, the caller's side: the real IoLoopHandle (call::<QosOk>, call::<DeclareOk>, get,
//! consume, call_nowait) through the HandleProbe, with 0-2 replies queued beforehand and either
//! end of its two queues optionally gone; only calls that cannot block are issued.
use crate::coqfmt::{self, CaseSink};
use crate::rng::Rng;
use crate::Args;
use amiquip::verif::{handle_calls, HCall, HItem};

fn item(code: u64) -> HItem {
    match code {
        1 => HItem::QosOk,
        2 => HItem::DeclareOk,
        10 => HItem::GetNone,
        11 => HItem::ConsumeOk,
        23 => HItem::ErrServerClosedChannel,
        _ => HItem::ErrClientClosedConnection,
    }
}

fn call(code: u64) -> HCall {
    match code {
        1 => HCall::Qos,
        2 => HCall::Declare,
        10 => HCall::Get,
        11 => HCall::Consume,
        _ => HCall::NowaitAck,
    }
}

fn emit(sink: &mut CaseSink, q: &[u64], tx_gone: bool, mail_gone: bool, calls: &[u64]) {
    if std::env::var("VH_DEBUG").is_ok() {
        eprintln!("h {:?} {} {} {:?}", q, tx_gone, mail_gone, calls);
    }
    let (res, left, mail) = handle_calls(q.iter().map(|c| item(*c)).collect(), tx_gone, mail_gone, calls.iter().map(|c| call(*c)).collect());
    for r in &res {
        sink.count(&format!("result:{}", r));
    }
    let term = format!(
        "({}, {}, {}, {}, {}, {}, {})",
        coqfmt::list(q, |x| x.to_string()),
        coqfmt::b(tx_gone),
        coqfmt::b(mail_gone),
        coqfmt::list(calls, |x| x.to_string()),
        coqfmt::list(&res, |x| x.to_string()),
        left,
        if mail == usize::MAX { "None".to_string() } else { format!("(Some {})", mail) }
    );
    let line = format!("h {:?} {} {} {:?}", q, tx_gone, mail_gone, calls);
    sink.push_line(term, !calls.is_empty(), line);
}

pub fn run(a: &Args) {
    let mut sink = CaseSink::new("C04", "C04h", &a.out, 400);
    let mut rng = Rng::new(a.seed ^ 0xC04_4);
    let items = [1u64, 2, 10, 11, 23, 24];
    let kinds = [1u64, 2, 10, 11, 0];
    // every reply queue of length <= 2, every pair of flags, every sequence of <= 2 calls that
    // cannot block; then random sequences of up to 4 calls
    let mut queues: Vec<Vec<u64>> = vec![vec![]];
    for x in items {
        queues.push(vec![x]);
        for y in items {
            queues.push(vec![x, y]);
        }
    }
    let blocks = |q: &[u64], tx_gone: bool, mail_gone: bool, calls: &[u64]| -> bool {
        let mut len = q.len();
        for c in calls {
            if *c == 0 && !mail_gone {
                continue;
            }
            if len > 0 {
                len -= 1;
            } else if !tx_gone {
                return true;
            }
        }
        false
    };
    for q in &queues {
        for &tx_gone in &[false, true] {
            for &mail_gone in &[false, true] {
                let mut seqs: Vec<Vec<u64>> = vec![];
                for x in kinds {
                    seqs.push(vec![x]);
                    for y in kinds {
                        seqs.push(vec![x, y]);
                    }
                }
                for s in seqs {
                    if !blocks(q, tx_gone, mail_gone, &s) {
                        emit(&mut sink, q, tx_gone, mail_gone, &s);
                    }
                }
            }
        }
    }
    for _ in 0..a.n {
        let q = rng.pick(&queues).clone();
        let (tx_gone, mail_gone) = (rng.boolean(), rng.boolean());
        let k = rng.range(1, 4);
        let s: Vec<u64> = (0..k).map(|_| *rng.pick(&kinds)).collect();
        if !blocks(&q, tx_gone, mail_gone, &s) {
            emit(&mut sink, &q, tx_gone, mail_gone, &s);
        }
    }
    sink.finish("");
}
