//! C01 end to end: several client threads, each owning channels of one real connection,
//! issue nowait calls and publishes while the transport takes writes in random pieces and
//! blocks at random; the wire is split by the harness's own envelope splitter.
use crate::c02::gen_body;
use crate::coqfmt::{self, CaseSink};
use crate::l2::*;
use crate::rng::Rng;
use crate::wire;
use crate::Args;
use amiquip::{AmqpProperties, Auth, Channel, Connection, ConnectionOptions, ConnectionTuning, ExchangeDeclareOptions, ExchangeType, FieldTable, Publish, QueueDeclareOptions};
use amq_protocol::frame::{AMQPContentHeader, AMQPFrame};
use amq_protocol::protocol::{basic, exchange, queue, AMQPClass};
use std::collections::VecDeque;
use std::time::Duration;

const FRAME_MAX: usize = 4096;

/// one client operation; returns the frames it must put on the wire, as bytes
fn do_op(ch: &Channel, rng: &mut Rng) -> amiquip::Result<Vec<Vec<u8>>> {
    let id = ch.channel_id();
    let m = |c: AMQPClass| wire::encode(&AMQPFrame::Method(id, c));
    Ok(match rng.below(7) {
        0 => {
            let name = format!("q{}", rng.below(1000));
            ch.queue_declare_nowait(name.clone(), QueueDeclareOptions::default())?;
            vec![m(AMQPClass::Queue(queue::AMQPMethod::Declare(queue::Declare {
                ticket: 0, queue: name, passive: false, durable: false, exclusive: false, auto_delete: false, nowait: true, arguments: FieldTable::new(),
            })))]
        }
        1 => {
            let name = format!("x{}", rng.below(1000));
            ch.exchange_declare_nowait(ExchangeType::Fanout, name.clone(), ExchangeDeclareOptions::default())?;
            vec![m(AMQPClass::Exchange(exchange::AMQPMethod::Declare(exchange::Declare {
                ticket: 0, exchange: name, type_: "fanout".into(), passive: false, durable: false, auto_delete: false, internal: false, nowait: true, arguments: FieldTable::new(),
            })))]
        }
        2 => {
            ch.ack_all()?;
            vec![m(AMQPClass::Basic(basic::AMQPMethod::Ack(basic::Ack { delivery_tag: 0, multiple: true })))]
        }
        3 => {
            let q = format!("q{}", rng.below(1000));
            ch.queue_purge_nowait(q.clone())?;
            vec![m(AMQPClass::Queue(queue::AMQPMethod::Purge(queue::Purge { ticket: 0, queue: q, nowait: true })))]
        }
        _ => {
            let len = match rng.below(6) { 0 => 0, 1 => FRAME_MAX - 8, 2 => FRAME_MAX - 7, 3 => 2 * (FRAME_MAX - 8) + 5, _ => rng.range(1, 900) as usize };
            let (a, b) = (rng.below(251) as u8, rng.range(1, 250) as u8);
            let body = gen_body(a, b, len);
            let rk = format!("rk{}", rng.below(100));
            ch.basic_publish("amq.topic", Publish::new(&body, rk.clone()))?;
            let mut v = vec![m(AMQPClass::Basic(basic::AMQPMethod::Publish(basic::Publish {
                ticket: 0, exchange: "amq.topic".into(), routing_key: rk, mandatory: false, immediate: false,
            })))];
            v.push(wire::encode(&AMQPFrame::Header(id, 60, Box::new(AMQPContentHeader { class_id: 60, weight: 0, body_size: len as u64, properties: AmqpProperties::default() }))));
            for chunk in body.chunks(FRAME_MAX - 8) {
                v.push(wire::envelope(3, id, chunk));
            }
            v
        }
    })
}

fn write_script(rng: &mut Rng, n: usize) -> VecDeque<WStep> {
    let mut q = VecDeque::new();
    for _ in 0..n {
        q.push_back(match rng.below(10) {
            0..=2 => WStep::Block,
            3..=5 => WStep::Wrote(rng.range(1, 7) as usize),
            6 | 7 => WStep::Wrote(rng.range(8, 300) as usize),
            _ => WStep::Wrote(rng.range(300, 6000) as usize),
        });
    }
    q
}

pub fn scenario(sub: u64) -> Option<String> {
    let mut rng = Rng::new(sub);
    let (stream, peer) = mock_pair();
    let nsteps = rng.range(50, 4000) as usize;
    peer.set_wpolicy(WPolicy::Script(write_script(&mut rng, nsteps)));
    let broker = Broker::start(peer.clone(), BrokerCfg { tune: (2047, FRAME_MAX as u32, 0), ..Default::default() });
    // a transport that blocked says so again later: writable is signalled every millisecond
    let pump_peer = peer.clone();
    let stop = std::sync::Arc::new(std::sync::atomic::AtomicBool::new(false));
    let stop2 = stop.clone();
    let pump = std::thread::spawn(move || {
        while !stop2.load(std::sync::atomic::Ordering::Relaxed) {
            pump_peer.wake();
            std::thread::sleep(Duration::from_micros(300));
        }
    });
    let nthreads = rng.range(1, 3) as usize;
    let per_thread: Vec<(usize, u64, u64)> = (0..nthreads).map(|_| (rng.range(1, 2) as usize, rng.range(3, 25), rng.next())).collect();
    let result = with_deadline(
        move || -> amiquip::Result<Vec<(u16, Vec<Vec<u8>>)>> {
            let mut conn = Connection::insecure_open_stream(stream, ConnectionOptions::<Auth>::default(), ConnectionTuning::default())?;
            let mut handles = Vec::new();
            for (nch, nops, seed) in per_thread {
                let chans: Vec<Channel> = (0..nch).map(|_| conn.open_channel(None)).collect::<amiquip::Result<_>>()?;
                handles.push(std::thread::spawn(move || -> amiquip::Result<Vec<(u16, Vec<Vec<u8>>)>> {
                    let mut rng = Rng::new(seed);
                    let mut logs: Vec<(u16, Vec<Vec<u8>>)> = chans.iter().map(|c| (c.channel_id(), Vec::new())).collect();
                    for _ in 0..nops {
                        let k = rng.below(chans.len() as u64) as usize;
                        let frames = do_op(&chans[k], &mut rng)?;
                        logs[k].1.extend(frames);
                    }
                    // the channels stay open: closing is a synchronous call and not what is measured
                    for c in chans { std::mem::forget(c); }
                    Ok(logs)
                }));
            }
            let mut all = Vec::new();
            for h in handles {
                all.extend(h.join().map_err(|_| amiquip::Error::IoThreadPanic)??);
            }
            conn.close()?;
            Ok(all)
        },
        Duration::from_secs(30),
    );
    stop.store(true, std::sync::atomic::Ordering::Relaxed);
    let _ = pump.join();
    peer.wait(|s| s.dropped, Duration::from_secs(2));
    let _ = broker.stop();
    let logs = match result {
        Some(Ok(l)) => l,
        Some(Err(_)) => return Some("(false, 0, [], [])".to_string()),
        None => return Some("(false, 1, [], [])".to_string()), // hang: data left unwritten with nobody to wake the thread
    };
    let out = peer.out();
    let hdr = out.len() >= 8 && &out[..8] == b"AMQP\x00\x00\x09\x01";
    let (raw, rest) = if out.len() >= 8 { wire::split(&out[8..]) } else { (vec![], vec![]) };
    let bad_end = raw.iter().any(|f| !f.end_ok);
    // channel 0 is the connection's own: StartOk, TuneOk, Open ... Close - its order is C16 / C08's
    let wire_frames: Vec<(u16, u64)> = raw.iter().filter(|f| f.ch != 0).map(|f| (f.ch, wire::adler32(&wire::envelope(f.ty, f.ch, &f.payload)))).collect();
    // every channel starts with Channel.Open (sent by open_channel before the owner got it)
    let issued: Vec<(u16, Vec<u64>)> = logs
        .iter()
        .map(|(ch, frames)| {
            let open = wire::encode(&AMQPFrame::Method(*ch, AMQPClass::Channel(amq_protocol::protocol::channel::AMQPMethod::Open(amq_protocol::protocol::channel::Open { out_of_band: "".into() }))));
            let mut v = vec![wire::adler32(&open)];
            v.extend(frames.iter().map(|f| wire::adler32(f)));
            (*ch, v)
        })
        .collect();
    Some(format!(
        "({}, {}, {}, {})",
        coqfmt::b(hdr && !bad_end),
        rest.len(),
        coqfmt::list(&issued, |(ch, v)| format!("({}, {})", ch, coqfmt::list(v, |x| x.to_string()))),
        coqfmt::list(&wire_frames, |(ch, a)| format!("({}, {})", ch, a))
    ))
}

pub fn run(a: &Args) {
    let mut sink = CaseSink::new("C01", "C01", &a.out, 40);
    let mut rng = Rng::new(a.seed ^ 0xC01);
    if let Some(pos) = a.rest.iter().position(|x| x == "--line") {
        let sub: u64 = a.rest[pos + 1].split_whitespace().last().unwrap().parse().unwrap();
        if let Some(t) = scenario(sub) {
            sink.push_line(t, true, format!("l2 {}", sub));
        }
        sink.finish("");
        return;
    }
    // scenarios run a few at a time
    let subs: Vec<u64> = (0..a.n).map(|_| rng.next()).collect();
    for chunk in subs.chunks(8) {
        if crate::l2::timeouts() >= crate::l2::ENOUGH_TIMEOUTS {
            sink.count("stopped-early-after-timeouts");
            break;
        }
        let hs: Vec<_> = chunk.iter().map(|&s| std::thread::spawn(move || (s, crate::l2::watchdog(format!("l2 {}", s), 150, move || scenario(s))))).collect();
        for h in hs {
            if let Ok((s, Some(t))) = h.join() {
                sink.count("scenario");
                if t.starts_with("(false") {
                    sink.count("FAILED_OR_HUNG");
                }
                sink.push_line(t, true, format!("l2 {}", s));
            }
        }
    }
    sink.finish("");
}
