//! vh - the Rust side of the correspondence checks.  Each subcommand runs the REAL
//! amiquip code on generated / enumerated / corpus cases and writes what it did as
//! Coq terms (case files) for the model and the property oracle to judge.
mod absframe;
mod c01;
mod c02;
mod c06;
mod c10;
mod c10l2;
mod c12;
mod c14;
mod c15;
mod c16;
mod c17;
mod c18;
mod c18x;
mod c18loop;
mod c13l2;
mod c11l2;
mod c05l2;
mod c03l2;
mod c03get;
mod c04h;
mod c04sys;
mod c15l2;
mod c19;
mod consts;
mod core;
mod coregen;
mod l2;
mod l2smoke;
mod coqfmt;
mod rng;
mod wire;

pub struct Args {
    pub seed: u64,
    pub n: u64,
    pub out: std::path::PathBuf,
    pub tier: String,
    pub corpus: Option<std::path::PathBuf>,
    pub rest: Vec<String>,
}

fn main() {
    let argv: Vec<String> = std::env::args().collect();
    if argv.len() < 2 {
        eprintln!("usage: vh <property> [--seed S] [--n N] [--out DIR] [--tier quick|thorough] [--corpus DIR]");
        std::process::exit(2);
    }
    let mut a = Args {
        seed: 1,
        n: 1000,
        out: std::path::PathBuf::from("/verif/.build/cases/tmp"),
        tier: "quick".to_string(),
        corpus: None,
        rest: Vec::new(),
    };
    let mut i = 2;
    while i < argv.len() {
        match argv[i].as_str() {
            "--seed" => {
                a.seed = argv[i + 1].parse().unwrap();
                i += 2;
            }
            "--n" => {
                a.n = argv[i + 1].parse().unwrap();
                i += 2;
            }
            "--out" => {
                a.out = argv[i + 1].clone().into();
                i += 2;
            }
            "--tier" => {
                a.tier = argv[i + 1].clone();
                i += 2;
            }
            "--corpus" => {
                a.corpus = Some(argv[i + 1].clone().into());
                i += 2;
            }
            other => {
                a.rest.push(other.to_string());
                i += 1;
            }
        }
    }
    // panics of the code under test are observations, not noise
    if std::env::var("VH_SHOW_PANICS").is_err() {
        std::panic::set_hook(Box::new(|_| {}));
    }
    match argv[1].as_str() {
        "consts" => consts::run(),
        "l2smoke" => l2smoke::run(&a),
        "c01" => c01::run(&a),
        "c02" => c02::run(&a),
        "c06" => c06::run(&a),
        "c10" => c10::run(&a),
        "c10l2" => c10l2::run(&a),
        "c12" => c12::run(&a),
        "c14" => c14::run(&a),
        "c15" => c15::run(&a),
        "c16" => c16::run(&a),
        "c17" => c17::run(&a),
        "c18" => c18::run(&a),
        "c18x" => c18x::run(&a),
        "c18loop" => c18loop::run(&a),
        "c13l2" => c13l2::run(&a),
        "c11l2" => c11l2::run(&a),
        "c05l2" => c05l2::run(&a),
        "c03l2" => c03l2::run(&a),
        "c03get" => c03get::run(&a),
        "c04h" => c04h::run(&a),
        "c04sys" => c04sys::run(&a),
        "c15l2" => c15l2::run(&a),
        "c19" => c19::run(&a),
        "c06core" => coregen::run(&a, "C06", "C06core", &["c06"]),
        "c18core" => coregen::run(&a, "C18", "CoreMix", &["c18"]),
        "c10core" => coregen::run(&a, "C10", "C10core", &["c10"]),
        "coremix" => coregen::run(&a, "CORE", "CoreMix", &["mix", "c07", "c03", "c04", "c05", "c08", "c09", "c11", "c13", "c20"]),
        "c03" => coregen::run(&a, "C03", "C03", &["c03"]),
        "c07" => coregen::run(&a, "C07", "C07", &["c07", "c07", "mix"]),
        "c01core" => coregen::run(&a, "C01", "C01core", &["c01"]),
        "c04core" => coregen::run(&a, "C04", "C04", &["c04"]),
        "c05core" => coregen::run(&a, "C05", "C05", &["c05"]),
        "c08core" => coregen::run(&a, "C08", "C08", &["c08"]),
        "c09" => coregen::run(&a, "C09", "C09", &["c09"]),
        "c11" => coregen::run(&a, "C11", "C11", &["c11"]),
        "c13" => coregen::run(&a, "C13", "C13", &["c13"]),
        "c20" => coregen::run(&a, "C20", "C20", &["c20"]),
        other => {
            eprintln!("unknown property driver {}", other);
            std::process::exit(2);
        }
    }
}
