//! Frame helpers for the harness: amq-protocol based encoding (both ends of the
//! harness use amq-protocol for method payloads) and an INDEPENDENT hand-written
//! envelope splitter used wherever the property is about framing.
use amq_protocol::frame::generation::gen_frame;
use amq_protocol::frame::AMQPFrame;
use cookie_factory::GenError;

pub fn encode(frame: &AMQPFrame) -> Vec<u8> {
    let mut buf = vec![0u8; 64];
    loop {
        let need = match gen_frame((&mut buf[..], 0), frame) {
            Ok((_, n)) => {
                buf.truncate(n);
                return buf;
            }
            Err(GenError::BufferTooSmall(n)) => n,
            Err(e) => panic!("cannot encode {:?}: {:?}", frame, e),
        };
        buf.resize(need.max(buf.len() * 2), 0);
    }
}

/// hand-written envelope: type, channel, payload
pub fn envelope(ty: u8, ch: u16, payload: &[u8]) -> Vec<u8> {
    let mut v = Vec::with_capacity(payload.len() + 8);
    v.push(ty);
    v.extend_from_slice(&ch.to_be_bytes());
    v.extend_from_slice(&(payload.len() as u32).to_be_bytes());
    v.extend_from_slice(payload);
    v.push(0xCE);
    v
}

#[derive(Debug, Clone, PartialEq)]
pub struct RawFrame {
    pub ty: u8,
    pub ch: u16,
    pub payload: Vec<u8>,
    pub end_ok: bool,
}

/// independent splitter: complete frames and the incomplete rest
pub fn split(mut s: &[u8]) -> (Vec<RawFrame>, Vec<u8>) {
    let mut out = Vec::new();
    loop {
        if s.len() < 7 {
            return (out, s.to_vec());
        }
        let size = u32::from_be_bytes([s[3], s[4], s[5], s[6]]) as usize;
        if s.len() < size + 8 {
            return (out, s.to_vec());
        }
        out.push(RawFrame {
            ty: s[0],
            ch: u16::from_be_bytes([s[1], s[2]]),
            payload: s[7..7 + size].to_vec(),
            end_ok: s[7 + size] == 0xCE,
        });
        s = &s[size + 8..];
    }
}

pub fn adler32(bs: &[u8]) -> u64 {
    let (mut a, mut b) = (1u64, 0u64);
    for &x in bs {
        a = (a + x as u64) % 65521;
        b = (b + a) % 65521;
    }
    b * 65536 + a
}
