//! C14: the real `ConfirmSmoother` (public API) on corpus, bounded-exhaustive and
//! random histories, with early iterator drops.
use crate::coqfmt::{self, CaseSink};
use crate::rng::Rng;
use crate::Args;
use amiquip::{Confirm, ConfirmPayload, ConfirmSmoother};

#[derive(Clone, Debug)]
pub struct Step {
    pub tag: u64,
    pub multiple: bool,
    pub ack: bool,
    pub take: Option<u64>,
}

fn to_confirm(s: &Step) -> Confirm {
    let p = ConfirmPayload {
        delivery_tag: s.tag,
        multiple: s.multiple,
    };
    if s.ack {
        Confirm::Ack(p)
    } else {
        Confirm::Nack(p)
    }
}

fn of_confirm(c: Confirm) -> (u64, bool, bool) {
    match c {
        Confirm::Ack(p) => (p.delivery_tag, p.multiple, true),
        Confirm::Nack(p) => (p.delivery_tag, p.multiple, false),
    }
}

/// What the implementation does with the history.
pub fn run_impl(e0: u64, steps: &[Step]) -> Vec<Vec<(u64, bool, bool)>> {
    let mut sm = ConfirmSmoother::with_expected_delivery_tag(e0);
    let mut obs = Vec::new();
    for s in steps {
        let it = sm.process(to_confirm(s));
        let got: Vec<_> = match s.take {
            None => it.map(of_confirm).collect(),
            Some(k) => it.take(k as usize).map(of_confirm).collect(),
        };
        obs.push(got);
    }
    obs
}

fn render(e0: u64, steps: &[Step], obs: &[Vec<(u64, bool, bool)>]) -> String {
    format!(
        "({}, {}, {})",
        e0,
        coqfmt::list(steps, |s| format!(
            "({}, {}, {}, {})",
            s.tag,
            coqfmt::b(s.multiple),
            coqfmt::b(s.ack),
            coqfmt::opt(&s.take, |k| k.to_string())
        )),
        coqfmt::list(obs, |o| coqfmt::list(o, |(t, m, a)| format!(
            "({}, {}, {})",
            t,
            coqfmt::b(*m),
            coqfmt::b(*a)
        )))
    )
}

fn emit(sink: &mut CaseSink, kind: &str, e0: u64, steps: &[Step]) {
    let obs = run_impl(e0, steps);
    let n_out: usize = obs.iter().map(|o| o.len()).sum();
    sink.count(&format!("kind:{}", kind));
    sink.count(&format!("len:{}", steps.len().min(12)));
    if steps.iter().any(|s| s.multiple) {
        sink.count("has_multiple");
    }
    if steps.iter().any(|s| s.take.is_some()) {
        sink.count("has_early_drop");
    }
    if steps.iter().any(|s| !s.ack) && steps.iter().any(|s| s.ack) {
        sink.count("mixed_ack_nack");
    }
    // a stored single later covered by a multiple (the F4 shape)
    let mut f4 = false;
    for (i, s) in steps.iter().enumerate() {
        if !s.multiple {
            if steps[i + 1..].iter().any(|m| m.multiple && m.tag >= s.tag) {
                f4 = true;
            }
        }
    }
    if f4 {
        sink.count("single_then_covering_multiple");
    }
    sink.count_n("outputs", n_out as u64);
    let nontrivial = steps.len() >= 2 && n_out >= 1;
    let line = format!(
        "{} {}",
        e0,
        steps
            .iter()
            .map(|s| format!(
                "{},{},{},{}",
                s.tag,
                if s.multiple { "m" } else { "s" },
                if s.ack { "a" } else { "n" },
                s.take.map(|k| k.to_string()).unwrap_or_else(|| "-".to_string())
            ))
            .collect::<Vec<_>>()
            .join(" ")
    );
    sink.push_line(render(e0, steps, &obs), nontrivial, line);
}

/// every history over tags 1..=n in which each tag is confirmed exactly once (a multiple
/// at t needs t itself unconfirmed and covers every unconfirmed tag <= t), with every
/// ack/nack choice: 388,610 histories for n = 6.
fn exhaustive(sink: &mut CaseSink, n: u32, e0: u64, rng: &mut Rng, drops: bool) {
    fn go(
        sink: &mut CaseSink,
        n: u32,
        e0: u64,
        mask: u32,
        cur: &mut Vec<Step>,
        rng: &mut Rng,
        drops: bool,
    ) {
        let full = (1u32 << n) - 1;
        if mask == full {
            if drops {
                let mut c = cur.clone();
                for s in c.iter_mut() {
                    if rng.chance(1, 4) {
                        s.take = Some(rng.below(3));
                    }
                }
                emit(sink, &format!("exhaustive{}", n), e0, &c);
            } else {
                emit(sink, &format!("exhaustive{}", n), e0, cur);
            }
            return;
        }
        for t in 0..n {
            if (mask >> t) & 1 == 1 {
                continue;
            }
            for &ack in &[true, false] {
                cur.push(Step {
                    tag: e0 + t as u64,
                    multiple: false,
                    ack,
                    take: None,
                });
                go(sink, n, e0, mask | (1 << t), cur, rng, drops);
                cur.pop();
                let low = (1u32 << (t + 1)) - 1;
                cur.push(Step {
                    tag: e0 + t as u64,
                    multiple: true,
                    ack,
                    take: None,
                });
                go(sink, n, e0, mask | low, cur, rng, drops);
                cur.pop();
            }
        }
    }
    let mut cur = Vec::new();
    go(sink, n, e0, 0, &mut cur, rng, drops);
}

fn pick_e0(rng: &mut Rng) -> u64 {
    match rng.below(4) {
        0 => 1,
        1 => rng.range(0, 5),
        2 => rng.next() >> rng.below(60),
        _ => u64::MAX - 40,
    }
}

/// random history with no tag singly confirmed twice (the hypothesis of C14_exact);
/// multiples anywhere (also stale ones), singles also for tags a multiple already covered.
fn random_valid(rng: &mut Rng) -> (u64, Vec<Step>) {
    let e0 = pick_e0(rng).min(u64::MAX - 40);
    let n = rng.range(1, 12);
    let mut singles: Vec<u64> = (0..n).collect();
    rng.shuffle(&mut singles);
    let keep = rng.range(0, n) as usize;
    singles.truncate(keep);
    let mut steps: Vec<Step> = singles
        .iter()
        .map(|t| Step {
            tag: e0 + t,
            multiple: false,
            ack: rng.chance(2, 3),
            take: None,
        })
        .collect();
    let n_multi = rng.below(4);
    for _ in 0..n_multi {
        let pos = rng.below(steps.len() as u64 + 1) as usize;
        // occasionally below e0 (stale)
        let tag = if e0 > 2 && rng.chance(1, 10) {
            e0 - rng.range(1, 2)
        } else {
            e0 + rng.below(n + 1)
        };
        steps.insert(
            pos,
            Step {
                tag,
                multiple: true,
                ack: rng.chance(2, 3),
                take: None,
            },
        );
    }
    if steps.is_empty() {
        steps.push(Step {
            tag: e0,
            multiple: rng.boolean(),
            ack: true,
            take: None,
        });
    }
    if rng.chance(1, 2) {
        for s in steps.iter_mut() {
            if rng.chance(1, 3) {
                s.take = Some(rng.below(4));
            }
        }
    }
    (e0, steps)
}

/// arbitrary confirmations: duplicates, stale tags, anything (safety half only)
fn random_arbitrary(rng: &mut Rng) -> (u64, Vec<Step>) {
    let e0 = pick_e0(rng).min(u64::MAX - 40);
    let n = rng.range(1, 8);
    let len = rng.range(1, 14);
    let lo = e0.saturating_sub(2);
    let steps = (0..len)
        .map(|_| Step {
            tag: rng.range(lo, e0 + n),
            multiple: rng.chance(1, 4),
            ack: rng.boolean(),
            take: None,
        })
        .collect();
    (e0, steps)
}

/// corpus line:  <e0> <tag>,<s|m>,<a|n>,<take|-> ...
pub fn parse_line(line: &str) -> Option<(u64, Vec<Step>)> {
    let line = line.split('#').next().unwrap().trim();
    if line.is_empty() {
        return None;
    }
    let mut it = line.split_whitespace();
    let e0: u64 = it.next()?.parse().ok()?;
    let mut steps = Vec::new();
    for tok in it {
        let f: Vec<&str> = tok.split(',').collect();
        steps.push(Step {
            tag: f[0].parse().ok()?,
            multiple: f[1] == "m",
            ack: f[2] == "a",
            take: if f[3] == "-" { None } else { f[3].parse().ok() },
        });
    }
    Some((e0, steps))
}

pub fn run(a: &Args) {
    let mut sink = CaseSink::new("C14", "C14", &a.out, 400);
    let mut rng = Rng::new(a.seed);
    // 1. corpus first
    if let Some(dir) = &a.corpus {
        if let Ok(rd) = std::fs::read_dir(dir) {
            let mut files: Vec<_> = rd.flatten().map(|e| e.path()).collect();
            files.sort();
            for f in files {
                for line in std::fs::read_to_string(&f).unwrap_or_default().lines() {
                    if let Some((e0, steps)) = parse_line(line) {
                        emit(&mut sink, "corpus", e0, &steps);
                    }
                }
            }
        }
    }
    // a single --line "<corpus line>" replays one case
    if let Some(pos) = a.rest.iter().position(|x| x == "--line") {
        if let Some((e0, steps)) = parse_line(&a.rest[pos + 1]) {
            emit(&mut sink, "replay", e0, &steps);
        }
        sink.finish("");
        return;
    }
    // 2. bounded exhaustive
    let max_n = if a.tier == "thorough" { 6 } else { 4 };
    for n in 1..=max_n {
        exhaustive(&mut sink, n, 1, &mut rng, false);
    }
    // the same space with random early drops, small n
    for n in 1..=3 {
        exhaustive(&mut sink, n, 7, &mut rng, true);
    }
    // 3. random
    for i in 0..a.n {
        if i % 4 == 3 {
            let (e0, steps) = random_arbitrary(&mut rng);
            emit(&mut sink, "random_arbitrary", e0, &steps);
        } else {
            let (e0, steps) = random_valid(&mut rng);
            emit(&mut sink, "random_valid", e0, &steps);
        }
    }
    sink.finish(&format!("\"exhaustive_max_tags\":{}", max_n));
}
