//! The `core` driver: sequences of operations on the REAL Inner / ConnectionState /
//! handles through `amiquip::verif::CoreProbe`, rendered as cases for coq/Check/Core.v.
//! One generator per property ("mode"); every case is reproducible from (mode, subseed).
use crate::absframe::*;
use crate::coqfmt::{self, CaseSink};
use crate::rng::Rng;
use crate::wire;
use crate::Args;
use amiquip::verif::{ClientMsg, CoreProbe, Item, ProbeEvent, Rd, Recv, Wr};
use amiquip::{Confirm, ConnectionBlockedNotification, ConsumerMessage, Return};
use crossbeam_channel::{Receiver, Sender, TryRecvError};
use std::collections::{BTreeMap, HashMap};
use std::panic::{catch_unwind, AssertUnwindSafe};

enum QEnd {
    Reply(u16),
    AllocRep,
    Consumer(Option<Receiver<ConsumerMessage>>),
    Return(Option<Receiver<Return>>, Option<Sender<Return>>),
    Confirm(Option<Receiver<Confirm>>, Option<Sender<Confirm>>),
    Blocked(Option<Receiver<ConnectionBlockedNotification>>),
    Gone,
}

#[derive(Clone, Debug)]
pub enum Term {
    Block,
    Eof,
    IoErr,
    Malformed,
}

pub struct World {
    probe: CoreProbe,
    pub max: u16,
    pub bound: usize,
    queues: BTreeMap<usize, QEnd>,
    next_q: usize,
    /// reply queue id -> consumer queues received on it so far
    cons_count: HashMap<usize, usize>,
    /// channel -> qid of the reply queue of the handle the client holds
    pub handle_q: HashMap<u16, usize>,
    /// channel -> qid of the reply queue created with the slot (handle maybe not received yet)
    slot_q: HashMap<u16, usize>,
    pub ops: Vec<String>,
    pub obs: Vec<String>,
    pub dead: bool,
    pub errored: bool,
    pub stats: Vec<String>,
    pub consumer_qs: Vec<usize>,
    pub listener_qs: Vec<(usize, u8)>,
    pub torn: bool,
    /// queue id -> addressee term, for the property oracles
    pub aux: Vec<(usize, String)>,
}

fn msg_coq(m: &str, payload: String) -> String {
    format!("({} {})", m, payload)
}

impl World {
    pub fn new(max: u16, bound: usize) -> World {
        World {
            probe: CoreProbe::new(max, bound).unwrap(),
            max,
            bound,
            queues: vec![(0, QEnd::Reply(0)), (1, QEnd::AllocRep)].into_iter().collect(),
            next_q: 2,
            cons_count: HashMap::new(),
            handle_q: HashMap::new(),
            slot_q: HashMap::new(),
            ops: Vec::new(),
            obs: Vec::new(),
            dead: false,
            errored: false,
            stats: Vec::new(),
            consumer_qs: Vec::new(),
            listener_qs: Vec::new(),
            torn: false,
            aux: vec![],
        }
    }

    fn digest(&self) -> String {
        let (p, _) = self.probe.phase();
        let ob = self.probe.outbuf();
        format!(
            "({}, {}, {}, {}, {})",
            p,
            ob.len(),
            wire::adler32(&ob),
            coqfmt::b(self.probe.sealed()),
            coqfmt::list(&self.probe.slot_ids(), |x| x.to_string())
        )
    }

    fn record(&mut self, op: String, ob: String) {
        let d = if self.dead || self.torn { "(9, 0, 0, false, [])".to_string() } else { self.digest() };
        self.ops.push(op);
        self.obs.push(format!("({}, {})", ob, d));
    }

    fn outcome(&mut self, r: std::thread::Result<(amiquip::Result<()>, Vec<u8>)>) -> String {
        match r {
            Err(_) => {
                self.dead = true;
                self.stats.push("PANIC".into());
                format!("BOutcome (OPanic 0) 0 {}", wire::adler32(&[]))
            }
            Ok((res, wire_bytes)) => {
                let o = match &res {
                    Ok(()) => "OOk".to_string(),
                    Err(e) => {
                        self.errored = true;
                        self.stats.push(format!("err:{}", err_to_coq(e).trim_start_matches('(').split(' ').next().unwrap()));
                        format!("(OErr {})", err_to_coq(e))
                    }
                };
                format!("BOutcome {} {} {}", o, wire_bytes.len(), wire::adler32(&wire_bytes))
            }
        }
    }

    pub fn frame(&mut self, f: &FR) {
        if self.dead || self.torn {
            return;
        }
        let amqp = f.to_amqp();
        let r = catch_unwind(AssertUnwindSafe(|| (self.probe.frame(amqp), Vec::new())));
        let ob = self.outcome(r);
        self.record(format!("OFrame {}", f.to_coq()), ob);
    }

    /// a STREAM event: optional write oracle, optional read episode (frames as bytes,
    /// cut into chunks at `cuts`, ended by `term`)
    pub fn stream(&mut self, write: Option<Vec<Wr>>, read: Option<(Vec<FR>, Term)>, rng: &mut Rng) {
        if self.dead || self.torn {
            return;
        }
        let wcoq = match &write {
            None => "None".to_string(),
            Some(ws) => format!(
                "(Some {})",
                coqfmt::list(ws, |w| match w {
                    Wr::Wrote(n) => format!("Wrote {}", n),
                    Wr::Block => "WBlock".into(),
                    Wr::Err => "WErr".into(),
                })
            ),
        };
        let (rcoq, reads) = match &read {
            None => ("None".to_string(), None),
            Some((fs, term)) => {
                let mut bytes: Vec<u8> = Vec::new();
                for f in fs {
                    bytes.extend_from_slice(&wire::encode(&f.to_amqp()));
                }
                if let Term::Malformed = term {
                    bytes.extend_from_slice(&[9, 0, 1, 0, 0, 0, 1, 7, 0xCE]);
                }
                let mut script = Vec::new();
                let mut pos = 0;
                while pos < bytes.len() {
                    let n = (rng.range(1, 4096) as usize).min(bytes.len() - pos);
                    let n = if rng.chance(1, 3) { n.min(rng.range(1, 9) as usize) } else { n };
                    script.push(Rd::Chunk(bytes[pos..pos + n].to_vec()));
                    pos += n;
                }
                script.push(match term {
                    Term::Block | Term::Malformed => Rd::Block,
                    Term::Eof => Rd::Eof,
                    Term::IoErr => Rd::IoErr,
                });
                let t = match term {
                    Term::Block => "TBlock",
                    Term::Eof => "TEof",
                    Term::IoErr => "TIoErr",
                    Term::Malformed => "TMalformed",
                };
                (
                    format!("(Some ({}, {}))", coqfmt::list(fs, |f| f.to_coq()), t),
                    Some(script),
                )
            }
        };
        let ev = ProbeEvent::Stream { write, read: reads };
        let r = catch_unwind(AssertUnwindSafe(|| self.probe.event(ev)));
        let ob = self.outcome(r);
        self.record(format!("OEvent (EvStream {} {})", wcoq, rcoq), ob);
    }

    pub fn event_chan(&mut self, n: u16) {
        if self.dead || self.torn {
            return;
        }
        let r = catch_unwind(AssertUnwindSafe(|| self.probe.event(ProbeEvent::Chan(n))));
        let ob = self.outcome(r);
        self.record(format!("OEvent (EvChan {})", n), ob);
    }

    /// the HEARTBEAT token after an absence long enough for both timers to have expired (the
    /// timers are started with 100 ms on first use; the mio-extras timer wheel ticks every
    /// 100 ms, so after 450 ms the Tx timeout (1 interval) and the Rx timeout (2 intervals)
    /// are both reported, Tx first)
    pub fn event_heartbeat_missed(&mut self) {
        if self.dead || self.torn {
            return;
        }
        let r = catch_unwind(AssertUnwindSafe(|| self.probe.event(ProbeEvent::Heartbeat { interval_ms: 100, away_ms: 450 })));
        let ob = self.outcome(r);
        self.stats.push("heartbeat-missed".into());
        self.record("OEvent (EvHeartbeat [(HbTx, true); (HbRx, true)])".into(), ob);
    }

    /// the HEARTBEAT token after an absence of one and a quarter intervals (timers started with 1 s
    /// on first use): the Tx timer has expired, the Rx timer (two intervals) has not - unless the
    /// thread oversleeps by 650 ms
    pub fn event_heartbeat_tx(&mut self) {
        if self.dead || self.torn {
            return;
        }
        let t0 = std::time::Instant::now();
        let r = catch_unwind(AssertUnwindSafe(|| self.probe.event(ProbeEvent::Heartbeat { interval_ms: 1000, away_ms: 1250 })));
        if t0.elapsed() > std::time::Duration::from_millis(1700) {
            // the thread overslept (a loaded machine): the Rx timer (due at 2 s) may or may not
            // have expired as well - the observation decides nothing, the case ends here
            self.stats.push("heartbeat-oversleep-discarded".into());
            self.dead = true; // nothing more is recorded for this case
            return;
        }
        let ob = self.outcome(r);
        self.stats.push("heartbeat-tx".into());
        self.record("OEvent (EvHeartbeat [(HbTx, true)])".into(), ob);
    }

    pub fn event_set_blocked(&mut self) {
        if self.dead || self.torn {
            return;
        }
        let r = catch_unwind(AssertUnwindSafe(|| self.probe.event(ProbeEvent::SetBlocked)));
        let ob = self.outcome(r);
        self.record("OEvent EvSetBlocked".into(), ob);
    }

    pub fn event_alloc(&mut self) {
        if self.dead || self.torn {
            return;
        }
        let before: Vec<u16> = self.probe.slot_ids();
        let r = catch_unwind(AssertUnwindSafe(|| self.probe.event(ProbeEvent::Alloc)));
        let ob = self.outcome(r);
        if !self.dead {
            let after = self.probe.slot_ids();
            for id in after {
                if !before.contains(&id) {
                    let q = self.next_q;
                    self.next_q += 1;
                    self.queues.insert(q, QEnd::Reply(id));
                    self.slot_q.insert(id, q);
                    self.aux.push((q, format!("AGetter {}", id)));
                }
            }
        }
        self.record("OEvent EvAlloc".into(), ob);
    }

    pub fn is_done(&mut self) {
        if self.dead || self.torn {
            return;
        }
        let r = catch_unwind(AssertUnwindSafe(|| self.probe.is_done()));
        let ob = match r {
            Ok(true) => "BDone DDone",
            Ok(false) => "BDone DNotDone",
            Err(_) => {
                self.dead = true;
                self.stats.push("ASSERT".into());
                "BDone DAssertFailed"
            }
        };
        self.record("OIsDone".into(), ob.into());
    }

    pub fn cl_send_bytes(&mut self, ch: u16, bytes: Vec<u8>, close: bool) {
        if self.dead {
            return;
        }
        let payload = wrap(coqfmt::bytes_rle(&bytes));
        let (m, msg) = if close {
            (msg_coq("MsgConnClose", payload), ClientMsg::ConnectionClose(bytes))
        } else {
            (msg_coq("MsgSend", payload), ClientMsg::Send(bytes))
        };
        let ok = self.probe.cl_send(ch, msg);
        self.record(format!("OClSend {} {}", ch, m), format!("BSent {}", coqfmt::b(ok)));
    }

    /// install (Some q) or clear (None) the return (kind 0) / confirm (kind 1) listener
    pub fn cl_send_listener(&mut self, ch: u16, kind: u8, q: Option<usize>) {
        if self.dead {
            return;
        }
        let qc = coqfmt::opt(&q, |x| x.to_string());
        let (m, msg) = if kind == 0 {
            let tx = q.and_then(|q| match self.queues.get_mut(&q) {
                Some(QEnd::Return(_, tx)) => tx.take(),
                _ => None,
            });
            if q.is_some() && tx.is_none() {
                return;
            }
            (format!("(MsgSetReturn {})", qc), ClientMsg::SetReturn(tx))
        } else {
            let tx = q.and_then(|q| match self.queues.get_mut(&q) {
                Some(QEnd::Confirm(_, tx)) => tx.take(),
                _ => None,
            });
            if q.is_some() && tx.is_none() {
                return;
            }
            (format!("(MsgSetConfirm {})", qc), ClientMsg::SetConfirm(tx))
        };
        let ok = self.probe.cl_send(ch, msg);
        if let (true, Some(q)) = (ok, q) {
            self.aux.retain(|(q2, _)| *q2 != q);
            self.aux.push((q, format!("{} {}", if kind == 0 { "AReturn" } else { "AConfirm" }, ch)));
        }
        self.record(format!("OClSend {} {}", ch, m), format!("BSent {}", coqfmt::b(ok)));
    }

    pub fn cl_alloc_req(&mut self, id: Option<u16>) {
        if self.dead {
            return;
        }
        let ok = self.probe.cl_alloc_req(id);
        self.record(
            format!("OClAllocReq {}", coqfmt::opt(&id, |x| x.to_string())),
            format!("BSent {}", coqfmt::b(ok)),
        );
    }

    pub fn cl_set_blocked(&mut self) -> usize {
        let (tx, rx) = crossbeam_channel::unbounded();
        let q = self.next_q;
        self.next_q += 1;
        self.queues.insert(q, QEnd::Blocked(Some(rx)));
        self.listener_qs.push((q, 2));
        self.aux.push((q, "ABlocked".into()));
        if self.dead {
            return q;
        }
        let ok = self.probe.cl_set_blocked(tx);
        self.record("OClSetBlocked".into(), format!("BNewQ {} {}", q, coqfmt::b(ok)));
        q
    }

    /// kind 0: return listener queue, 1: confirm listener queue
    pub fn cl_new_q(&mut self, kind: u8) -> usize {
        let q = self.next_q;
        self.next_q += 1;
        if kind == 0 {
            let (tx, rx) = crossbeam_channel::unbounded();
            self.queues.insert(q, QEnd::Return(Some(rx), Some(tx)));
        } else {
            let (tx, rx) = crossbeam_channel::unbounded();
            self.queues.insert(q, QEnd::Confirm(Some(rx), Some(tx)));
        }
        self.listener_qs.push((q, kind));
        if !self.dead {
            self.record("OClNewQ".into(), format!("BNewQ {} true", q));
        }
        q
    }

    fn item_coq(&mut self, ch_hint: u16, from_q: usize, it: Item) -> String {
        match it {
            Item::ReplyMethod(c) => format!("(IReplyMethod {})", class_to_coq(&c)),
            Item::ReplyConsumeOk(tag, rx) => {
                // the name the model gives the queue: reply queue id and a per-slot counter
                let k = self.cons_count.entry(from_q).or_insert(0);
                let q = (1usize << 32) + from_q * (1 << 20) + *k;
                *k += 1;
                self.queues.insert(q, QEnd::Consumer(Some(rx)));
                self.consumer_qs.push(q);
                self.aux.push((q, format!("AConsumer {} {}", ch_hint, coqfmt::string(&tag))));
                format!("(IReplyConsumeOk {} {})", coqfmt::string(&tag), q)
            }
            Item::ReplyGet(None) => "(IReplyGet None)".into(),
            Item::ReplyGet(Some(g)) => {
                format!("(IReplyGet (Some ({}, {})))", message_to_coq(&g.delivery), g.message_count)
            }
            Item::ReplyErr(e) => format!("(IReplyErr {})", err_to_coq(&e)),
            Item::Consumer(m) => consumer_msg_to_coq(&m),
            Item::Return(r) => format!(
                "(IReturn {} {} {} {} {} {})",
                r.reply_code,
                coqfmt::string(&r.reply_text),
                coqfmt::string(&r.exchange),
                coqfmt::string(&r.routing_key),
                wrap(coqfmt::bytes_rle(&r.content)),
                props_id(&r.properties)
            ),
            Item::Confirm(Confirm::Ack(p)) => format!("(IConfirm true {} {})", p.delivery_tag, coqfmt::b(p.multiple)),
            Item::Confirm(Confirm::Nack(p)) => format!("(IConfirm false {} {})", p.delivery_tag, coqfmt::b(p.multiple)),
            Item::Blocked(ConnectionBlockedNotification::Blocked(r)) => format!("(IBlocked {})", coqfmt::string(&r)),
            Item::Blocked(ConnectionBlockedNotification::Unblocked) => "IUnblocked".into(),
            Item::AllocOk(id) => {
                if let Some(q) = self.slot_q.get(&id).cloned() {
                    if let Some(old) = self.handle_q.insert(id, q) {
                        if old != q {
                            self.queues.insert(old, QEnd::Gone);
                        }
                    }
                }
                format!("(IAllocOk {})", id)
            }
            Item::AllocErr(e) => format!("(IAllocErr {})", err_to_coq(&e)),
        }
    }

    /// try_recv on queue q; returns true if an item was received
    pub fn cl_recv(&mut self, q: usize) -> bool {
        if self.dead || !self.queues.contains_key(&q) {
            return false;
        }
        fn conv<T>(r: Result<T, TryRecvError>, f: impl FnOnce(T) -> Item) -> Recv {
            match r {
                Ok(x) => Recv::Item(f(x)),
                Err(TryRecvError::Empty) => Recv::Empty,
                Err(TryRecvError::Disconnected) => Recv::Disconnected,
            }
        }
        let mut ch_hint = 0;
        let r = match &self.queues[&q] {
            QEnd::Reply(ch) => {
                ch_hint = *ch;
                if *ch != 0 && self.handle_q.get(ch) != Some(&q) {
                    return false; // the client does not hold this handle (yet / any more)
                }
                self.probe.cl_recv_reply(*ch)
            }
            QEnd::AllocRep => self.probe.cl_recv_alloc(),
            QEnd::Consumer(Some(rx)) => conv(rx.try_recv(), Item::Consumer),
            QEnd::Return(Some(rx), _) => conv(rx.try_recv(), Item::Return),
            QEnd::Confirm(Some(rx), _) => conv(rx.try_recv(), Item::Confirm),
            QEnd::Blocked(Some(rx)) => conv(rx.try_recv(), Item::Blocked),
            _ => return false,
        };
        let (ob, got) = match r {
            Recv::Item(it) => (format!("BRecv (RItem {})", self.item_coq(ch_hint, q, it)), true),
            Recv::Empty => ("BRecv REmpty".to_string(), false),
            Recv::Disconnected => ("BRecv RDisc".to_string(), false),
        };
        self.record(format!("OClRecv {}", q), ob);
        got
    }

    pub fn cl_drop_rx(&mut self, q: usize) {
        if self.dead || !self.queues.contains_key(&q) {
            return;
        }
        match self.queues.get_mut(&q).unwrap() {
            QEnd::Consumer(rx @ Some(_)) => *rx = None,
            QEnd::Return(rx @ Some(_), _) => *rx = None,
            QEnd::Confirm(rx @ Some(_), _) => *rx = None,
            QEnd::Blocked(rx @ Some(_)) => *rx = None,
            _ => return,
        }
        self.record(format!("OClDropRx {}", q), "BUnit".into());
    }

    pub fn cl_drop_handle(&mut self, ch: u16) {
        if self.dead {
            return;
        }
        if ch != 0 && !self.handle_q.contains_key(&ch) {
            return;
        }
        self.probe.cl_drop_handle(ch);
        if ch == 0 {
            self.queues.insert(0, QEnd::Gone);
            self.queues.insert(1, QEnd::Gone);
        } else if let Some(q) = self.handle_q.remove(&ch) {
            self.queues.insert(q, QEnd::Gone);
        }
        self.record(format!("OClDropHandle {}", ch), "BUnit".into());
    }

    pub fn teardown(&mut self) {
        if self.dead || self.torn {
            return;
        }
        self.probe.teardown();
        self.ops.push("OTeardown".into());
        self.obs.push("(BUnit, (9, 0, 0, false, []))".into());
        self.torn = true;
    }

    /// receive everything that can still be received, from every queue
    pub fn drain_all(&mut self) {
        // twice: consumer queues appear while reply queues are drained
        let mut qs: Vec<usize> = self.queues.keys().cloned().collect();
        qs.extend(self.queues.keys().cloned().collect::<Vec<_>>());
        for _round in 0..2 {
            qs = self.queues.keys().cloned().collect();
            for q in qs.clone() {
              for _ in 0..200 {
                if !self.cl_recv(q) {
                    break;
                }
              }
            }
        }
        let _ = qs;
    }

    pub fn method_bytes(&mut self, ch: u16, m: &SM) -> Vec<u8> {
        // what a handle would serialize for this method on this channel
        wire::encode(&amq_protocol::frame::AMQPFrame::Method(ch, m.to_class()))
    }

    pub fn open_slot_ids(&self) -> Vec<u16> {
        if self.dead || self.torn {
            return vec![];
        }
        self.probe.slot_ids()
    }

    pub fn peek_out(&mut self) {
        if self.dead || self.torn {
            return;
        }
        let ob = self.probe.outbuf();
        self.record("OPeekOut".into(), format!("BBytes {}", wrap(coqfmt::bytes_rle(&ob))));
    }

    /// buffered_writes_high_water for the channel events that follow
    pub fn set_high(&mut self, high: usize) {
        if self.dead || self.torn {
            return;
        }
        self.probe.set_high_water(high);
        self.record(format!("OSetHigh {}", high), "BUnit".into());
    }

    /// observe channels_need_repoll
    pub fn need(&mut self) {
        if self.dead || self.torn {
            return;
        }
        let b = self.probe.need_repoll();
        self.record("ONeed".into(), format!("BSent {}", coqfmt::b(b)));
    }

    pub fn phase(&self) -> u8 {
        if self.dead || self.torn {
            return 9;
        }
        self.probe.phase().0
    }

    pub fn outbuf_len(&self) -> usize {
        if self.dead || self.torn {
            return 0;
        }
        self.probe.outbuf().len()
    }

    pub fn queue_ids(&self) -> Vec<usize> {
        self.queues.keys().cloned().collect()
    }

    pub fn case_term(&self) -> String {
        format!(
            "({}, {}, [{}], [{}], {})",
            self.max,
            self.bound,
            self.ops.join("; "),
            self.obs.join("; "),
            coqfmt::list(&self.aux, |(q, a)| format!("({}, {})", q, a))
        )
    }
}

