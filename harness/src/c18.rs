//! C18 end to end: publisher threads against a transport that accepts nothing for a while.
use crate::c02::gen_body;
use crate::coqfmt::{self, CaseSink};
use crate::l2::*;
use crate::rng::Rng;
use crate::wire;
use crate::Args;
use amiquip::{AmqpProperties, Auth, Channel, Connection, ConnectionOptions, ConnectionTuning, Publish};
use amq_protocol::frame::{AMQPContentHeader, AMQPFrame};
use amq_protocol::protocol::{basic, AMQPClass};
use std::sync::atomic::{AtomicBool, AtomicU64, Ordering};
use std::sync::Arc;
use std::time::{Duration, Instant};

const BODY: usize = 200;

fn publish_frames(id: u16, rk: &str, body: &[u8]) -> Vec<Vec<u8>> {
    vec![
        wire::encode(&AMQPFrame::Method(id, AMQPClass::Basic(basic::AMQPMethod::Publish(basic::Publish {
            ticket: 0, exchange: "x".into(), routing_key: rk.to_string(), mandatory: false, immediate: false,
        })))),
        wire::encode(&AMQPFrame::Header(id, 60, Box::new(AMQPContentHeader { class_id: 60, weight: 0, body_size: body.len() as u64, properties: AmqpProperties::default() }))),
        wire::envelope(3, id, body),
    ]
}

pub struct Outcome {
    pub term: String,
    pub overshoot: Option<String>,
    pub hung_bound0: bool,
}

pub fn scenario(sub: u64) -> Option<Outcome> {
    let mut rng = Rng::new(sub);
    let bound = *rng.pick(&[1usize, 2, 16]);
    let high = *rng.pick(&[1000usize, 8000, 50_000]);
    let low = *rng.pick(&[0usize, high / 2]);
    let nch = rng.range(1, 3) as usize;
    let per_pub: u64 = 2500; // far more than any bound allows while stalled
    let open_while_throttled = rng.chance(1, 3);
    let (stream, peer) = mock_pair();
    let broker = Broker::start(peer.clone(), BrokerCfg::default());
    let tuning = ConnectionTuning::default().mem_channel_bound(bound).buffered_writes_high_water(high).buffered_writes_low_water(low);
    let mut conn = with_deadline(move || Connection::insecure_open_stream(stream, ConnectionOptions::<Auth>::default(), tuning), Duration::from_secs(5))?.ok()?;
    let chans: Vec<Channel> = (0..nch).map(|_| conn.open_channel(None)).collect::<amiquip::Result<_>>().ok()?;
    // everything so far is on the wire; now the transport accepts nothing
    let settle = Instant::now();
    while settle.elapsed() < Duration::from_millis(20) { std::thread::sleep(Duration::from_millis(2)); }
    peer.set_wpolicy(WPolicy::Stall);
    let one_publish: usize = publish_frames(1, "rk-000000", &vec![0u8; BODY]).iter().map(|f| f.len()).sum();
    let counters: Vec<Arc<AtomicU64>> = (0..nch).map(|_| Arc::new(AtomicU64::new(0))).collect();
    let stop = Arc::new(AtomicBool::new(false));
    let mut handles = Vec::new();
    for (k, ch) in chans.into_iter().enumerate() {
        let ctr = counters[k].clone();
        let seed = rng.next();
        handles.push(std::thread::spawn(move || -> amiquip::Result<(u16, Vec<Vec<u8>>)> {
            let id = ch.channel_id();
            let mut log = Vec::new();
            let mut r = Rng::new(seed);
            for i in 0..per_pub {
                let body = gen_body(r.below(251) as u8, r.range(1, 250) as u8, BODY);
                let rk = format!("rk-{:06}", i);
                ch.basic_publish("x", Publish::new(&body, rk.clone()))?;
                log.extend(publish_frames(id, &rk, &body));
                ctr.fetch_add(1, Ordering::SeqCst);
            }
            std::mem::forget(ch);
            Ok((id, log))
        }));
    }
    let total = |cs: &Vec<Arc<AtomicU64>>| cs.iter().map(|c| c.load(Ordering::SeqCst)).sum::<u64>();
    // wait until every publisher has stood still for 120 ms (not a fixed instant: how fast the
    // publishers get to the marks depends on the machine), at most 4 s
    let t0 = Instant::now();
    let mut a3 = total(&counters);
    let mut quiet_since = Instant::now();
    let mut quiet = false;
    while t0.elapsed() < Duration::from_secs(4) {
        std::thread::sleep(Duration::from_millis(10));
        let now = total(&counters);
        if now != a3 {
            a3 = now;
            quiet_since = Instant::now();
        } else if quiet_since.elapsed() >= Duration::from_millis(120) && t0.elapsed() >= Duration::from_millis(200) {
            quiet = true;
            break;
        }
    }
    // every publisher stood still although it had plenty left
    let stable = quiet && a3 < per_pub * nch as u64;
    // a channel opened while throttled (its Open cannot leave before the transport reopens)
    let mut conn_opt = Some(conn);
    let opener = if open_while_throttled {
        let stop2 = stop.clone();
        let mut conn = conn_opt.take().unwrap();
        Some(std::thread::spawn(move || -> (Connection, amiquip::Result<(u16, Vec<Vec<u8>>)>) {
            let r = (|| {
                let ch = conn.open_channel(None)?;
                let id = ch.channel_id();
                let mut log = Vec::new();
                for i in 0..5 {
                    let body = vec![i as u8; 10];
                    let rk = format!("late-{}", i);
                    ch.basic_publish("x", Publish::new(&body, rk.clone()))?;
                    log.extend(publish_frames(id, &rk, &body));
                }
                std::mem::forget(ch);
                Ok((id, log))
            })();
            let _ = stop2;
            (conn, r)
        }))
    } else {
        None
    };
    let (conn_back, opener_res) = match opener {
        Some(h) => {
            std::thread::sleep(Duration::from_millis(30));
            peer.set_wpolicy(WPolicy::All);
            let (c, r) = with_deadline(move || h.join().ok(), Duration::from_secs(20))??;
            (c, Some(r))
        }
        None => {
            peer.set_wpolicy(WPolicy::All);
            (conn_opt.take().unwrap(), None)
        }
    };
    // the transport accepts again: every blocked publisher must get through
    let joined = with_deadline(move || handles.into_iter().map(|h| h.join()).collect::<Vec<_>>(), Duration::from_secs(25));
    let mut logs: Vec<(u16, Vec<Vec<u8>>)> = Vec::new();
    let mut resumed = true;
    match joined {
        None => resumed = false,
        Some(rs) => {
            for r in rs {
                match r {
                    Ok(Ok(l)) => logs.push(l),
                    _ => resumed = false,
                }
            }
        }
    }
    match opener_res {
        Some(Ok(l)) => logs.push(l),
        Some(Err(_)) => resumed = false,
        None => {}
    }
    let closed = with_deadline(move || conn_back.close(), Duration::from_secs(10));
    if !matches!(closed, Some(Ok(()))) {
        resumed = false;
    }
    peer.wait(|s| s.dropped, Duration::from_secs(2));
    let _ = broker.stop();
    let out = peer.out();
    let hdr = out.len() >= 8 && &out[..8] == b"AMQP\x00\x00\x09\x01";
    let (raw, rest) = if out.len() >= 8 { wire::split(&out[8..]) } else { (vec![], vec![]) };
    let bad_end = raw.iter().any(|f| !f.end_ok);
    let wire_frames: Vec<(u16, u64)> = raw.iter().filter(|f| f.ch != 0).map(|f| (f.ch, wire::adler32(&wire::envelope(f.ty, f.ch, &f.payload)))).collect();
    let issued: Vec<(u16, Vec<u64>)> = logs
        .iter()
        .map(|(ch, frames)| {
            let open = wire::encode(&AMQPFrame::Method(*ch, AMQPClass::Channel(amq_protocol::protocol::channel::AMQPMethod::Open(amq_protocol::protocol::channel::Open { out_of_band: "".into() }))));
            let mut v = vec![wire::adler32(&open)];
            v.extend(frames.iter().map(|f| wire::adler32(f)));
            (*ch, v)
        })
        .collect();
    let c01 = format!(
        "({}, {}, {}, {})",
        coqfmt::b(hdr && !bad_end), rest.len(),
        coqfmt::list(&issued, |(ch, v)| format!("({}, {})", ch, coqfmt::list(v, |x| x.to_string()))),
        coqfmt::list(&wire_frames, |(ch, a)| format!("({}, {})", ch, a))
    );
    let term = format!("(({}, {}, {}), {}, {}, {}, {}, {}, {})", bound, high, low, nch, one_publish, a3, coqfmt::b(stable), coqfmt::b(resumed), c01);
    let allowed = high as u64 + (nch * (bound + 2) * one_publish) as u64;
    let overshoot = if a3 * one_publish as u64 > allowed {
        Some(format!("bound={} high={} channels={}: {} bytes accepted while stalled, tuning allows {}", bound, high, nch, a3 * one_publish as u64, allowed))
    } else {
        None
    };
    Some(Outcome { term, overshoot, hung_bound0: false })
}

/// An adversarial but legitimate schedule, made reproducible by the scheduling-point hook: the
/// I/O thread is slow between two receives of its per-channel drain loop (200 us each time)
/// while a publisher floods tiny nowait calls.  Returns (bytes accepted while the transport
/// is stalled, still growing at the end, what the tuning allows).
pub fn adversarial_drain() -> Option<(u64, bool, u64)> {
    let (bound, high) = (16usize, 1000usize);
    let (stream, peer) = mock_pair();
    let broker = Broker::start(peer.clone(), BrokerCfg::default());
    let tuning = ConnectionTuning::default().mem_channel_bound(bound).buffered_writes_high_water(high).buffered_writes_low_water(0);
    let mut conn = with_deadline(move || Connection::insecure_open_stream(stream, ConnectionOptions::<Auth>::default(), tuning), Duration::from_secs(5))?.ok()?;
    let ch = conn.open_channel(None).ok()?;
    std::thread::sleep(Duration::from_millis(20));
    peer.set_wpolicy(WPolicy::Stall);
    amiquip::verif::set_sched_delay(1, 200);
    let ctr = Arc::new(AtomicU64::new(0));
    let c2 = ctr.clone();
    std::thread::spawn(move || {
        for _ in 0..5_000_000u64 {
            if ch.ack_all().is_err() {
                break;
            }
            c2.fetch_add(1, Ordering::SeqCst);
        }
        std::mem::forget(ch);
    });
    std::thread::sleep(Duration::from_millis(300));
    let a = ctr.load(Ordering::SeqCst);
    std::thread::sleep(Duration::from_millis(100));
    let b = ctr.load(Ordering::SeqCst);
    amiquip::verif::set_sched_delay(1, 0);
    peer.set_wpolicy(WPolicy::All);
    std::mem::forget(conn);
    let _ = broker.stop();
    let frame = 21u64; // Basic.Ack as a method frame
    Some((b * frame, b > a, high as u64 + (bound as u64 + 2) * frame))
}

/// mem_channel_bound = 0: does the first call on a channel get through at all?
pub fn bound_zero() -> bool {
    let (stream, peer) = mock_pair();
    let broker = Broker::start(peer.clone(), BrokerCfg::default());
    let tuning = ConnectionTuning::default().mem_channel_bound(0);
    let r = with_deadline(
        move || -> amiquip::Result<()> {
            let mut conn = Connection::insecure_open_stream(stream, ConnectionOptions::<Auth>::default(), tuning)?;
            let ch = conn.open_channel(None)?;
            ch.qos(0, 1, false)?;
            std::mem::forget(ch);
            std::mem::forget(conn);
            Ok(())
        },
        Duration::from_millis(1500),
    );
    let _ = broker.stop();
    r.is_none()
}

pub fn run(a: &Args) {
    let mut sink = CaseSink::new("C18", "C18", &a.out, 8);
    let mut rng = Rng::new(a.seed ^ 0xC18);
    let mut over: Vec<String> = Vec::new();
    if let Some(pos) = a.rest.iter().position(|x| x == "--line") {
        let sub: u64 = a.rest[pos + 1].split_whitespace().last().unwrap().parse().unwrap();
        if let Some(o) = scenario(sub) {
            sink.push_line(o.term, true, format!("l2 {}", sub));
        }
        sink.finish("");
        return;
    }
    let subs: Vec<u64> = (0..a.n).map(|_| rng.next()).collect();
    for chunk in subs.chunks(4) {
        if crate::l2::timeouts() >= crate::l2::ENOUGH_TIMEOUTS {
            sink.count("stopped-early-after-timeouts");
            break;
        }
        let hs: Vec<_> = chunk.iter().map(|&s| std::thread::spawn(move || (s, crate::l2::watchdog(format!("l2 {}", s), 150, move || scenario(s))))).collect();
        for h in hs {
            match h.join() {
                Ok((s, Some(o))) => {
                    sink.count("scenario");
                    if let Some(t) = o.overshoot {
                        sink.count("overshoot");
                        over.push(t);
                    }
                    sink.push_line(o.term, true, format!("l2 {}", s));
                }
                _ => sink.count("setup_failed"),
            }
        }
    }
    // alone, after everything else: the delay is process-wide
    if let Some((bytes, growing, allowed)) = adversarial_drain() {
        sink.count(if bytes > allowed { "adversarial:overshoot" } else { "adversarial:bounded" });
        if bytes > allowed {
            over.push(format!(
                "I/O thread slow between two receives of handle_channel_readable (sched_point 1, 200 us), mem_channel_bound=16, high water 1000 B, one publisher flooding ack_all: {} bytes accepted while stalled{}, the tuning allows {}",
                bytes, if growing { " and still growing" } else { "" }, allowed
            ));
        }
    }
    let hung0 = bound_zero();
    sink.count(if hung0 { "bound0:hangs" } else { "bound0:works" });
    let mut dv = Vec::new();
    if !over.is_empty() {
        dv.push(format!("{{\"id\":\"drain-overshoot\",\"count\":{},\"line\":\"\",\"what\":{}}}", over.len(), coqfmt::json_str(&over[0])));
    }
    if hung0 {
        dv.push("{\"id\":\"bound-zero-deadlock\",\"line\":\"\",\"what\":\"mem_channel_bound = 0: the first call on a channel never returns\"}".to_string());
    }
    let extra = format!("\"direct_violations\":[{}]", dv.join(","));
    sink.finish(&extra);
}
