//! C02: real `Channel::basic_publish` / `Exchange::publish` over a real connection on the
//! mock transport; the frames the broker sees per channel are judged in Coq.
use crate::absframe::{props_id, props_of, N_PROPS};
use crate::coqfmt::{self, CaseSink};
use crate::l2::*;
use crate::rng::Rng;
use crate::wire;
use crate::Args;
use amiquip::{Auth, Connection, ConnectionOptions, ConnectionTuning, ExchangeDeclareOptions, ExchangeType, Publish};
use amq_protocol::frame::AMQPFrame;
use amq_protocol::protocol::{basic, AMQPClass};
use std::time::Duration;

#[derive(Clone, Debug)]
pub struct Pub {
    pub exchange: String,
    pub rk: String,
    pub mandatory: bool,
    pub immediate: bool,
    pub props: u8,
    pub a: u8,
    pub b: u8,
    pub len: usize,
    pub via_exchange: bool,
}

pub fn gen_body(a: u8, b: u8, len: usize) -> Vec<u8> {
    (0..len).map(|i| ((a as u64 + i as u64 * b as u64) % 251) as u8).collect()
}

fn pub_coq(p: &Pub) -> String {
    format!(
        "({}, {}, {}, {}, {}, ({}, {}, {}))",
        coqfmt::string(&p.exchange),
        coqfmt::string(&p.rk),
        coqfmt::b(p.mandatory),
        coqfmt::b(p.immediate),
        p.props,
        p.a,
        p.b,
        p.len
    )
}

fn oframe_coq(f: &AMQPFrame) -> String {
    match f {
        AMQPFrame::Method(_, AMQPClass::Basic(basic::AMQPMethod::Publish(p))) => format!(
            "OM {} {} {} {} {}",
            coqfmt::string(&p.exchange),
            coqfmt::string(&p.routing_key),
            coqfmt::b(p.mandatory),
            coqfmt::b(p.immediate),
            p.ticket
        ),
        AMQPFrame::Header(_, class_id, h) => {
            // class id appears twice on the wire; both must be 60
            let c = if *class_id == h.class_id { *class_id as u64 } else { 9999 };
            format!("OH {} {} {}", c, h.body_size, props_id(&h.properties))
        }
        AMQPFrame::Body(_, b) => format!("OB {} {}", b.len(), wire::adler32(b)),
        _ => "OOther".to_string(),
    }
}

/// one connection: (client frame_max option, server frame_max), publishes per channel
pub fn run_conn(client_fm: u32, server_fm: u32, plans: Vec<Vec<Pub>>) -> Option<(u32, Vec<(Vec<Pub>, Vec<AMQPFrame>)>)> {
    let (stream, peer) = mock_pair();
    let broker = Broker::start(peer.clone(), BrokerCfg { tune: (2047, server_fm, 0), ..Default::default() });
    let plans2 = plans.clone();
    let r = with_deadline(
        move || -> amiquip::Result<Vec<u16>> {
            let opts = ConnectionOptions::<Auth>::default().frame_max(client_fm);
            let mut conn = Connection::insecure_open_stream(stream, opts, ConnectionTuning::default())?;
            let mut ids = vec![];
            let mut chans = vec![];
            for _ in 0..plans2.len() {
                let ch = conn.open_channel(None)?;
                ids.push(ch.channel_id());
                chans.push(ch);
            }
            // interleave the channels' publishes round-robin
            let maxlen = plans2.iter().map(|p| p.len()).max().unwrap_or(0);
            for i in 0..maxlen {
                for (k, plan) in plans2.iter().enumerate() {
                    if let Some(p) = plan.get(i) {
                        let body = gen_body(p.a, p.b, p.len);
                        let msg = Publish { body: &body, routing_key: p.rk.clone(), mandatory: p.mandatory, immediate: p.immediate, properties: props_of(p.props) };
                        if p.via_exchange {
                            // Exchange::publish goes through the same path with the exchange's name
                            let ex = chans[k].exchange_declare_nowait(ExchangeType::Direct, p.exchange.clone(), ExchangeDeclareOptions::default());
                            match ex {
                                Ok(ex) => ex.publish(msg)?,
                                Err(e) => return Err(e),
                            }
                        } else {
                            chans[k].basic_publish(p.exchange.clone(), msg)?;
                        }
                    }
                }
            }
            conn.close()?;
            Ok(ids)
        },
        Duration::from_secs(60),
    );
    let ids = match r {
        Some(Ok(ids)) => ids,
        _ => {
            broker.stop();
            return None;
        }
    };
    peer.wait(|s| s.dropped, Duration::from_secs(2));
    let log = broker.stop();
    if log.bad_stream {
        return None;
    }
    let mut negotiated = 0;
    for f in &log.frames {
        if let AMQPFrame::Method(0, AMQPClass::Connection(amq_protocol::protocol::connection::AMQPMethod::TuneOk(t))) = f {
            negotiated = t.frame_max;
        }
    }
    let mut out = vec![];
    for (k, id) in ids.iter().enumerate() {
        let fs: Vec<AMQPFrame> = log
            .frames
            .iter()
            .filter(|f| match f {
                AMQPFrame::Method(c, AMQPClass::Channel(_)) if c == id => false,
                AMQPFrame::Method(c, AMQPClass::Exchange(_)) if c == id => false,
                AMQPFrame::Method(c, _) | AMQPFrame::Header(c, _, _) | AMQPFrame::Body(c, _) => c == id,
                _ => false,
            })
            .cloned()
            .collect();
        out.push((plans[k].clone(), fs));
    }
    Some((negotiated, out))
}

fn rand_pub(rng: &mut Rng, limit: usize, kmax: u64) -> Pub {
    let len = match rng.below(12) {
        0 | 1 => 0,
        2 => 1,
        3 => limit - 1,
        4 | 5 => limit * rng.range(1, kmax) as usize,
        6 => limit * rng.range(1, kmax) as usize + 1,
        7 => limit * rng.range(1, kmax) as usize - 1,
        8 => limit + rng.range(2, 200) as usize,
        _ => rng.range(2, 600) as usize,
    };
    let strs = ["", "x", "amq.topic", "a.b.c", "logs"];
    let long = "k".repeat(255);
    Pub {
        exchange: if rng.chance(1, 25) { long.clone() } else { rng.pick(&strs).to_string() },
        rk: if rng.chance(1, 25) { long } else { rng.pick(&strs).to_string() },
        mandatory: rng.boolean(),
        immediate: rng.boolean(),
        props: rng.below(N_PROPS as u64) as u8,
        a: rng.below(251) as u8,
        b: rng.range(1, 250) as u8,
        len,
        via_exchange: rng.chance(1, 5),
    }
}

fn emit(sink: &mut CaseSink, kind: &str, client_fm: u32, server_fm: u32, plans: Vec<Vec<Pub>>) {
    let line = format!("{} {} {}", client_fm, server_fm, serde_plans(&plans));
    match run_conn(client_fm, server_fm, plans) {
        None => {
            sink.count("conn_failed");
            // a publish that cannot be made is a failure of the property's premise "every
            // publish reaches the wire": recorded as a case with nothing observed
            sink.push_line("(4096, [([], [], false, false, 0, (0, 1, 1))], [])".to_string(), true, line);
        }
        Some((neg, per_chan)) => {
            for (plan, fs) in per_chan {
                sink.count(&format!("kind:{}", kind));
                sink.count(&format!("frame_max:{}", neg));
                for p in &plan {
                    let limit = if neg == 0 { usize::MAX } else { neg as usize - 8 };
                    let cls = if p.len == 0 { "len:0" } else if p.len % limit == 0 { "len:k*limit" } else if p.len < limit { "len:<limit" } else { "len:>limit" };
                    sink.count(cls);
                }
                let term = format!("({}, {}, {})", neg, coqfmt::list(&plan, pub_coq), coqfmt::list(&fs, oframe_coq));
                sink.push_line(term, !plan.is_empty(), line.clone());
            }
        }
    }
}

fn serde_plans(plans: &[Vec<Pub>]) -> String {
    plans
        .iter()
        .map(|pl| {
            pl.iter()
                .map(|p| format!("{}:{}:{}:{}:{}:{}:{}:{}:{}", hex(&p.exchange), hex(&p.rk), p.mandatory as u8, p.immediate as u8, p.props, p.a, p.b, p.len, p.via_exchange as u8))
                .collect::<Vec<_>>()
                .join(",")
        })
        .collect::<Vec<_>>()
        .join("|")
}
fn hex(s: &str) -> String {
    if s.is_empty() { "-".into() } else { s.bytes().map(|b| format!("{:02x}", b)).collect() }
}
fn unhex(s: &str) -> String {
    if s == "-" { return String::new(); }
    let b: Vec<u8> = (0..s.len() / 2).map(|i| u8::from_str_radix(&s[2 * i..2 * i + 2], 16).unwrap()).collect();
    String::from_utf8(b).unwrap()
}
fn parse_plans(s: &str) -> Vec<Vec<Pub>> {
    s.split('|')
        .map(|pl| {
            pl.split(',')
                .filter(|x| !x.is_empty())
                .map(|p| {
                    let f: Vec<&str> = p.split(':').collect();
                    Pub {
                        exchange: unhex(f[0]), rk: unhex(f[1]), mandatory: f[2] == "1", immediate: f[3] == "1",
                        props: f[4].parse().unwrap(), a: f[5].parse().unwrap(), b: f[6].parse().unwrap(),
                        len: f[7].parse().unwrap(), via_exchange: f[8] == "1",
                    }
                })
                .collect()
        })
        .collect()
}

pub fn run(a: &Args) {
    let mut sink = CaseSink::new("C02", "C02", &a.out, 8);
    let mut rng = Rng::new(a.seed ^ 0xC02);
    if let Some(pos) = a.rest.iter().position(|x| x == "--line") {
        let line = a.rest[pos + 1].clone();
        let mut it = line.split_whitespace();
        let (c, s, p) = (it.next().unwrap().parse().unwrap(), it.next().unwrap().parse().unwrap(), it.next().unwrap_or(""));
        emit(&mut sink, "replay", c, s, parse_plans(p));
        sink.finish("");
        return;
    }
    // directed sweep: every boundary length for each negotiated frame_max
    let fms: &[(u32, u32)] = if a.tier == "thorough" {
        &[(0, 4096), (4096, 0), (0, 4097), (8192, 131072), (0, 65536), (0, 131072), (5000, 4999 + 1)]
    } else {
        &[(0, 4096), (4097, 0)]
    };
    let thorough = a.tier == "thorough";
    for &(c, s) in fms {
        let neg = if c == 0 { s } else if s == 0 { c } else { c.min(s) };
        let limit = neg as usize - 8;
        let mut plan = vec![];
        for k in 0..=3usize {
            for d in [-1i64, 0, 1] {
                let len = (k * limit) as i64 + d;
                if len >= 0 {
                    let mut p = rand_pub(&mut rng, limit, 1);
                    p.len = len as usize;
                    plan.push(p);
                }
            }
        }
        emit(&mut sink, "sweep", c, s, vec![plan]);
    }
    let mut done = 0;
    while done < a.n {
        if crate::l2::timeouts() >= crate::l2::ENOUGH_TIMEOUTS {
            sink.count("stopped-early-after-timeouts");
            break;
        }
        let (c, s) = if thorough {
            *rng.pick(&[(0u32, 4096u32), (4096, 0), (0, 4097), (4100, 8192), (0, 5000), (0, 16384), (0, 131072)])
        } else {
            *rng.pick(&[(0u32, 4096u32), (4096, 0), (0, 4097), (4100, 8192), (0, 5000)])
        };
        let neg = if c == 0 { s } else if s == 0 { c } else { c.min(s) };
        let limit = neg as usize - 8;
        let nch = rng.range(1, 3) as usize;
        let plans: Vec<Vec<Pub>> = (0..nch).map(|_| (0..rng.range(1, 5)).map(|_| rand_pub(&mut rng, limit, if thorough { 3 } else { 2 })).collect()).collect();
        done += plans.iter().map(|p| p.len() as u64).sum::<u64>();
        emit(&mut sink, "random", c, s, plans);
    }
    sink.finish("");
}
