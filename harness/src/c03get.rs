//! C03, the answer to a get, end to end: Channel::basic_get on a real connection; the broker
//! answers with Get-Empty or with Get-Ok + content header + body frames (the body in any
//! partition, heartbeat frames in between, the byte stream cut anywhere); what each call
//! returned - delivery tag, redelivered, exchange, routing key, body, properties, message count -
//! must be exactly what was sent for that very get, in order.
use crate::absframe::{props_id, props_of};
use crate::coqfmt::{self, CaseSink};
use crate::l2::*;
use crate::rng::Rng;
use crate::wire;
use crate::Args;
use amiquip::{Auth, Connection, ConnectionOptions, ConnectionTuning};
use amq_protocol::frame::{AMQPContentHeader, AMQPFrame};
use amq_protocol::protocol::{basic, channel, connection, AMQPClass};
use std::collections::VecDeque;
use std::sync::atomic::{AtomicBool, Ordering};
use std::sync::{Arc, Mutex};
use std::time::Duration;

#[derive(Clone)]
struct Msg {
    dtag: u64,
    red: bool,
    exch: String,
    rk: String,
    body: Vec<u8>,
    props: u8,
    count: u32,
}

fn msg_coq(m: &Msg) -> String {
    format!(
        "({}, {}, {}, {}, {}, {}, {})",
        m.dtag,
        coqfmt::b(m.red),
        coqfmt::string(&m.exch),
        coqfmt::string(&m.rk),
        crate::absframe::wrap(coqfmt::bytes_rle(&m.body)),
        m.props,
        m.count
    )
}

fn answer_bytes(ch: u16, a: &Option<Msg>, rng: &mut Rng) -> Vec<u8> {
    let mut frames: Vec<AMQPFrame> = Vec::new();
    match a {
        None => frames.push(AMQPFrame::Method(ch, AMQPClass::Basic(basic::AMQPMethod::GetEmpty(basic::GetEmpty { cluster_id: "".into() })))),
        Some(m) => {
            frames.push(AMQPFrame::Method(ch, AMQPClass::Basic(basic::AMQPMethod::GetOk(basic::GetOk {
                delivery_tag: m.dtag, redelivered: m.red, exchange: m.exch.clone(), routing_key: m.rk.clone(), message_count: m.count,
            }))));
            if rng.chance(1, 4) {
                frames.push(AMQPFrame::Heartbeat(0));
            }
            frames.push(AMQPFrame::Header(ch, 60, Box::new(AMQPContentHeader { class_id: 60, weight: 0, body_size: m.body.len() as u64, properties: props_of(m.props) })));
            let mut pos = 0;
            while pos < m.body.len() {
                if rng.chance(1, 5) {
                    frames.push(AMQPFrame::Heartbeat(0));
                }
                let k = match rng.below(3) { 0 => 1, 1 => m.body.len() - pos, _ => rng.range(1, (m.body.len() - pos) as u64) as usize };
                frames.push(AMQPFrame::Body(ch, m.body[pos..pos + k].to_vec()));
                pos += k;
            }
        }
    }
    let mut bytes = Vec::new();
    for f in &frames {
        bytes.extend_from_slice(&wire::encode(f));
    }
    bytes
}

fn broker(peer: Peer, script: Arc<Mutex<VecDeque<Option<Msg>>>>, seed: u64, stop: Arc<AtomicBool>) {
    let mut rng = Rng::new(seed);
    let mut seen = 0usize;
    let mut header_done = false;
    let mut last_len = 0usize;
    loop {
        if stop.load(Ordering::SeqCst) || peer.dropped() {
            return;
        }
        peer.wait(|s| s.out.len() > last_len || s.dropped, Duration::from_millis(10));
        let bytes = peer.out();
        last_len = bytes.len();
        if !header_done {
            if bytes.len() >= 8 {
                header_done = true;
                peer.push_frames(&[start_frame("PLAIN", "en_US")]);
            } else {
                continue;
            }
        }
        let frames = match client_frames(&bytes) {
            Some((f, _)) => f,
            None => { eprintln!("c03get broker: client stream does not parse"); return; }
        };
        while seen < frames.len() {
            let f = frames[seen].clone();
            seen += 1;
            if let AMQPFrame::Method(ch, m) = &f {
                match m {
                    AMQPClass::Connection(connection::AMQPMethod::StartOk(_)) => peer.push_frames(&[tune_frame(2047, 131072, 0)]),
                    AMQPClass::Connection(connection::AMQPMethod::Open(_)) => peer.push_frames(&[open_ok_frame()]),
                    AMQPClass::Connection(connection::AMQPMethod::Close(_)) => {
                        peer.push_frames(&[AMQPFrame::Method(0, AMQPClass::Connection(connection::AMQPMethod::CloseOk(connection::CloseOk {})))]);
                    }
                    AMQPClass::Channel(channel::AMQPMethod::Open(_)) => {
                        peer.push_frames(&[AMQPFrame::Method(*ch, AMQPClass::Channel(channel::AMQPMethod::OpenOk(channel::OpenOk { channel_id: "".into() })))]);
                    }
                    AMQPClass::Channel(channel::AMQPMethod::Close(_)) => {
                        peer.push_frames(&[AMQPFrame::Method(*ch, AMQPClass::Channel(channel::AMQPMethod::CloseOk(channel::CloseOk {})))]);
                    }
                    AMQPClass::Basic(basic::AMQPMethod::Qos(_)) => {
                        peer.push_frames(&[AMQPFrame::Method(*ch, AMQPClass::Basic(basic::AMQPMethod::QosOk(basic::QosOk {})))]);
                    }
                    AMQPClass::Basic(basic::AMQPMethod::Get(_)) => {
                        let a = script.lock().unwrap().pop_front().unwrap_or(None);
                        let bytes = answer_bytes(*ch, &a, &mut rng);
                        // the byte stream in pieces
                        let mut pos = 0;
                        while pos < bytes.len() {
                            let k = match rng.below(3) { 0 => rng.range(1, 9) as usize, 1 => rng.range(1, 300) as usize, _ => bytes.len() }.min(bytes.len() - pos);
                            peer.push(bytes[pos..pos + k].to_vec());
                            pos += k;
                        }
                    }
                    _ => {}
                }
            }
        }
    }
}

pub fn scenario(sub: u64) -> Option<String> {
    let mut rng = Rng::new(sub);
    let n = rng.range(1, 4) as usize;
    let answers: Vec<Option<Msg>> = (0..n)
        .map(|i| {
            if rng.chance(1, 4) {
                None
            } else {
                let len = *rng.pick(&[0usize, 1, 10, 300, 4088, 5000]);
                let b0 = rng.below(250) as u8;
                Some(Msg {
                    dtag: rng.pick(&[1u64, 2, 255, 65536, u64::MAX - 8]).wrapping_add(i as u64),
                    red: rng.boolean(),
                    exch: rng.pick(&["", "x", "amq.direct", "\u{e9}\u{20ac}"]).to_string(),
                    rk: rng.pick(&["", "rk", "a.longer.key"]).to_string(),
                    body: (0..len).map(|j| if j == 0 { b0.wrapping_add(1) } else { b0 }).collect(),
                    props: rng.below(4) as u8,
                    count: *rng.pick(&[0u32, 1, 7, u32::MAX]),
                })
            }
        })
        .collect();
    let script = Arc::new(Mutex::new(answers.iter().cloned().collect::<VecDeque<_>>()));
    let (stream, peer) = mock_pair();
    let stop = Arc::new(AtomicBool::new(false));
    let (p2, s2, st2, bseed) = (peer.clone(), script.clone(), stop.clone(), rng.next());
    let bh = std::thread::spawn(move || broker(p2, s2, bseed, st2));
    let mut conn = with_deadline(
        move || Connection::insecure_open_stream(stream, ConnectionOptions::<Auth>::default(), ConnectionTuning::default()),
        Duration::from_secs(5),
    )?
    .ok()?;
    let ch = conn.open_channel(None).ok()?;
    let mut got: Vec<String> = Vec::new();
    let mut failed = false;
    for _ in 0..n {
        match ch.basic_get("q", rng.boolean()) {
            Ok(None) => got.push("None".into()),
            Ok(Some(g)) => {
                let d = &g.delivery;
                got.push(format!(
                    "(Some ({}, {}, {}, {}, {}, {}, {}))",
                    d.delivery_tag(),
                    coqfmt::b(d.redelivered),
                    coqfmt::string(&d.exchange),
                    coqfmt::string(&d.routing_key),
                    crate::absframe::wrap(coqfmt::bytes_rle(&d.body)),
                    props_id(&d.properties),
                    g.message_count
                ));
            }
            Err(_) => {
                failed = true;
                break;
            }
        }
    }
    let alive = ch.qos(0, 1, false).is_ok();
    std::mem::forget(ch);
    let closed = matches!(with_deadline(move || conn.close(), Duration::from_secs(5)), Some(Ok(())));
    stop.store(true, Ordering::SeqCst);
    let _ = bh.join();
    Some(format!(
        "({}, {}, {}, {})",
        coqfmt::list(&answers, |a| match a { None => "None".to_string(), Some(m) => format!("(Some {})", msg_coq(m)) }),
        coqfmt::list(&got, |g| g.clone()),
        coqfmt::b(failed),
        coqfmt::b(alive && closed)
    ))
}

pub fn run(a: &Args) {
    let mut sink = CaseSink::new("C03", "C03get", &a.out, 50);
    let mut rng = Rng::new(a.seed ^ 0xC03_6e7);
    let subs: Vec<u64> = if let Some(pos) = a.rest.iter().position(|x| x == "--line") {
        vec![a.rest[pos + 1].split_whitespace().last().unwrap().parse().unwrap()]
    } else {
        (0..a.n).map(|_| rng.next()).collect()
    };
    for chunk in subs.chunks(8) {
        if crate::l2::timeouts() >= crate::l2::ENOUGH_TIMEOUTS {
            sink.count("stopped-early-after-timeouts");
            break;
        }
        let hs: Vec<_> = chunk.iter().map(|&s| std::thread::spawn(move || (s, crate::l2::watchdog(format!("l2 {}", s), 150, move || scenario(s))))).collect();
        for h in hs {
            match h.join() {
                Ok((s, Some(term))) => {
                    sink.count("scenario");
                    sink.push_line(term, true, format!("l2 {}", s));
                }
                _ => sink.count("setup_failed"),
            }
        }
    }
    sink.finish("");
}
