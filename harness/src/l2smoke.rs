//! smoke test of the L2 layer
use crate::l2::*;
use crate::Args;
use amiquip::{Connection, ConnectionOptions, ConnectionTuning, Auth, QueueDeclareOptions, Publish};
use std::time::{Duration, Instant};

pub fn run(_a: &Args) {
    let t0 = Instant::now();
    let (stream, peer) = mock_pair();
    let broker = Broker::start(peer.clone(), BrokerCfg::default());
    let r = with_deadline(
        move || -> amiquip::Result<u32> {
            let mut conn = Connection::insecure_open_stream(stream, ConnectionOptions::<Auth>::default(), ConnectionTuning::default())?;
            let ch = conn.open_channel(None)?;
            let q = ch.queue_declare("hello", QueueDeclareOptions::default())?;
            let n = q.declared_message_count().unwrap_or(0);
            ch.basic_publish("", Publish::new(b"hi there", "hello"))?;
            ch.close()?;
            conn.close()?;
            Ok(n)
        },
        Duration::from_secs(10),
    );
    println!("result: {:?} in {:?}", r, t0.elapsed());
    let dropped = peer.wait(|s| s.dropped, Duration::from_secs(2));
    let log = broker.stop();
    for f in &log.frames {
        println!("  {:?}", f);
    }
    println!("dropped={} bad_stream={}", dropped, log.bad_stream);
}
