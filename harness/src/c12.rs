//! C12: every public operation of Channel / Queue / Exchange / Consumer / Delivery / Get is
//! called on a real connection (mock transport, scripted broker); what the broker decodes
//! on the operation's channel is judged in Coq against the model's table and the
//! documentation table.
use crate::coqfmt::{self, CaseSink};
use crate::l2::*;
use crate::rng::Rng;
use crate::Args;
use amiquip::{
    Auth, Channel, Connection, ConnectionOptions, ConnectionTuning, ConsumerMessage, ConsumerOptions, Delivery,
    ExchangeDeclareOptions, ExchangeType, FieldTable, QueueDeclareOptions, QueueDeleteOptions,
};
use amq_protocol::frame::AMQPFrame;
use amq_protocol::protocol::{basic, channel, confirm, exchange, queue, AMQPClass};
use amq_protocol::types::AMQPValue;
use std::panic::{catch_unwind, AssertUnwindSafe};
use std::time::{Duration, Instant};

#[derive(Clone, Debug)]
pub enum FV {
    S(String),
    N(u64),
    B(bool),
    T(u64),
}

pub fn table(id: u64) -> FieldTable {
    let mut t = FieldTable::new();
    match id {
        1 => {
            t.insert("x-max-length".into(), AMQPValue::LongInt(10));
        }
        2 => {
            let mut inner = FieldTable::new();
            inner.insert("deep".into(), AMQPValue::Boolean(true));
            t.insert("x-match".into(), AMQPValue::LongString("all".into()));
            t.insert("n".into(), AMQPValue::FieldTable(inner));
            t.insert("big".into(), AMQPValue::LongLongInt(-9_000_000_000));
        }
        _ => {}
    }
    t
}
fn table_id(t: &FieldTable) -> u64 {
    for id in 0..3 {
        if *t == table(id) {
            return id;
        }
    }
    999
}

fn to_meth(c: &AMQPClass) -> (u64, u64, Vec<FV>) {
    use FV::*;
    match c {
        AMQPClass::Basic(basic::AMQPMethod::Qos(m)) => (60, 10, vec![N(m.prefetch_size as u64), N(m.prefetch_count as u64), B(m.global)]),
        AMQPClass::Basic(basic::AMQPMethod::Recover(m)) => (60, 110, vec![B(m.requeue)]),
        AMQPClass::Confirm(confirm::AMQPMethod::Select(m)) => (85, 10, vec![B(m.nowait)]),
        AMQPClass::Queue(queue::AMQPMethod::Declare(m)) => (50, 10, vec![N(m.ticket as u64), S(m.queue.clone()), B(m.passive), B(m.durable), B(m.exclusive), B(m.auto_delete), B(m.nowait), T(table_id(&m.arguments))]),
        AMQPClass::Basic(basic::AMQPMethod::Get(m)) => (60, 70, vec![N(m.ticket as u64), S(m.queue.clone()), B(m.no_ack)]),
        AMQPClass::Basic(basic::AMQPMethod::Consume(m)) => (60, 20, vec![N(m.ticket as u64), S(m.queue.clone()), S(m.consumer_tag.clone()), B(m.no_local), B(m.no_ack), B(m.exclusive), B(m.nowait), T(table_id(&m.arguments))]),
        AMQPClass::Queue(queue::AMQPMethod::Bind(m)) => (50, 20, vec![N(m.ticket as u64), S(m.queue.clone()), S(m.exchange.clone()), S(m.routing_key.clone()), B(m.nowait), T(table_id(&m.arguments))]),
        AMQPClass::Queue(queue::AMQPMethod::Unbind(m)) => (50, 50, vec![N(m.ticket as u64), S(m.queue.clone()), S(m.exchange.clone()), S(m.routing_key.clone()), T(table_id(&m.arguments))]),
        AMQPClass::Queue(queue::AMQPMethod::Purge(m)) => (50, 30, vec![N(m.ticket as u64), S(m.queue.clone()), B(m.nowait)]),
        AMQPClass::Queue(queue::AMQPMethod::Delete(m)) => (50, 40, vec![N(m.ticket as u64), S(m.queue.clone()), B(m.if_unused), B(m.if_empty), B(m.nowait)]),
        AMQPClass::Exchange(exchange::AMQPMethod::Declare(m)) => (40, 10, vec![N(m.ticket as u64), S(m.exchange.clone()), S(m.type_.clone()), B(m.passive), B(m.durable), B(m.auto_delete), B(m.internal), B(m.nowait), T(table_id(&m.arguments))]),
        AMQPClass::Exchange(exchange::AMQPMethod::Bind(m)) => (40, 30, vec![N(m.ticket as u64), S(m.destination.clone()), S(m.source.clone()), S(m.routing_key.clone()), B(m.nowait), T(table_id(&m.arguments))]),
        AMQPClass::Exchange(exchange::AMQPMethod::Unbind(m)) => (40, 40, vec![N(m.ticket as u64), S(m.destination.clone()), S(m.source.clone()), S(m.routing_key.clone()), B(m.nowait), T(table_id(&m.arguments))]),
        AMQPClass::Exchange(exchange::AMQPMethod::Delete(m)) => (40, 20, vec![N(m.ticket as u64), S(m.exchange.clone()), B(m.if_unused), B(m.nowait)]),
        AMQPClass::Basic(basic::AMQPMethod::Ack(m)) => (60, 80, vec![N(m.delivery_tag), B(m.multiple)]),
        AMQPClass::Basic(basic::AMQPMethod::Nack(m)) => (60, 120, vec![N(m.delivery_tag), B(m.multiple), B(m.requeue)]),
        AMQPClass::Basic(basic::AMQPMethod::Reject(m)) => (60, 90, vec![N(m.delivery_tag), B(m.requeue)]),
        AMQPClass::Basic(basic::AMQPMethod::Cancel(m)) => (60, 30, vec![S(m.consumer_tag.clone()), B(m.nowait)]),
        AMQPClass::Channel(channel::AMQPMethod::Close(m)) => (20, 40, vec![N(m.reply_code as u64), S(m.reply_text.clone()), N(m.class_id as u64), N(m.method_id as u64)]),
        _ => (0, 0, vec![]),
    }
}


/// Hand-written decoder for the client-side methods (independent of amq-protocol, whose
/// server-side parser mis-reads some flag bits - it is never used by a client in production).
#[derive(Clone, Copy)]
enum Ft { Short, Long, LongLong, ShortStr, Bits(u8), Table }

fn schema(class: u16, method: u16) -> Option<&'static [Ft]> {
    use Ft::*;
    Some(match (class, method) {
        (60, 10) => &[Long, Short, Bits(1)],
        (60, 110) => &[Bits(1)],
        (85, 10) => &[Bits(1)],
        (50, 10) => &[Short, ShortStr, Bits(5), Table],
        (60, 70) => &[Short, ShortStr, Bits(1)],
        (60, 20) => &[Short, ShortStr, ShortStr, Bits(4), Table],
        (50, 20) => &[Short, ShortStr, ShortStr, ShortStr, Bits(1), Table],
        (50, 50) => &[Short, ShortStr, ShortStr, ShortStr, Table],
        (50, 30) => &[Short, ShortStr, Bits(1)],
        (50, 40) => &[Short, ShortStr, Bits(3)],
        (40, 10) => &[Short, ShortStr, ShortStr, Bits(5), Table],
        (40, 30) | (40, 40) => &[Short, ShortStr, ShortStr, ShortStr, Bits(1), Table],
        (40, 20) => &[Short, ShortStr, Bits(2)],
        (60, 80) => &[LongLong, Bits(1)],
        (60, 120) => &[LongLong, Bits(2)],
        (60, 90) => &[LongLong, Bits(1)],
        (60, 30) => &[ShortStr, Bits(1)],
        (20, 40) => &[Short, ShortStr, Short, Short],
        _ => return None,
    })
}

fn table_bytes(id: u64) -> Vec<u8> {
    // the pool tables as amq-protocol's generator writes them (inside a Queue.Declare)
    let m = AMQPFrame::Method(1, AMQPClass::Queue(queue::AMQPMethod::Declare(queue::Declare {
        ticket: 0, queue: "".into(), passive: false, durable: false, exclusive: false, auto_delete: false, nowait: false, arguments: table(id),
    })));
    let b = crate::wire::encode(&m);
    // envelope(7) class(2) method(2) ticket(2) shortstr(1) bits(1) | table | end(1)
    b[7 + 2 + 2 + 2 + 1 + 1..b.len() - 1].to_vec()
}

pub fn parse_raw_method(payload: &[u8]) -> (u64, u64, Vec<FV>) {
    if payload.len() < 4 {
        return (0, 0, vec![]);
    }
    let class = u16::from_be_bytes([payload[0], payload[1]]);
    let method = u16::from_be_bytes([payload[2], payload[3]]);
    let sch = match schema(class, method) {
        Some(s) => s,
        None => return (class as u64, method as u64, vec![FV::S("<unknown method>".into())]),
    };
    let mut p = 4usize;
    let mut out = Vec::new();
    let bad = |out: &mut Vec<FV>| out.push(FV::S("<truncated>".into()));
    for ft in sch {
        match ft {
            Ft::Short => { if p + 2 > payload.len() { bad(&mut out); break; } out.push(FV::N(u16::from_be_bytes([payload[p], payload[p + 1]]) as u64)); p += 2; }
            Ft::Long => { if p + 4 > payload.len() { bad(&mut out); break; } out.push(FV::N(u32::from_be_bytes([payload[p], payload[p + 1], payload[p + 2], payload[p + 3]]) as u64)); p += 4; }
            Ft::LongLong => {
                if p + 8 > payload.len() { bad(&mut out); break; }
                let mut b = [0u8; 8]; b.copy_from_slice(&payload[p..p + 8]);
                out.push(FV::N(u64::from_be_bytes(b))); p += 8;
            }
            Ft::ShortStr => {
                if p >= payload.len() { bad(&mut out); break; }
                let l = payload[p] as usize;
                if p + 1 + l > payload.len() { bad(&mut out); break; }
                out.push(FV::S(String::from_utf8_lossy(&payload[p + 1..p + 1 + l]).to_string())); p += 1 + l;
            }
            Ft::Bits(n) => {
                if p >= payload.len() { bad(&mut out); break; }
                let b = payload[p];
                for i in 0..*n { out.push(FV::B(b & (1 << i) != 0)); }
                if b >> *n != 0 { out.push(FV::S("<extra flag bits>".into())); }
                p += 1;
            }
            Ft::Table => {
                if p + 4 > payload.len() { bad(&mut out); break; }
                let l = u32::from_be_bytes([payload[p], payload[p + 1], payload[p + 2], payload[p + 3]]) as usize;
                if p + 4 + l > payload.len() { bad(&mut out); break; }
                let raw = &payload[p..p + 4 + l];
                let id = (0..3).find(|id| table_bytes(*id) == raw).unwrap_or(999);
                out.push(FV::T(id)); p += 4 + l;
            }
        }
    }
    if p != payload.len() {
        out.push(FV::S("<trailing bytes>".into()));
    }
    (class as u64, method as u64, out)
}

fn meth_coq(m: &(u64, u64, Vec<FV>)) -> String {
    format!(
        "({}, {}, {})",
        m.0,
        m.1,
        coqfmt::list(&m.2, |f| match f {
            FV::S(s) => format!("VStr {}", coqfmt::string(s)),
            FV::N(n) => format!("VNum {}", n),
            FV::B(b) => format!("VBool {}", coqfmt::b(*b)),
            FV::T(t) => format!("VTab {}", t),
        })
    )
}

#[derive(Clone, Debug)]
pub enum Op {
    Qos(u32, u16, bool),
    Recover(bool),
    ConfirmSelect(bool),
    QueueDeclare { mode: u8, name: String, durable: bool, exclusive: bool, auto_delete: bool, args: u64 },
    Get { wrapper: bool, queue: String, no_ack: bool },
    Consume { wrapper: bool, queue: String, no_local: bool, no_ack: bool, exclusive: bool, args: u64 },
    QueueBind { wrapper: bool, nowait: bool, queue: String, exchange: String, rk: String, args: u64 },
    QueueUnbind { wrapper: bool, queue: String, exchange: String, rk: String, args: u64 },
    QueuePurge { wrapper: bool, nowait: bool, queue: String },
    QueueDelete { wrapper: bool, nowait: bool, queue: String, if_unused: bool, if_empty: bool },
    ExchangeDeclare { mode: u8, ty: String, name: String, durable: bool, auto_delete: bool, internal: bool, args: u64 },
    ExchangeBind { side: u8, nowait: bool, unbind: bool, me: String, other: String, rk: String, args: u64 },
    ExchangeDelete { wrapper: bool, nowait: bool, name: String, if_unused: bool },
    AckAll,
    NackAll(bool),
    Settle { how: u8, holder: u8, dtag: u64, requeue: bool, same: bool },
    Cancel { tag: String, already: bool, by_drop: bool },
    ChannelClose,
}

fn via(w: bool) -> &'static str {
    if w { "ViaWrapper" } else { "ViaChannel" }
}
fn dmode(m: u8) -> &'static str {
    ["DSync", "DNowait", "DPassive"][m as usize]
}

fn op_coq(o: &Op) -> String {
    use coqfmt::{b, string as s};
    match o {
        Op::Qos(a, c, g) => format!("AQos {} {} {}", a, c, b(*g)),
        Op::Recover(r) => format!("ARecover {}", b(*r)),
        Op::ConfirmSelect(n) => format!("AConfirmSelect {}", b(*n)),
        Op::QueueDeclare { mode, name, durable, exclusive, auto_delete, args } => {
            format!("AQueueDeclare {} {} {} {} {} {}", dmode(*mode), s(name), b(*durable), b(*exclusive), b(*auto_delete), args)
        }
        Op::Get { wrapper, queue, no_ack } => format!("AGet {} {} {}", via(*wrapper), s(queue), b(*no_ack)),
        Op::Consume { wrapper, queue, no_local, no_ack, exclusive, args } => {
            format!("AConsume {} {} {} {} {} {}", via(*wrapper), s(queue), b(*no_local), b(*no_ack), b(*exclusive), args)
        }
        Op::QueueBind { wrapper, nowait, queue, exchange, rk, args } => {
            format!("AQueueBind {} {} {} {} {} {}", via(*wrapper), b(*nowait), s(queue), s(exchange), s(rk), args)
        }
        Op::QueueUnbind { wrapper, queue, exchange, rk, args } => format!("AQueueUnbind {} {} {} {} {}", via(*wrapper), s(queue), s(exchange), s(rk), args),
        Op::QueuePurge { wrapper, nowait, queue } => format!("AQueuePurge {} {} {}", via(*wrapper), b(*nowait), s(queue)),
        Op::QueueDelete { wrapper, nowait, queue, if_unused, if_empty } => {
            format!("AQueueDelete {} {} {} {} {}", via(*wrapper), b(*nowait), s(queue), b(*if_unused), b(*if_empty))
        }
        Op::ExchangeDeclare { mode, ty, name, durable, auto_delete, internal, args } => {
            format!("AExchangeDeclare {} {} {} {} {} {} {}", dmode(*mode), s(ty), s(name), b(*durable), b(*auto_delete), b(*internal), args)
        }
        Op::ExchangeBind { side, nowait, unbind, me, other, rk, args } => format!(
            "AExchangeBind {} {} {} {} {} {} {}",
            ["BChannel", "BToSource", "BToDestination"][*side as usize], b(*nowait), b(*unbind), s(me), s(other), s(rk), args
        ),
        Op::ExchangeDelete { wrapper, nowait, name, if_unused } => format!("AExchangeDelete {} {} {} {}", via(*wrapper), b(*nowait), s(name), b(*if_unused)),
        Op::AckAll => "AAckAll".into(),
        Op::NackAll(r) => format!("ANackAll {}", b(*r)),
        Op::Settle { how, holder, dtag, requeue, same } => format!(
            "ASettle {} {} {} {} {}",
            ["SAck", "SAckMultiple", "SNack", "SNackMultiple", "SReject"][*how as usize],
            ["HDelivery", "HGet", "HConsumer"][*holder as usize], dtag, b(*requeue), b(*same)
        ),
        Op::Cancel { tag, already, .. } => format!("ACancel {} {}", s(tag), b(*already)),
        Op::ChannelClose => "AChannelClose".into(),
    }
}

pub struct Session {
    pub conn: Connection,
    pub broker: Broker,
    pub peer: Peer,
}

impl Session {
    pub fn open() -> Option<Session> {
        let (stream, peer) = mock_pair();
        let broker = Broker::start(peer.clone(), BrokerCfg { message_on_get: true, deliver_on_consume: true, ..Default::default() });
        let conn = with_deadline(move || Connection::insecure_open_stream(stream, ConnectionOptions::<Auth>::default(), ConnectionTuning::default()), Duration::from_secs(5))?.ok()?;
        Some(Session { conn, broker, peer })
    }
    /// raw frames the client has written so far (after the protocol header)
    pub fn raw(&self) -> Vec<crate::wire::RawFrame> {
        let out = self.peer.out();
        if out.len() < 8 { return vec![]; }
        crate::wire::split(&out[8..]).0
    }
    /// wait until no new frame has been written for a little while
    pub fn settle(&self) -> usize {
        let mut last = self.raw().len();
        let mut stable_since = Instant::now();
        let deadline = Instant::now() + Duration::from_millis(400);
        loop {
            std::thread::sleep(Duration::from_micros(700));
            let n = self.raw().len();
            if n != last {
                last = n;
                stable_since = Instant::now();
            } else if stable_since.elapsed() > Duration::from_millis(6) {
                return n;
            }
            if Instant::now() > deadline {
                return n;
            }
        }
    }
}

/// a synchronous round trip on a channel: when it returns, everything handed to that channel
/// before has been written (same mailbox, same out-buffer, in order) - the observation window
/// of an operation is delimited by these instead of by waiting for the wire to go quiet
const BARRIER: (u32, u16) = (0x0BA2_21E2, 54321);
fn barrier(ch: &Channel) -> bool {
    ch.qos(BARRIER.0, BARRIER.1, false).is_ok()
}
fn is_barrier(f: &crate::wire::RawFrame) -> bool {
    if f.ty != 1 {
        return false;
    }
    let (c, m, fs) = parse_raw_method(&f.payload);
    c == 60 && m == 10 && matches!(fs.as_slice(), [FV::N(a), FV::N(b), FV::B(false)] if *a == BARRIER.0 as u64 && *b == BARRIER.1 as u64)
}

fn get_delivery(ch: &Channel) -> Option<(amiquip::Consumer, Delivery)> {
    let c = ch.basic_consume("q-for-delivery", ConsumerOptions::default()).ok()?;
    match c.receiver().recv_timeout(Duration::from_secs(2)) {
        Ok(ConsumerMessage::Delivery(d)) => Some((c, d)),
        _ => None,
    }
}

fn etype(ty: &str) -> ExchangeType {
    match ty {
        "direct" => ExchangeType::Direct,
        "fanout" => ExchangeType::Fanout,
        "topic" => ExchangeType::Topic,
        "headers" => ExchangeType::Headers,
        other => ExchangeType::Custom(other.to_string()),
    }
}

/// run one operation; returns (op with observed tags filled in, methods on the op's channel
/// or None if it panicked having sent nothing, anything on another channel, call failed)
pub fn run_op(sess: &mut Session, mut op: Op) -> Option<(Op, Option<Vec<((u64, u64, Vec<FV>), Vec<u8>)>>, bool, bool)> {
    let ch = sess.conn.open_channel(None).ok()?;
    let ch_other = sess.conn.open_channel(None).ok()?;
    let mut target = ch.channel_id();
    let result = {
    // ---- setup (its frames are not part of the observation) ----
    let mut consumer: Option<amiquip::Consumer> = None;
    let mut consumer_other: Option<amiquip::Consumer> = None;
    let mut delivery: Option<Delivery> = None;
    let mut get: Option<amiquip::Get> = None;
    match &mut op {
        Op::Settle { holder, dtag, same, .. } => {
            match *holder {
                0 => {
                    let (c, d) = get_delivery(&ch)?;
                    *dtag = d.delivery_tag();
                    consumer = Some(c);
                    delivery = Some(d);
                    if !*same {
                        target = ch_other.channel_id();
                    }
                }
                1 => {
                    let g = ch.basic_get("q-for-get", false).ok()??;
                    *dtag = g.delivery.delivery_tag();
                    get = Some(g);
                    if !*same {
                        target = ch_other.channel_id();
                    }
                }
                _ => {
                    // through a Consumer of `ch`; the delivery is its own, or another channel's
                    let (c, d) = get_delivery(&ch)?;
                    if *same {
                        *dtag = d.delivery_tag();
                        delivery = Some(d);
                    } else {
                        let (c2, d2) = get_delivery(&ch_other)?;
                        *dtag = d2.delivery_tag();
                        delivery = Some(d2);
                        consumer_other = Some(c2);
                    }
                    consumer = Some(c);
                }
            }
        }
        Op::Cancel { tag, already, .. } => {
            let (c, _d) = get_delivery(&ch)?;
            *tag = c.consumer_tag().to_string();
            if *already {
                c.cancel().ok()?;
            }
            consumer = Some(c);
        }
        _ => {}
    }
    let base = if barrier(&ch) && barrier(&ch_other) { sess.raw().len() } else { sess.settle() };
    let mut failed = false;
    let mut panicked = false;
    // ---- the operation ----
    {
        let chref = &ch;
        let other = &ch_other;
        let r = catch_unwind(AssertUnwindSafe(|| -> amiquip::Result<()> {
            match &op {
                Op::Qos(a, c, g) => chref.qos(*a, *c, *g),
                Op::Recover(r) => chref.recover(*r),
                Op::ConfirmSelect(n) => if *n { chref.enable_publisher_confirms_nowait() } else { chref.enable_publisher_confirms() },
                Op::QueueDeclare { mode, name, durable, exclusive, auto_delete, args } => {
                    let o = QueueDeclareOptions { durable: *durable, exclusive: *exclusive, auto_delete: *auto_delete, arguments: table(*args) };
                    match mode {
                        0 => chref.queue_declare(name.clone(), o).map(|_| ()),
                        1 => chref.queue_declare_nowait(name.clone(), o).map(|_| ()),
                        _ => chref.queue_declare_passive(name.clone()).map(|_| ()),
                    }
                }
                Op::Get { wrapper, queue, no_ack } => {
                    if *wrapper { unreachable!() } else { chref.basic_get(queue.clone(), *no_ack).map(|_| ()) }
                }
                Op::Consume { wrapper, queue, no_local, no_ack, exclusive, args } => {
                    let o = ConsumerOptions { no_local: *no_local, no_ack: *no_ack, exclusive: *exclusive, arguments: table(*args) };
                    if *wrapper { unreachable!() } else {
                        let c = chref.basic_consume(queue.clone(), o)?;
                        std::mem::forget(c); // no cancel-on-drop inside the observation window
                        Ok(())
                    }
                }
                Op::QueueBind { wrapper, nowait, queue, exchange, rk, args } => {
                    if *wrapper { unreachable!() }
                    else if *nowait { chref.queue_bind_nowait(queue.clone(), exchange.clone(), rk.clone(), table(*args)) }
                    else { chref.queue_bind(queue.clone(), exchange.clone(), rk.clone(), table(*args)) }
                }
                Op::QueueUnbind { wrapper, queue, exchange, rk, args } => {
                    if *wrapper { unreachable!() } else { chref.queue_unbind(queue.clone(), exchange.clone(), rk.clone(), table(*args)) }
                }
                Op::QueuePurge { wrapper, nowait, queue } => {
                    if *wrapper { unreachable!() }
                    else if *nowait { chref.queue_purge_nowait(queue.clone()) } else { chref.queue_purge(queue.clone()).map(|_| ()) }
                }
                Op::QueueDelete { wrapper, nowait, queue, if_unused, if_empty } => {
                    let o = QueueDeleteOptions { if_unused: *if_unused, if_empty: *if_empty };
                    if *wrapper { unreachable!() }
                    else if *nowait { chref.queue_delete_nowait(queue.clone(), o) } else { chref.queue_delete(queue.clone(), o).map(|_| ()) }
                }
                Op::ExchangeDeclare { mode, ty, name, durable, auto_delete, internal, args } => {
                    let o = ExchangeDeclareOptions { durable: *durable, auto_delete: *auto_delete, internal: *internal, arguments: table(*args) };
                    match mode {
                        0 => chref.exchange_declare(etype(ty), name.clone(), o).map(|_| ()),
                        1 => chref.exchange_declare_nowait(etype(ty), name.clone(), o).map(|_| ()),
                        _ => chref.exchange_declare_passive(name.clone()).map(|_| ()),
                    }
                }
                Op::ExchangeBind { side, nowait, unbind, me, other: oth, rk, args } => {
                    if *side != 0 { unreachable!() }
                    match (*unbind, *nowait) {
                        (false, false) => chref.exchange_bind(me.clone(), oth.clone(), rk.clone(), table(*args)),
                        (false, true) => chref.exchange_bind_nowait(me.clone(), oth.clone(), rk.clone(), table(*args)),
                        (true, false) => chref.exchange_unbind(me.clone(), oth.clone(), rk.clone(), table(*args)),
                        (true, true) => chref.exchange_unbind_nowait(me.clone(), oth.clone(), rk.clone(), table(*args)),
                    }
                }
                Op::ExchangeDelete { wrapper, nowait, name, if_unused } => {
                    if *wrapper { unreachable!() }
                    else if *nowait { chref.exchange_delete_nowait(name.clone(), *if_unused) } else { chref.exchange_delete(name.clone(), *if_unused) }
                }
                Op::AckAll => chref.ack_all(),
                Op::NackAll(r) => chref.nack_all(*r),
                Op::Settle { how, holder, requeue, same, .. } => {
                    let tgt: &Channel = if *same { chref } else { other };
                    match *holder {
                        0 => {
                            let d = delivery.take().unwrap();
                            match how { 0 => d.ack(tgt), 1 => d.ack_multiple(tgt), 2 => d.nack(tgt, *requeue), 3 => d.nack_multiple(tgt, *requeue), _ => d.reject(tgt, *requeue) }
                        }
                        1 => {
                            let g = get.take().unwrap();
                            match how { 0 => g.ack(tgt), 1 => g.ack_multiple(tgt), 2 => g.nack(tgt, *requeue), 3 => g.nack_multiple(tgt, *requeue), _ => g.reject(tgt, *requeue) }
                        }
                        _ => {
                            let c = consumer.as_ref().unwrap();
                            let d = delivery.take().unwrap();
                            match how { 0 => c.ack(d), 1 => c.ack_multiple(d), 2 => c.nack(d, *requeue), 3 => c.nack_multiple(d, *requeue), _ => c.reject(d, *requeue) }
                        }
                    }
                }
                Op::Cancel { by_drop, .. } => {
                    let c = consumer.take().unwrap();
                    if *by_drop { drop(c); Ok(()) } else { let r = c.cancel(); std::mem::forget(c); r }
                }
                Op::ChannelClose => unreachable!(),
            }
        }));
        match r {
            Err(_) => panicked = true,
            Ok(Err(_)) => failed = true,
            Ok(Ok(())) => {}
        }
    }
    let end = if barrier(&ch) && barrier(&ch_other) { sess.raw().len() } else { sess.settle() };
    let frames = sess.raw();
    let end = end.min(frames.len());
    let mut on_target = Vec::new();
    let mut other_ch = false;
    for f in &frames[base.min(end)..end] {
        if is_barrier(f) {
            continue;
        }
        if f.ty == 1 && f.ch == target && f.end_ok {
            on_target.push((parse_raw_method(&f.payload), f.payload.clone()));
        } else if f.ty != 8 {
            other_ch = true;
        }
    }
    let obs = if panicked && on_target.is_empty() { None } else { Some(on_target) };
    // ---- cleanup (outside the observation window) ----
    if let Some(c) = consumer.take() { std::mem::forget(c); }
    if let Some(c) = consumer_other.take() { std::mem::forget(c); }
    (op, obs, other_ch, failed)
    };
    let _ = ch.close();
    let _ = ch_other.close();
    sess.settle();
    Some(result)
}

/// operations that go through Queue / Exchange wrapper objects or consume the channel
pub fn run_op_wrapped(sess: &mut Session, mut op: Op) -> Option<(Op, Option<Vec<((u64, u64, Vec<FV>), Vec<u8>)>>, bool, bool)> {
    let ch = sess.conn.open_channel(None).ok()?;
    let target = ch.channel_id();
    let mut failed = false;
    let mut panicked = false;
    let base;
    // for exchange-to-exchange bindings the other exchange lives on another channel (kept open
    // until the observation is over: its own close must not be mistaken for output of the call)
    let ch2 = if let Op::ExchangeBind { .. } = &op { Some(sess.conn.open_channel(None).ok()?) } else { None };
    {
        // wrapper objects come from nowait declares (setup)
        let qname = match &op {
            Op::Get { queue, .. } | Op::Consume { queue, .. } | Op::QueueBind { queue, .. } | Op::QueueUnbind { queue, .. }
            | Op::QueuePurge { queue, .. } | Op::QueueDelete { queue, .. } => queue.clone(),
            _ => "unused-q".into(),
        };
        let (me, other) = match &op {
            Op::ExchangeBind { me, other, .. } => (me.clone(), other.clone()),
            Op::QueueBind { exchange, .. } | Op::QueueUnbind { exchange, .. } => (exchange.clone(), "unused-x".into()),
            Op::ExchangeDelete { name, .. } => (name.clone(), "unused-x".into()),
            _ => ("unused-x1".into(), "unused-x2".into()),
        };
        let qobj = if qname.is_empty() {
            None
        } else if qname == "@srv" {
            // declared with the empty name: the broker names it (amq.gen-<seq>) and reports
            // 1000 + seq messages; the operation is then expected on THAT name
            let q = ch.queue_declare("", QueueDeclareOptions::default()).ok()?;
            let seq = q.declared_message_count()?.checked_sub(1000)?;
            let real = format!("amq.gen-{}", seq);
            match &mut op {
                Op::Get { queue, .. } | Op::Consume { queue, .. } | Op::QueueBind { queue, .. } | Op::QueueUnbind { queue, .. }
                | Op::QueuePurge { queue, .. } | Op::QueueDelete { queue, .. } => *queue = real,
                _ => {}
            }
            Some(q)
        } else {
            ch.queue_declare_nowait(qname.clone(), QueueDeclareOptions::default()).ok()
        };
        let x_me = ch.exchange_declare_nowait(ExchangeType::Direct, me.clone(), ExchangeDeclareOptions::default()).ok()?;
        // the other exchange lives on another channel of the connection: whatever is emitted has
        // to go out on the channel of the handle the call is made on
        let x_other = ch2.as_ref().unwrap_or(&ch).exchange_declare_nowait(ExchangeType::Direct, other.clone(), ExchangeDeclareOptions::default()).ok()?;
        base = if barrier(&ch) && ch2.as_ref().map_or(true, |c| barrier(c)) { sess.raw().len() } else { sess.settle() };
        let r = catch_unwind(AssertUnwindSafe(|| -> amiquip::Result<()> {
            match &op {
                Op::Get { no_ack, .. } => qobj.as_ref().unwrap().get(*no_ack).map(|_| ()),
                Op::Consume { no_local, no_ack, exclusive, args, .. } => {
                    let o = ConsumerOptions { no_local: *no_local, no_ack: *no_ack, exclusive: *exclusive, arguments: table(*args) };
                    let c = qobj.as_ref().unwrap().consume(o)?;
                    std::mem::forget(c);
                    Ok(())
                }
                Op::QueueBind { nowait, rk, args, .. } => {
                    if *nowait { qobj.as_ref().unwrap().bind_nowait(&x_me, rk.clone(), table(*args)) } else { qobj.as_ref().unwrap().bind(&x_me, rk.clone(), table(*args)) }
                }
                Op::QueueUnbind { rk, args, .. } => qobj.as_ref().unwrap().unbind(&x_me, rk.clone(), table(*args)),
                Op::QueuePurge { nowait, .. } => if *nowait { qobj.as_ref().unwrap().purge_nowait() } else { qobj.as_ref().unwrap().purge().map(|_| ()) },
                Op::QueueDelete { .. } | Op::ExchangeDelete { .. } | Op::ChannelClose => Ok(()), // by-value: below
                Op::ExchangeBind { side, nowait, unbind, rk, args, .. } => match (*side, *unbind, *nowait) {
                    (1, false, false) => x_me.bind_to_source(&x_other, rk.clone(), table(*args)),
                    (1, false, true) => x_me.bind_to_source_nowait(&x_other, rk.clone(), table(*args)),
                    (1, true, false) => x_me.unbind_from_source(&x_other, rk.clone(), table(*args)),
                    (1, true, true) => x_me.unbind_from_source_nowait(&x_other, rk.clone(), table(*args)),
                    (_, false, false) => x_me.bind_to_destination(&x_other, rk.clone(), table(*args)),
                    (_, false, true) => x_me.bind_to_destination_nowait(&x_other, rk.clone(), table(*args)),
                    (_, true, false) => x_me.unbind_from_destination(&x_other, rk.clone(), table(*args)),
                    (_, true, true) => x_me.unbind_from_destination_nowait(&x_other, rk.clone(), table(*args)),
                },
                _ => unreachable!(),
            }
        }));
        match r {
            Err(_) => panicked = true,
            Ok(Err(_)) => failed = true,
            Ok(Ok(())) => {}
        }
        // by-value wrappers
        match &op {
            Op::QueueDelete { nowait, if_unused, if_empty, .. } => {
                panicked = false;
                let o = QueueDeleteOptions { if_unused: *if_unused, if_empty: *if_empty };
                let q = qobj.unwrap();
                let r = if *nowait { q.delete_nowait(o) } else { q.delete(o).map(|_| ()) };
                failed = r.is_err();
            }
            Op::ExchangeDelete { nowait, if_unused, .. } => {
                panicked = false;
                let r = if *nowait { x_me.delete_nowait(*if_unused) } else { x_me.delete(*if_unused) };
                failed = r.is_err();
            }
            _ => {}
        }
    }
    let mut close_base = None;
    let end;
    if let Op::ChannelClose = &op {
        close_base = Some(if barrier(&ch) && ch2.as_ref().map_or(true, |c| barrier(c)) { sess.raw().len() } else { sess.settle() });
        failed = ch.close().is_err();
        panicked = false;
        // Channel::close is a round trip itself
        end = if !failed { sess.raw().len() } else { sess.settle() };
    } else {
        end = if barrier(&ch) && ch2.as_ref().map_or(true, |c| barrier(c)) { sess.raw().len() } else { sess.settle() };
    }
    let frames = sess.raw();
    let end = end.min(frames.len());
    let start = close_base.unwrap_or(base);
    let mut on_target = Vec::new();
    let mut other_ch = false;
    for f in &frames[start.min(end)..end] {
        if is_barrier(f) {
            continue;
        }
        if f.ty == 1 && f.ch == target && f.end_ok {
            on_target.push((parse_raw_method(&f.payload), f.payload.clone()));
        } else if f.ty != 8 {
            other_ch = true;
        }
    }
    let obs = if panicked && on_target.is_empty() { None } else { Some(on_target) };
    drop(ch2);
    sess.settle();
    Some((op, obs, other_ch, failed))
}

fn name(rng: &mut Rng, kind: &str) -> String {
    match rng.below(12) {
        // a queue the SERVER names: operations through its handle must carry the name the
        // broker assigned in its DeclareOk (wrapped operations only; elsewhere just a name)
        3 | 4 if kind == "q" => "@srv".into(),
        0 => format!("{}-{}", kind, "n".repeat(240)),
        1 => format!("{}.\u{00e9}\u{4e16}", kind),
        2 => format!("{} with space", kind),
        _ => format!("{}-{}", kind, rng.below(1000)),
    }
}

pub fn random_op(rng: &mut Rng, k: u64) -> Op {
    let bb = |rng: &mut Rng| rng.boolean();
    let args = rng.below(3);
    let rk = if rng.chance(1, 6) { String::new() } else { name(rng, "rk") };
    match k % 30 {
        0 => Op::Qos(*rng.pick(&[0u32, 1, u32::MAX, 65536]), *rng.pick(&[0u16, 1, 65535, 250]), bb(rng)),
        1 => Op::Recover(bb(rng)),
        2 => Op::ConfirmSelect(bb(rng)),
        3 | 4 => Op::QueueDeclare { mode: rng.below(3) as u8, name: name(rng, "q"), durable: bb(rng), exclusive: bb(rng), auto_delete: bb(rng), args },
        5 => Op::QueueDeclare { mode: *rng.pick(&[0u8, 2]), name: String::new(), durable: bb(rng), exclusive: bb(rng), auto_delete: bb(rng), args },
        6 => Op::Get { wrapper: bb(rng), queue: name(rng, "q"), no_ack: bb(rng) },
        7 => Op::Consume { wrapper: bb(rng), queue: name(rng, "q"), no_local: bb(rng), no_ack: bb(rng), exclusive: bb(rng), args },
        8 | 9 => Op::QueueBind { wrapper: bb(rng), nowait: bb(rng), queue: name(rng, "q"), exchange: name(rng, "x"), rk, args },
        10 => Op::QueueUnbind { wrapper: bb(rng), queue: name(rng, "q"), exchange: name(rng, "x"), rk, args },
        11 => Op::QueuePurge { wrapper: bb(rng), nowait: bb(rng), queue: name(rng, "q") },
        12 | 13 => Op::QueueDelete { wrapper: bb(rng), nowait: bb(rng), queue: name(rng, "q"), if_unused: bb(rng), if_empty: bb(rng) },
        14 | 15 => Op::ExchangeDeclare {
            mode: rng.below(3) as u8,
            ty: rng.pick(&["direct", "fanout", "topic", "headers", "x-custom"]).to_string(),
            name: name(rng, "x"), durable: bb(rng), auto_delete: bb(rng), internal: bb(rng), args,
        },
        16..=19 => Op::ExchangeBind { side: rng.below(3) as u8, nowait: bb(rng), unbind: bb(rng), me: name(rng, "xa"), other: name(rng, "xb"), rk, args },
        20 => Op::ExchangeDelete { wrapper: bb(rng), nowait: bb(rng), name: name(rng, "x"), if_unused: bb(rng) },
        21 => Op::AckAll,
        22 => Op::NackAll(bb(rng)),
        23..=27 => Op::Settle { how: rng.below(5) as u8, holder: rng.below(3) as u8, dtag: 0, requeue: bb(rng), same: !rng.chance(1, 4) },
        28 => Op::Cancel { tag: String::new(), already: bb(rng), by_drop: bb(rng) },
        _ => Op::ChannelClose,
    }
}

fn is_wrapped(op: &Op) -> bool {
    match op {
        Op::Get { wrapper, .. } | Op::Consume { wrapper, .. } | Op::QueueBind { wrapper, .. } | Op::QueueUnbind { wrapper, .. }
        | Op::QueuePurge { wrapper, .. } | Op::QueueDelete { wrapper, .. } | Op::ExchangeDelete { wrapper, .. } => *wrapper,
        Op::ExchangeBind { side, .. } => *side != 0,
        Op::ChannelClose => true,
        _ => false,
    }
}

pub fn run(a: &Args) {
    let mut sink = CaseSink::new("C12", "C12", &a.out, 100);
    // the argument tables of the pool as the client's library encodes them (without the length)
    sink.prelude = format!(
        "Definition pool_tables : list (N * bytes) := {}.",
        coqfmt::list(&[0u64, 1, 2], |id| format!("({}, {})", id, coqfmt::bytes(&table_bytes(*id)[4..])))
    );
    let mut rng = Rng::new(a.seed ^ 0xC12);
    let mut sess = match Session::open() {
        Some(s) => s,
        None => {
            sink.count("session_failed");
            sink.push_line("(AAckAll, Some [], false, true, [], pool_tables)".into(), true, "session".into());
            sink.finish("");
            return;
        }
    };
    let mut since_open = 0;
    let mut i = 0u64;
    while i < a.n {
        if crate::l2::timeouts() >= crate::l2::ENOUGH_TIMEOUTS {
            sink.count("stopped-early-after-timeouts");
            break;
        }
        // a queue-with-empty-name nowait declare panics by design (documented): skipped
        let mut op = random_op(&mut rng, i);
        if let Op::QueueDeclare { mode: 1, name, .. } = &mut op {
            if name.is_empty() {
                *name = "q-nonempty".into();
            }
        }
        i += 1;
        since_open += 1;
        if since_open > 150 {
            // fresh connection now and then (channel ids are reused anyway)
            if let Some(s) = Session::open() {
                let old = std::mem::replace(&mut sess, s);
                std::mem::forget(old.conn);
                old.broker.stop();
            }
            since_open = 0;
        }
        let kind = format!("{:?}", op).split(|c: char| !c.is_alphanumeric()).next().unwrap_or("?").to_string();
        let line = format!("{:?}", op).replace('\n', " ");
        let r = if is_wrapped(&op) { run_op_wrapped(&mut sess, op) } else { run_op(&mut sess, op) };
        match r {
            None => {
                sink.count("setup_failed");
                // the session may be broken (e.g. the connection died): start over
                if let Some(s) = Session::open() {
                    let old = std::mem::replace(&mut sess, s);
                    std::mem::forget(old.conn);
                    old.broker.stop();
                }
            }
            Some((op2, obs, other, failed)) => {
                sink.count(&format!("op:{}", kind));
                if obs.is_none() {
                    sink.count("panicked");
                }
                // the raw payloads go to Coq as well: the reading of record is Model/Method.v's
                let raws: Vec<Vec<u8>> = obs.as_ref().map(|ms| ms.iter().map(|x| x.1.clone()).collect()).unwrap_or_default();
                let term = format!(
                    "({}, {}, {}, {}, {}, pool_tables)",
                    op_coq(&op2),
                    coqfmt::opt(&obs, |ms| coqfmt::list(ms, |x| meth_coq(&x.0))),
                    coqfmt::b(other),
                    coqfmt::b(failed),
                    coqfmt::list(&raws, |p| coqfmt::bytes(p))
                );
                sink.push_line(term, true, line);
            }
        }
    }
    sink.finish("");
}
