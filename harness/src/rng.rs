//! splitmix64 - every random choice of a run derives from one seed.
#[derive(Clone)]
pub struct Rng(pub u64);

impl Rng {
    pub fn new(seed: u64) -> Rng {
        Rng(seed ^ 0x9E37_79B9_7F4A_7C15)
    }
    pub fn next(&mut self) -> u64 {
        self.0 = self.0.wrapping_add(0x9E37_79B9_7F4A_7C15);
        let mut z = self.0;
        z = (z ^ (z >> 30)).wrapping_mul(0xBF58_476D_1CE4_E5B9);
        z = (z ^ (z >> 27)).wrapping_mul(0x94D0_49BB_1331_11EB);
        z ^ (z >> 31)
    }
    /// uniform in 0..n (n > 0)
    pub fn below(&mut self, n: u64) -> u64 {
        self.next() % n
    }
    pub fn range(&mut self, lo: u64, hi_incl: u64) -> u64 {
        lo + self.below(hi_incl - lo + 1)
    }
    pub fn chance(&mut self, num: u64, den: u64) -> bool {
        self.below(den) < num
    }
    pub fn boolean(&mut self) -> bool {
        self.next() & 1 == 1
    }
    pub fn pick<'a, T>(&mut self, xs: &'a [T]) -> &'a T {
        &xs[self.below(xs.len() as u64) as usize]
    }
    pub fn shuffle<T>(&mut self, xs: &mut [T]) {
        for i in (1..xs.len()).rev() {
            let j = self.below(i as u64 + 1) as usize;
            xs.swap(i, j);
        }
    }
    pub fn fork(&mut self) -> Rng {
        Rng(self.next())
    }
}
