//! `vh consts` prints coq/Gen/Consts.v from the compiled crate.
pub fn run() {
    println!("(* GENERATED on every check by `vh consts` from the compiled amiquip crate");
    println!("   (amiquip::verif::consts()).  Do not edit: edits are overwritten. *)");
    println!("From Coq Require Import NArith List.");
    println!("Import ListNotations.");
    println!("Open Scope N_scope.");
    for (k, v) in amiquip::verif::consts() {
        println!("Definition c_{} : N := {}.", k, v);
    }
    let hdr = amiquip::verif::protocol_header();
    let s: Vec<String> = hdr.iter().map(|b| b.to_string()).collect();
    println!("Definition c_protocol_header : list N := [{}].", s.join("; "));
}
