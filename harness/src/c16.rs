//! C16 (and the heartbeat half of C15): the handshake.
//! L1: the real HandshakeState::process through the HandshakeProbe, frame by frame.
//! L2: the real Connection::insecure_open_stream against a scripted broker.
use crate::coqfmt::{self, CaseSink};
use crate::l2::*;
use crate::rng::Rng;
use crate::wire;
use crate::Args;
use amiquip::verif::HandshakeProbe;
use amiquip::{Auth, Connection, ConnectionOptions, ConnectionTuning, Error};
use amq_protocol::frame::AMQPFrame;
use amq_protocol::protocol::{basic, channel, connection, AMQPClass};
use amq_protocol::types::{AMQPValue, FieldTable};
use std::time::Duration;

#[derive(Clone, Debug)]
pub enum HF {
    Start(String, String, u8),
    Secure,
    Tune(u16, u32, u16),
    OpenOk,
    Close(u16, String),
    Heartbeat0,
    Other(u8),
}

#[derive(Clone, Debug)]
pub enum Term { Block, Eof, IoErr, Malformed }

#[derive(Clone, Debug)]
pub enum Ev { Read(Vec<HF>, Term), Silence }

#[derive(Clone, Debug)]
pub struct Opts {
    pub external: bool,
    pub user: String,
    pub pass: String,
    pub locale: String,
    pub vhost: String,
    pub info: Option<String>,
    pub cm: u16,
    pub fm: u32,
    pub hb: u16,
    pub timeout: bool,
}

impl Opts {
    fn to_options(&self) -> ConnectionOptions<Auth> {
        let auth = if self.external { Auth::External } else { Auth::Plain { username: self.user.clone(), password: self.pass.clone() } };
        ConnectionOptions::<Auth>::default()
            .auth(auth)
            .locale(self.locale.clone())
            .virtual_host(self.vhost.clone())
            .information(self.info.clone())
            .channel_max(self.cm)
            .frame_max(self.fm)
            .heartbeat(self.hb)
            .connection_timeout(if self.timeout { Some(Duration::from_millis(250)) } else { None })
    }
    fn mech(&self) -> &'static str { if self.external { "EXTERNAL" } else { "PLAIN" } }
    fn response(&self) -> String { if self.external { String::new() } else { format!("\x00{}\x00{}", self.user, self.pass) } }
    fn coq(&self) -> String {
        format!(
            "{{| o_mech := {}; o_response := {}; o_locale := {}; o_vhost := {}; o_info := {}; o_cm := {}; o_fm := {}; o_hb := {}; o_timeout := {} |}}",
            coqfmt::string(self.mech()), coqfmt::string(&self.response()), coqfmt::string(&self.locale), coqfmt::string(&self.vhost),
            coqfmt::opt(&self.info, |s| coqfmt::string(s)), self.cm, self.fm, self.hb, coqfmt::b(self.timeout)
        )
    }
}

fn sprops(id: u8) -> FieldTable {
    let mut t = FieldTable::new();
    t.insert("product".into(), AMQPValue::LongString(format!("mock-{}", id)));
    t
}
fn sprops_id(t: &FieldTable) -> u64 {
    match t.get("product") {
        Some(AMQPValue::LongString(s)) => s.strip_prefix("mock-").and_then(|x| x.parse().ok()).unwrap_or(999),
        _ => 999,
    }
}

impl HF {
    fn to_amqp(&self) -> AMQPFrame {
        let conn = |m| AMQPFrame::Method(0, AMQPClass::Connection(m));
        match self {
            HF::Start(m, l, id) => conn(connection::AMQPMethod::Start(connection::Start {
                version_major: 0, version_minor: 9, server_properties: sprops(*id), mechanisms: m.clone(), locales: l.clone(),
            })),
            HF::Secure => conn(connection::AMQPMethod::Secure(connection::Secure { challenge: "chal".into() })),
            HF::Tune(a, b, c) => conn(connection::AMQPMethod::Tune(connection::Tune { channel_max: *a, frame_max: *b, heartbeat: *c })),
            HF::OpenOk => conn(connection::AMQPMethod::OpenOk(connection::OpenOk { known_hosts: "".into() })),
            HF::Close(c, t) => conn(connection::AMQPMethod::Close(connection::Close { reply_code: *c, reply_text: t.clone(), class_id: 0, method_id: 0 })),
            HF::Heartbeat0 => AMQPFrame::Heartbeat(0),
            HF::Other(k) => match k % 7 {
                0 => conn(connection::AMQPMethod::Blocked(connection::Blocked { reason: "x".into() })),
                1 => conn(connection::AMQPMethod::CloseOk(connection::CloseOk {})),
                2 => AMQPFrame::Method(1, AMQPClass::Connection(connection::AMQPMethod::OpenOk(connection::OpenOk { known_hosts: "".into() }))),
                3 => AMQPFrame::Method(0, AMQPClass::Channel(channel::AMQPMethod::OpenOk(channel::OpenOk { channel_id: "".into() }))),
                4 => AMQPFrame::Body(1, vec![]), // (a heartbeat on another channel cannot be encoded by amq-protocol)
                5 => AMQPFrame::Body(0, vec![1, 2, 3]),
                _ => AMQPFrame::Method(1, AMQPClass::Basic(basic::AMQPMethod::GetEmpty(basic::GetEmpty { cluster_id: "".into() }))),
            },
        }
    }
    fn coq(&self) -> String {
        match self {
            HF::Start(m, l, id) => format!("HStart {} {} {}", coqfmt::string(m), coqfmt::string(l), id),
            HF::Secure => "HSecure".into(),
            HF::Tune(a, b, c) => format!("HTune {} {} {}", a, b, c),
            HF::OpenOk => "HOpenOk".into(),
            HF::Close(c, t) => format!("HClose {} {}", c, coqfmt::string(t)),
            HF::Heartbeat0 => "HHeartbeat0".into(),
            HF::Other(_) => "HOther".into(),
        }
    }
}

fn err_coq(e: &Error) -> String {
    match e {
        Error::UnsupportedAuthMechanism { .. } => "HeUnsupportedMech".into(),
        Error::UnsupportedLocale { .. } => "HeUnsupportedLocale".into(),
        Error::SaslSecureNotSupported => "HeSaslSecure".into(),
        Error::InvalidCredentials => "HeInvalidCredentials".into(),
        Error::ServerClosedConnection { code, message } => format!("(HeServerClosed {} {})", code, coqfmt::string(message)),
        Error::FrameMaxTooSmall { .. } => "HeFrameMaxTooSmall".into(),
        Error::FrameUnexpected => "HeFrameUnexpected".into(),
        Error::ConnectionTimeout => "HeTimeout".into(),
        Error::UnexpectedSocketClose => "HeSocketClosed".into(),
        Error::IoErrorReadingSocket { .. } => "HeIoRead".into(),
        Error::IoErrorWritingSocket { .. } => "HeIoWrite".into(),
        Error::MalformedFrame => "HeMalformed".into(),
        other => format!("HeIoWrite (* unexpected: {:?} *)", other).replace("*)", "* )").replace("(* unexpected", "(* unexpected"),
    }
}

/// the client's frames as csend terms; `props_ok` is false if the StartOk's client
/// properties are not what the property text demands
fn csend_coq(f: &AMQPFrame, info: &Option<String>, props_bad: &mut bool) -> String {
    match f {
        AMQPFrame::Method(0, AMQPClass::Connection(connection::AMQPMethod::StartOk(s))) => {
            let cp = &s.client_properties;
            let caps_ok = match cp.get("capabilities") {
                Some(AMQPValue::FieldTable(t)) => {
                    t.get("consumer_cancel_notify") == Some(&AMQPValue::Boolean(true)) && t.get("connection.blocked") == Some(&AMQPValue::Boolean(true))
                }
                _ => false,
            };
            let got_info = match cp.get("information") {
                Some(AMQPValue::LongString(s)) => Some(s.clone()),
                None => None,
                _ => Some("<wrong type>".into()),
            };
            let basics = ["product", "version", "platform"].iter().all(|k| matches!(cp.get(*k), Some(AMQPValue::LongString(_))));
            if !caps_ok || !basics || &got_info != info {
                *props_bad = true;
            }
            format!("SStartOk {} {} {} {}", coqfmt::string(&s.mechanism), coqfmt::string(&s.response), coqfmt::string(&s.locale),
                    coqfmt::opt(&got_info, |x| coqfmt::string(x)))
        }
        AMQPFrame::Method(0, AMQPClass::Connection(connection::AMQPMethod::TuneOk(t))) => format!("STuneOk {} {} {}", t.channel_max, t.frame_max, t.heartbeat),
        AMQPFrame::Method(0, AMQPClass::Connection(connection::AMQPMethod::Open(o))) => format!("SOpen {}", coqfmt::string(&o.virtual_host)),
        AMQPFrame::Method(0, AMQPClass::Connection(connection::AMQPMethod::CloseOk(_))) => "SCloseOk".into(),
        _ => "SOpen [255; 255] (* unexpected client frame *)".into(),
    }
}

fn frames_of_bytes(out: &[u8]) -> Vec<AMQPFrame> {
    let (raw, _) = wire::split(out);
    raw.iter().filter_map(|r| amq_protocol::frame::parse_frame(&wire::envelope(r.ty, r.ch, &r.payload)).ok().map(|x| x.1)).collect()
}

fn run_l1(sink: &mut CaseSink, o: &Opts, fs: &[HF]) {
    let mut probe = HandshakeProbe::new(o.to_options());
    let mut obs = Vec::new();
    let mut seen = 0;
    let mut bad = false;
    for f in fs {
        let r = std::panic::catch_unwind(std::panic::AssertUnwindSafe(|| probe.frame(f.to_amqp())));
        let r = match r {
            Ok(r) => r,
            Err(_) => {
                sink.count("PANIC");
                obs.push("(Some HeIoWrite, 99, [], false, None) (* PANIC *)".to_string());
                break;
            }
        };
        let out = probe.outbuf();
        let frames = frames_of_bytes(&out);
        let new: Vec<String> = frames[seen.min(frames.len())..].iter().map(|f| csend_coq(f, &o.info, &mut bad)).collect();
        seen = frames.len();
        let hb = probe.heartbeat_intervals_ms().map(|(rx, tx)| if rx == 2 * tx && tx % 1000 == 0 { tx / 1000 } else { 999_999 });
        let e = match &r { Ok(()) => "None".to_string(), Err(e) => format!("(Some {})", err_coq(e)) };
        obs.push(format!("({}, {}, {}, {}, {})", e, probe.state_code(), coqfmt::list(&new, |x| x.clone()), coqfmt::b(probe.sealed()), coqfmt::opt(&hb, |x| x.to_string())));
        if r.is_err() {
            break;
        }
    }
    if bad {
        sink.count("BAD_CLIENT_PROPERTIES");
    }
    let line = format!("L1 {}", ser(o, &[Ev::Read(fs.to_vec(), Term::Block)]));
    let term = format!("L1 {} {} {}", o.coq(), coqfmt::list(fs, |f| f.coq()), coqfmt::list(&obs, |x| x.clone()));
    sink.count("kind:L1");
    sink.push_line(term, fs.len() >= 2, line);
}

/// `pipelined`: the server does not wait for the client's answers - what it has to say next is
/// pushed right behind (as its own read episode), so a frame can arrive in the very pass that
/// flushes the previous answer
fn run_l2(sink: &mut CaseSink, o: &Opts, evs: &[Ev], pipelined: bool) {
    let (stream, peer) = mock_pair();
    let opts = o.to_options();
    let (tx, rx) = std::sync::mpsc::channel();
    std::thread::spawn(move || {
        let r = Connection::insecure_open_stream(stream, opts, ConnectionTuning::default());
        let r2 = match r {
            Ok(conn) => {
                let id = sprops_id(conn.server_properties());
                // leave the connection to be dropped with the transport
                std::mem::forget(conn);
                Ok(id)
            }
            Err(e) => Err(e),
        };
        let _ = tx.send(r2);
    });
    // the scripted broker, in this thread
    let mut result: Option<Result<u64, Error>> = None;
    let header = peer.wait_out_len(8, Duration::from_secs(5));
    if header {
        if o.timeout {
            // a server that answers a little late: the timeout budget is already running
            std::thread::sleep(Duration::from_millis(4));
        }
        for ev in evs {
            if result.is_some() {
                break;
            }
            match ev {
                Ev::Silence => {
                    if o.timeout {
                        if let Ok(r) = rx.recv_timeout(Duration::from_millis(900)) {
                            result = Some(r);
                        }
                    }
                }
                Ev::Read(fs, term) => {
                    let before = peer.out_len();
                    let mut bytes = Vec::new();
                    for f in fs {
                        bytes.extend_from_slice(&wire::encode(&f.to_amqp()));
                    }
                    if let Term::Malformed = term {
                        bytes.extend_from_slice(&[9, 0, 0, 0, 0, 0, 1, 7, 0xCE]);
                    }
                    if bytes.is_empty() && matches!(term, Term::Block) {
                        continue; // nothing arrives: not observable
                    }
                    let done_before = peer.sh.st.lock().unwrap().episodes_done;
                    match term {
                        Term::Eof => peer.push_episode(if bytes.is_empty() { Episode::Eof } else { Episode::DataEof(bytes) }),
                        Term::IoErr => peer.push_episode(if bytes.is_empty() { Episode::Reset } else { Episode::DataReset(bytes) }),
                        _ => peer.push(bytes),
                    }
                    // (not past the end of the handshake: what follows an OpenOk or a Close belongs to
                    // the open connection, and the scripted server waits for the outcome there)
                    if pipelined && matches!(term, Term::Block) && !fs.iter().any(|f| matches!(f, HF::OpenOk | HF::Close(..))) {
                        continue;
                    }
                    // wait until the episode has been consumed, then give the client a moment to answer
                    peer.wait(|s| s.episodes_done > done_before || s.dropped, Duration::from_millis(500));
                    if let Ok(r) = rx.recv_timeout(Duration::from_millis(12)) {
                        result = Some(r);
                    } else {
                        let _ = before;
                    }
                }
            }
        }
    }
    if result.is_none() {
        // script exhausted: the server stays silent
        let wait = if o.timeout { 900 } else { 120 };
        if let Ok(r) = rx.recv_timeout(Duration::from_millis(wait)) {
            result = Some(r);
        }
    }
    if let Some(Ok(_)) = &result {
        // the connection is up: what the handshake queued last is written by the steady loop
        let deadline = std::time::Instant::now() + Duration::from_millis(300);
        while std::time::Instant::now() < deadline {
            let o = peer.out();
            if o.len() >= 8 && frames_of_bytes(&o[8..]).len() >= 3 {
                break;
            }
            std::thread::sleep(Duration::from_millis(1));
        }
    }
    let out = peer.out();
    let mut bad = false;
    let sent: Vec<String> = if out.len() >= 8 { frames_of_bytes(&out[8..]).iter().map(|f| csend_coq(f, &o.info, &mut bad)).collect() } else { vec![] };
    if bad {
        sink.count("BAD_CLIENT_PROPERTIES");
    }
    let obs = match &result {
        None => "ObsHang".to_string(),
        Some(Ok(id)) => format!("(ObsConnected {})", id),
        Some(Err(e)) => format!("(ObsFailed {})", err_coq(e)),
    };
    sink.count(&format!("out:{}", obs.split(' ').next().unwrap().trim_start_matches('(')));
    if let Some(Err(e)) = &result {
        sink.count(&format!("err:{}", err_coq(e).split(' ').next().unwrap().trim_start_matches('(')));
    }
    let ev_coq = |e: &Ev| match e {
        Ev::Silence => "HSilence".to_string(),
        Ev::Read(fs, t) => format!("HRead {} {}", coqfmt::list(fs, |f| f.coq()), match t { Term::Block => "HtBlock", Term::Eof => "HtEof", Term::IoErr => "HtIoErr", Term::Malformed => "HtMalformed" }),
    };
    let term = format!("L2 {} {} {} {}", o.coq(), coqfmt::list(evs, ev_coq), obs, coqfmt::list(&sent, |x| x.clone()));
    sink.count(if pipelined { "kind:L2-pipelined-server" } else { "kind:L2" });
    let bad_line = if bad { " @badprops" } else { "" };
    sink.push_line(term, !evs.is_empty(), format!("{} {}{}", if pipelined { "L2p" } else { "L2" }, ser(o, evs), bad_line));
}

// ---- generation ----

fn rand_opts(rng: &mut Rng) -> Opts {
    Opts {
        external: rng.chance(1, 4),
        user: rng.pick(&["guest", "alice", ""]).to_string(),
        pass: rng.pick(&["guest", "s3cret", ""]).to_string(),
        locale: rng.pick(&["en_US", "en_US", "de_DE"]).to_string(),
        vhost: rng.pick(&["/", "prod", ""]).to_string(),
        info: if rng.chance(1, 3) { Some("verif run".to_string()) } else { None },
        cm: *rng.pick(&[0u16, 0, 1, 10, 2047, 65535]),
        fm: *rng.pick(&[0u32, 0, 4096, 4095, 8192, 131072]),
        hb: *rng.pick(&[60u16, 0, 1, 10, 65535]),
        timeout: rng.chance(1, 3),
    }
}

fn rand_frame(rng: &mut Rng, stage: u8) -> HF {
    // mostly the frame the stage expects, sometimes another one
    let expected = rng.chance(3, 4);
    let k = if expected { stage } else { rng.below(8) as u8 };
    match k {
        0 => {
            let mechs = *rng.pick(&["PLAIN EXTERNAL", "PLAIN EXTERNAL", "PLAIN EXTERNAL", "EXTERNAL PLAIN", "PLAIN", "AMQPLAIN PLAIN", "EXTERNAL", "AMQPLAIN", "PLAINX", ""]);
            let locs = *rng.pick(&["en_US de_DE", "en_US de_DE", "de_DE en_US", "en_US", "de_DE", "en_US ", ""]);
            HF::Start(mechs.to_string(), locs.to_string(), rng.below(4) as u8)
        }
        1 => HF::Tune(*rng.pick(&[0u16, 1, 2047, 65535]), *rng.pick(&[0u32, 4096, 131072, 8192, 4095, 131072, 100, u32::MAX]), *rng.pick(&[0u16, 1, 60, 580])),
        2 => HF::OpenOk,
        3 => HF::Secure,
        4 => HF::Close(*rng.pick(&[530u16, 403, 0]), rng.pick(&["NOT_ALLOWED - vhost", "", "x"]).to_string()),
        5 => HF::Heartbeat0,
        _ => HF::Other(rng.below(7) as u8),
    }
}

fn rand_script(rng: &mut Rng) -> Vec<Ev> {
    if rng.chance(1, 3) {
        // the complete exchange, with a deviation at the end
        let start = HF::Start("PLAIN EXTERNAL AMQPLAIN".into(), "en_US de_DE".into(), rng.below(4) as u8);
        let tune = HF::Tune(*rng.pick(&[0u16, 2047, 7]), *rng.pick(&[0u32, 131072, 4096, 8192]), *rng.pick(&[0u16, 60, 5]));
        let last = match rng.below(6) {
            0 | 1 => vec![HF::OpenOk],
            2 | 3 => vec![HF::Close(*rng.pick(&[530u16, 403]), rng.pick(&["NOT_ALLOWED - access to vhost refused", "x"]).to_string())],
            4 => vec![HF::OpenOk, HF::Heartbeat0],
            _ => vec![HF::Heartbeat0, HF::OpenOk, HF::Other(rng.below(7) as u8)],
        };
        let mut evs = Vec::new();
        if rng.chance(1, 4) {
            // several frames in one read
            evs.push(Ev::Read(vec![start, tune], Term::Block));
        } else {
            evs.push(Ev::Read(vec![start], Term::Block));
            if rng.chance(1, 5) { evs.push(Ev::Silence); }
            evs.push(Ev::Read(vec![tune], Term::Block));
        }
        let term = match rng.below(8) { 0 => Term::Eof, 1 => Term::IoErr, 2 => Term::Malformed, _ => Term::Block };
        evs.push(Ev::Read(last, term));
        return evs;
    }
    let mut evs = Vec::new();
    let mut stage = 0u8;
    let n = rng.range(1, 5);
    for _ in 0..n {
        if rng.chance(1, 10) {
            evs.push(Ev::Silence);
            continue;
        }
        let k = if rng.chance(1, 5) { rng.range(0, 3) } else { 1 };
        let mut fs = Vec::new();
        for _ in 0..k {
            if rng.chance(1, 8) {
                fs.push(HF::Heartbeat0);
            }
            let f = rand_frame(rng, stage);
            match (&f, stage) {
                (HF::Start(..), 0) => stage = 1,
                (HF::Tune(..), 1) => stage = 2,
                (HF::OpenOk, 2) => stage = 5,
                _ => {}
            }
            fs.push(f);
        }
        let term = match rng.below(12) {
            0 => Term::Eof,
            1 => Term::IoErr,
            2 => Term::Malformed,
            _ => Term::Block,
        };
        let stop = !matches!(term, Term::Block);
        evs.push(Ev::Read(fs, term));
        if stop {
            break;
        }
    }
    evs
}

// ---- replay lines ----
fn hx(s: &str) -> String { if s.is_empty() { "-".into() } else { s.bytes().map(|b| format!("{:02x}", b)).collect() } }
fn uhx(s: &str) -> String {
    if s == "-" { return String::new(); }
    String::from_utf8((0..s.len() / 2).map(|i| u8::from_str_radix(&s[2 * i..2 * i + 2], 16).unwrap()).collect()).unwrap()
}
fn ser(o: &Opts, evs: &[Ev]) -> String {
    let os = format!("{}:{}:{}:{}:{}:{}:{}:{}:{}:{}", o.external as u8, hx(&o.user), hx(&o.pass), hx(&o.locale), hx(&o.vhost),
                     o.info.as_ref().map(|s| hx(s)).unwrap_or("~".into()), o.cm, o.fm, o.hb, o.timeout as u8);
    let es: Vec<String> = evs.iter().map(|e| match e {
        Ev::Silence => "S".to_string(),
        Ev::Read(fs, t) => format!("R{}/{}", match t { Term::Block => 'b', Term::Eof => 'e', Term::IoErr => 'i', Term::Malformed => 'm' },
            fs.iter().map(|f| match f {
                HF::Start(m, l, id) => format!("s.{}.{}.{}", hx(m), hx(l), id),
                HF::Secure => "c".into(),
                HF::Tune(a, b, c) => format!("t.{}.{}.{}", a, b, c),
                HF::OpenOk => "o".into(),
                HF::Close(c, t) => format!("x.{}.{}", c, hx(t)),
                HF::Heartbeat0 => "h".into(),
                HF::Other(k) => format!("z.{}", k),
            }).collect::<Vec<_>>().join(",")),
    }).collect();
    format!("{} {}", os, es.join(";"))
}
fn deser(a: &str, b: &str) -> (Opts, Vec<Ev>) {
    let f: Vec<&str> = a.split(':').collect();
    let o = Opts {
        external: f[0] == "1", user: uhx(f[1]), pass: uhx(f[2]), locale: uhx(f[3]), vhost: uhx(f[4]),
        info: if f[5] == "~" { None } else { Some(uhx(f[5])) },
        cm: f[6].parse().unwrap(), fm: f[7].parse().unwrap(), hb: f[8].parse().unwrap(), timeout: f[9] == "1",
    };
    let evs = b.split(';').filter(|x| !x.is_empty()).map(|e| {
        if e == "S" { return Ev::Silence; }
        let t = match &e[1..2] { "b" => Term::Block, "e" => Term::Eof, "i" => Term::IoErr, _ => Term::Malformed };
        let fs = e[3..].split(',').filter(|x| !x.is_empty()).map(|x| {
            let p: Vec<&str> = x.split('.').collect();
            match p[0] {
                "s" => HF::Start(uhx(p[1]), uhx(p[2]), p[3].parse().unwrap()),
                "c" => HF::Secure,
                "t" => HF::Tune(p[1].parse().unwrap(), p[2].parse().unwrap(), p[3].parse().unwrap()),
                "o" => HF::OpenOk,
                "x" => HF::Close(p[1].parse().unwrap(), uhx(p[2])),
                "h" => HF::Heartbeat0,
                _ => HF::Other(p[1].parse().unwrap()),
            }
        }).collect();
        Ev::Read(fs, t)
    }).collect();
    (o, evs)
}

pub fn run(a: &Args) {
    let mut sink = CaseSink::new("C16", "C16", &a.out, 60);
    let mut rng = Rng::new(a.seed ^ 0xC16);
    if let Some(pos) = a.rest.iter().position(|x| x == "--line") {
        let line = a.rest[pos + 1].clone();
        let mut it = line.split_whitespace();
        let kind = it.next().unwrap();
        let (o, evs) = deser(it.next().unwrap(), it.next().unwrap_or(""));
        if kind == "L1" {
            if let Some(Ev::Read(fs, _)) = evs.first() { run_l1(&mut sink, &o, fs); }
        } else {
            run_l2(&mut sink, &o, &evs, kind == "L2p");
        }
        sink.finish("");
        return;
    }
    if let Some(dir) = &a.corpus {
        if let Ok(rd) = std::fs::read_dir(dir) {
            let mut files: Vec<_> = rd.flatten().map(|e| e.path()).collect();
            files.sort();
            for f in files {
                for line in std::fs::read_to_string(&f).unwrap_or_default().lines() {
                    let line = line.split('#').next().unwrap().trim();
                    let mut it = line.split_whitespace();
                    if let (Some(kind), Some(x), y) = (it.next(), it.next(), it.next()) {
                        if kind != "L1" && kind != "L2" && kind != "L2p" {
                            continue;
                        }
                        let (o, evs) = deser(x, y.unwrap_or(""));
                        if kind == "L1" {
                            if let Some(Ev::Read(fs, _)) = evs.first() { run_l1(&mut sink, &o, fs); }
                        } else {
                            run_l2(&mut sink, &o, &evs, kind == "L2p");
                        }
                    }
                }
            }
        }
    }
    // L1: all frame sequences of length <= 3 (quick) / 4 (thorough) over a fixed alphabet, for a few option sets
    let alphabet = vec![
        HF::Start("PLAIN EXTERNAL".into(), "en_US".into(), 1), HF::Start("AMQPLAIN".into(), "en_US".into(), 2),
        HF::Start("PLAIN".into(), "fr_FR".into(), 3), HF::Secure, HF::Tune(0, 0, 0), HF::Tune(7, 100, 5), HF::Tune(7, 8192, 5),
        HF::OpenOk, HF::Close(530, "no".into()), HF::Heartbeat0, HF::Other(0), HF::Other(2),
    ];
    let depth = if a.tier == "thorough" { 4 } else { 3 };
    let base = Opts { external: false, user: "guest".into(), pass: "guest".into(), locale: "en_US".into(), vhost: "/".into(), info: None, cm: 0, fm: 0, hb: 60, timeout: false };
    let k = alphabet.len();
    for l in 1..=depth {
        for mut code in 0..(k as u64).pow(l as u32) {
            let mut fs = Vec::new();
            for _ in 0..l {
                fs.push(alphabet[(code % k as u64) as usize].clone());
                code /= k as u64;
            }
            // sequences whose first frame already fails are all alike: keep one in 6 of them
            if !matches!(fs[0], HF::Start(ref m, ref lo, _) if m.contains("PLAIN EXTERNAL") && lo == "en_US") && !matches!(fs[0], HF::Heartbeat0) && rng.below(6) != 0 {
                continue;
            }
            run_l1(&mut sink, &base, &fs);
        }
    }
    // random: options x scripts, L1 for the frames and L2 for the whole loop
    for i in 0..a.n {
        let o = rand_opts(&mut rng);
        let evs = rand_script(&mut rng);
        if i % 3 == 0 {
            let fs: Vec<HF> = evs.iter().flat_map(|e| match e { Ev::Read(fs, _) => fs.clone(), _ => vec![] }).collect();
            run_l1(&mut sink, &o, &fs);
        } else {
            run_l2(&mut sink, &o, &evs, i % 3 == 2);
        }
    }
    let bad = sink.dist.get("BAD_CLIENT_PROPERTIES").cloned().unwrap_or(0);
    let extra = if bad > 0 {
        format!("\"direct_violations\":[{{\"id\":\"client-properties\",\"what\":\"StartOk client properties lack a required entry (capabilities / information / product)\",\"count\":{}}}]", bad)
    } else { String::new() };
    sink.finish(&extra);
}
