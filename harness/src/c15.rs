//! C15 (negotiation): the real `make_tune_ok` on boundary pairs and random sextuples.
use crate::coqfmt::CaseSink;
use crate::rng::Rng;
use crate::Args;
use amiquip::Error;

type Side = (u16, u32, u16);

fn run_impl(c: Side, s: Side) -> String {
    match amiquip::verif::make_tune_ok(c, s) {
        Ok((cm, fm, hb)) => format!("TuneOk {} {} {}", cm, fm, hb),
        Err(Error::FrameMaxTooSmall { min, requested }) => {
            format!("FrameMaxTooSmall {} {}", min, requested)
        }
        Err(e) => format!("FrameMaxTooSmall 0 0 (* unexpected error {:?} *)", e),
    }
}

fn emit(sink: &mut CaseSink, kind: &str, c: Side, s: Side) {
    let r = run_impl(c, s);
    sink.count(&format!("kind:{}", kind));
    sink.count(if r.starts_with("TuneOk") { "res:ok" } else { "res:too_small" });
    if c.0 == 0 || s.0 == 0 {
        sink.count("channel_max_has_0");
    }
    if c.1 == 0 || s.1 == 0 {
        sink.count("frame_max_has_0");
    }
    if c.2 == 0 || s.2 == 0 {
        sink.count("heartbeat_has_0");
    }
    let term = format!(
        "({}, {}, {}, ({}, {}, {}), {})",
        c.0, c.1, c.2, s.0, s.1, s.2, r
    );
    let line = format!("{} {} {} {} {} {}", c.0, c.1, c.2, s.0, s.1, s.2);
    sink.push_line(term, true, line);
}

const B16: &[u16] = &[0, 1, 2, 9, 10, 11, 59, 60, 61, 255, 256, 2046, 2047, 2048, 32767, 32768, 65534, 65535];
const B32: &[u32] = &[
    0, 1, 2, 4094, 4095, 4096, 4097, 8191, 8192, 65535, 65536, 131071, 131072, 131073, 1 << 20,
    (1 << 31) - 1, 1 << 31, u32::MAX - 1, u32::MAX,
];

fn parse_line(line: &str) -> Option<(Side, Side)> {
    let line = line.split('#').next().unwrap().trim();
    let v: Vec<u64> = line.split_whitespace().filter_map(|x| x.parse().ok()).collect();
    if v.len() != 6 {
        return None;
    }
    Some(((v[0] as u16, v[1] as u32, v[2] as u16), (v[3] as u16, v[4] as u32, v[5] as u16)))
}

pub fn run(a: &Args) {
    let mut sink = CaseSink::new("C15", "C15", &a.out, 1000);
    let mut rng = Rng::new(a.seed);
    if let Some(dir) = &a.corpus {
        if let Ok(rd) = std::fs::read_dir(dir) {
            let mut files: Vec<_> = rd.flatten().map(|e| e.path()).collect();
            files.sort();
            for f in files {
                for line in std::fs::read_to_string(&f).unwrap_or_default().lines() {
                    if let Some((c, s)) = parse_line(line) {
                        emit(&mut sink, "corpus", c, s);
                    }
                }
            }
        }
    }
    if let Some(pos) = a.rest.iter().position(|x| x == "--line") {
        if let Some((c, s)) = parse_line(&a.rest[pos + 1]) {
            emit(&mut sink, "replay", c, s);
        }
        sink.finish("");
        return;
    }
    // every boundary pair, one field at a time (the others at defaults)
    for &x in B16 {
        for &y in B16 {
            emit(&mut sink, "pairs_channel_max", (x, 0, 60), (y, 131072, 60));
            emit(&mut sink, "pairs_heartbeat", (0, 0, x), (2047, 131072, y));
        }
    }
    for &x in B32 {
        for &y in B32 {
            emit(&mut sink, "pairs_frame_max", (0, x, 60), (2047, y, 60));
        }
    }
    let pick16 = |rng: &mut Rng| -> u16 {
        if rng.chance(2, 3) {
            *rng.pick(B16)
        } else {
            rng.next() as u16
        }
    };
    let pick32 = |rng: &mut Rng| -> u32 {
        if rng.chance(2, 3) {
            *rng.pick(B32)
        } else {
            (rng.next() as u32) >> rng.below(32)
        }
    };
    for _ in 0..a.n {
        let c = (pick16(&mut rng), pick32(&mut rng), pick16(&mut rng));
        let s = (pick16(&mut rng), pick32(&mut rng), pick16(&mut rng));
        emit(&mut sink, "random", c, s);
    }
    sink.finish("");
}
