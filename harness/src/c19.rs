//! C19: AMQP URLs assembled from components; the real `url` crate splits them, the real
//! amqp_url::decode / populate_host_and_port interpret them (verif::decode_url), the real
//! secure-only Connection::open is asked about every amqp:// URL.
use crate::coqfmt::{self, CaseSink};
use crate::rng::Rng;
use crate::Args;
use amiquip::{Auth, Connection, Error};
use percent_encoding::{utf8_percent_encode, NON_ALPHANUMERIC};
use url::Url;

fn rand_text(rng: &mut Rng) -> String {
    let alphabet = ["a", "Z", "9", "-", ".", "_", "~", "@", ":", "/", "?", "#", "%", " ", "+", "&", "=", "\u{e9}", "\u{4e16}", "%41", "guest"];
    let n = match rng.below(6) { 0 => 0, 1 => 1, _ => rng.range(1, 8) };
    (0..n).map(|_| *rng.pick(&alphabet)).collect()
}

fn enc(s: &str) -> String {
    utf8_percent_encode(s, NON_ALPHANUMERIC).to_string()
}

fn num_text(rng: &mut Rng, max: u128) -> String {
    match rng.below(14) {
        0 => "0".into(),
        1 => max.to_string(),
        2 => (max + 1).to_string(),
        3 => format!("+{}", rng.below(1000)),
        4 => "".into(),
        5 => "+".into(),
        6 => "-1".into(),
        7 => "12a".into(),
        8 => " 5".into(),
        9 => format!("00{}", rng.below(100)),
        10 => "99999999999999999999999".into(),
        _ => rng.below(max.min(70000) as u64 + 1).to_string(),
    }
}

pub struct Gen {
    pub url: String,
    pub user: Option<String>,
    pub pass: Option<String>,
    pub vhost: Option<String>,
    pub valid: bool,
}

pub fn gen(rng: &mut Rng) -> Gen {
    let scheme = match rng.below(20) { 0 => "http", 1 => "amqpx", 2..=10 => "amqp", _ => "amqps" };
    let user = if rng.chance(1, 2) { Some(rand_text(rng)) } else { None };
    let pass = if rng.chance(1, 2) { Some(rand_text(rng)) } else { None };
    let host = *rng.pick(&["", "localhost", "example.com", "10.1.2.3", "[::1]", "rabbit-1.internal"]);
    let port = if rng.chance(1, 2) { Some(*rng.pick(&[5672u16, 5671, 1, 65535, 15672])) } else { None };
    let mut vhost = match rng.below(5) { 0 => None, 1 => Some(String::new()), _ => Some(rand_text(rng)) };
    // "." and ".." are dot segments in the URL standard even when written %2E: the url
    // crate removes them, so a URL cannot spell out such a virtual host (DESIGN.md, C19)
    if matches!(vhost.as_deref(), Some(".") | Some("..")) {
        vhost = Some("dot".into());
    }
    let extra = rng.chance(1, 12);
    let mut valid = scheme == "amqp" || scheme == "amqps";
    let mut s = format!("{}://", scheme);
    match (&user, &pass) {
        (None, None) => {}
        (u, p) => {
            s.push_str(&enc(u.as_deref().unwrap_or("")));
            if let Some(p) = p {
                s.push(':');
                s.push_str(&enc(p));
            }
            s.push('@');
        }
    }
    s.push_str(host);
    if let Some(p) = port {
        s.push_str(&format!(":{}", p));
    }
    if let Some(v) = &vhost {
        s.push('/');
        s.push_str(&enc(v));
        if extra {
            s.push_str("/more");
            valid = false;
        }
    }
    let nq = match rng.below(4) { 0 => 0, 1 => 1, _ => rng.range(1, 4) };
    let mut q = Vec::new();
    for _ in 0..nq {
        let (k, v) = match rng.below(9) {
            0 | 1 => ("heartbeat".to_string(), num_text(rng, 65535)),
            2 | 3 => ("channel_max".to_string(), num_text(rng, 65535)),
            4 | 5 => ("connection_timeout".to_string(), num_text(rng, u64::MAX as u128)),
            6 => ("auth_mechanism".to_string(), rng.pick(&["external", "external", "plain", "EXTERNAL", ""]).to_string()),
            7 => (rng.pick(&["frame_max", "locale", "Heartbeat", ""]).to_string(), "1".to_string()),
            _ => ("hear%74beat".to_string(), num_text(rng, 65535)), // an escaped key decodes to the key
        };
        let kk = if k.contains('%') { k.clone() } else { enc(&k) };
        q.push(format!("{}={}", kk, enc(&v).replace("%2B", "%2B")));
    }
    if !q.is_empty() {
        s.push('?');
        s.push_str(&q.join("&"));
    }
    // an empty user name / password cannot be told from an absent one in a URL
    let user = user.filter(|u| !u.is_empty());
    let pass = pass.filter(|p| !p.is_empty());
    Gen { url: s, user, pass, vhost, valid }
}

fn ostr(o: &Option<String>) -> String {
    coqfmt::opt(o, |s| coqfmt::string(s))
}

fn err_coq(e: &Error) -> String {
    match e {
        Error::InvalidUrlScheme { .. } => "(UErr UeInvalidScheme)".into(),
        Error::ExtraUrlPathSegments { .. } => "(UErr UeExtraPath)".into(),
        Error::UrlParseHeartbeat { .. } => "(UErr UeHeartbeat)".into(),
        Error::UrlParseChannelMax { .. } => "(UErr UeChannelMax)".into(),
        Error::UrlParseConnectionTimeout { .. } => "(UErr UeTimeout)".into(),
        Error::UrlInvalidAuthMechanism { mechanism, .. } => format!("(UErr (UeAuthMechanism {}))", coqfmt::string(mechanism)),
        Error::UrlUnsupportedParameter { parameter, .. } => format!("(UErr (UeParameter {}))", coqfmt::string(parameter)),
        Error::InsecureUrl { .. } => "(UErr UeInsecure)".into(),
        _ => "UOther".into(),
    }
}

pub fn emit(sink: &mut CaseSink, g: &Gen) {
    let parsed = match Url::parse(&g.url) {
        Ok(u) => u,
        Err(_) => {
            sink.count("url_crate_rejects");
            return;
        }
    };
    let segs: Option<Vec<String>> = parsed.path_segments().map(|it| it.map(|s| s.to_string()).collect());
    let query: Vec<(String, String)> = parsed.query_pairs().map(|(k, v)| (k.to_string(), v.to_string())).collect();
    let surl = format!(
        "{{| u_scheme := {}; u_user := {}; u_pass := {}; u_host := {}; u_port := {}; u_segments := {}; u_query := {} |}}",
        coqfmt::string(parsed.scheme()),
        coqfmt::string(parsed.username()),
        coqfmt::opt(&parsed.password().map(|s| s.to_string()), |s| coqfmt::string(s)),
        coqfmt::opt(&parsed.host_str().map(|s| s.to_string()), |s| coqfmt::string(s)),
        coqfmt::opt(&parsed.port(), |p| p.to_string()),
        coqfmt::opt(&segs, |l| coqfmt::list(l, |s| coqfmt::string(s))),
        coqfmt::list(&query, |(k, v)| format!("({}, {})", coqfmt::string(k), coqfmt::string(v)))
    );
    let intent = format!(
        "{{| i_user := {}; i_pass := {}; i_vhost := {}; i_valid := {} |}}",
        ostr(&g.user), ostr(&g.pass), ostr(&g.vhost), coqfmt::b(g.valid)
    );
    let obs = match amiquip::verif::decode_url(&g.url) {
        Ok(d) => {
            let auth = match &d.auth {
                Auth::Plain { username, password } => format!("(UPlain {} {})", coqfmt::string(username), coqfmt::string(password)),
                Auth::External => "UExternal".into(),
            };
            sink.count("decoded:ok");
            format!(
                "(UOk {} {} {} {} {} {} {} {})",
                coqfmt::b(d.amqps), coqfmt::string(&d.host), d.port, auth, coqfmt::string(&d.virtual_host), d.channel_max, d.heartbeat,
                coqfmt::opt(&d.connection_timeout.map(|t| t.as_millis()), |t| t.to_string())
            )
        }
        Err(e) => {
            let s = err_coq(&e);
            sink.count(&format!("decoded:{}", s.split(|c| c == ' ' || c == ')').nth(1).unwrap_or("other")));
            s
        }
    };
    let sec = if parsed.scheme() == "amqp" {
        match Connection::open(&g.url) {
            Err(Error::InsecureUrl { .. }) => 1,
            Err(e) if err_coq(&e).starts_with("(UErr") => 2,
            _ => 3,
        }
    } else {
        0
    };
    sink.count(&format!("scheme:{}", parsed.scheme()));
    sink.push_line(format!("({}, {}, {}, {})", surl, intent, obs, sec), true, g.url.clone());
}

pub fn run(a: &Args) {
    let mut sink = CaseSink::new("C19", "C19", &a.out, 150);
    let mut rng = Rng::new(a.seed ^ 0xC19);
    if let Some(pos) = a.rest.iter().position(|x| x == "--line") {
        // replay: the URL itself; the intent is unknown, so only the model is consulted
        let url = a.rest[pos + 1].clone();
        emit(&mut sink, &Gen { url, user: None, pass: None, vhost: None, valid: false });
        sink.finish("");
        return;
    }
    if let Some(dir) = &a.corpus {
        if let Ok(rd) = std::fs::read_dir(dir) {
            let mut files: Vec<_> = rd.flatten().map(|e| e.path()).collect();
            files.sort();
            for f in files {
                for line in std::fs::read_to_string(&f).unwrap_or_default().lines() {
                    // user|pass|vhost|url   ('~' = absent)
                    let p: Vec<&str> = line.splitn(4, '|').collect();
                    if p.len() == 4 {
                        let o = |s: &str| if s == "~" { None } else { Some(s.to_string()) };
                        emit(&mut sink, &Gen { url: p[3].to_string(), user: o(p[0]), pass: o(p[1]), vhost: o(p[2]), valid: true });
                    }
                }
            }
        }
    }
    for _ in 0..a.n {
        let g = gen(&mut rng);
        emit(&mut sink, &g);
    }
    sink.finish("");
}
