//! C10 end to end: random sequences of open_channel(Some(id)) / open_channel(None) / close through
//! the PUBLIC Connection / Channel API of a real connection whose channel_max was negotiated with
//! the scripted broker; the results are judged by the same model and the same oracle as the
//! ChannelSlots cases (coq/Check/C10.v: same case format).
use crate::coqfmt::{self, CaseSink};
use crate::l2::*;
use crate::rng::Rng;
use crate::Args;
use amiquip::{Auth, Channel, Connection, ConnectionOptions, ConnectionTuning, Error};
use std::collections::BTreeMap;
use std::time::Duration;

pub fn scenario(sub: u64) -> Option<String> {
    let mut rng = Rng::new(sub);
    let max = *rng.pick(&[1u16, 2, 3, 3, 5, 8]);
    let (stream, peer) = mock_pair();
    let broker = Broker::start(peer.clone(), BrokerCfg { tune: (max, 131072, 0), ..BrokerCfg::default() });
    let opts = ConnectionOptions::<Auth>::default().heartbeat(0);
    let mut conn = with_deadline(move || Connection::insecure_open_stream(stream, opts, ConnectionTuning::default()), Duration::from_secs(5))?.ok()?;
    let mut open: BTreeMap<u16, Channel> = BTreeMap::new();
    let mut ops: Vec<String> = Vec::new();
    let mut obs: Vec<String> = Vec::new();
    let n = rng.range(4, 24);
    for _ in 0..n {
        match rng.below(10) {
            0..=3 => {
                // an explicit id: 0, in range, the maximum, just above it, far above it
                let id = match rng.below(6) {
                    0 => 0,
                    1 => max,
                    2 => max.saturating_add(1),
                    3 => *rng.pick(&[255u16, 256, 65535]),
                    _ => rng.range(1, max as u64) as u16,
                };
                ops.push(format!("(1, OpenSome {})", id));
                match conn.open_channel(Some(id)) {
                    Ok(ch) => {
                        obs.push(format!("(1, ROk {})", ch.channel_id()));
                        open.insert(ch.channel_id(), ch);
                    }
                    Err(Error::UnavailableChannelId { channel_id }) => obs.push(format!("(1, RUnavailable {})", channel_id)),
                    Err(Error::ExhaustedChannelIds) => obs.push("(1, RExhausted)".into()),
                    Err(_) => obs.push("(1, RPanic)".into()),
                }
            }
            4..=6 => {
                ops.push("(1, OpenNone)".into());
                match conn.open_channel(None) {
                    Ok(ch) => {
                        obs.push(format!("(1, ROk {})", ch.channel_id()));
                        open.insert(ch.channel_id(), ch);
                    }
                    Err(Error::UnavailableChannelId { channel_id }) => obs.push(format!("(1, RUnavailable {})", channel_id)),
                    Err(Error::ExhaustedChannelIds) => obs.push("(1, RExhausted)".into()),
                    Err(_) => obs.push("(1, RPanic)".into()),
                }
            }
            _ => {
                let ids: Vec<u16> = open.keys().cloned().collect();
                if ids.is_empty() {
                    continue;
                }
                let id = *rng.pick(&ids);
                let ch = open.remove(&id).unwrap();
                ops.push(format!("(1, Close {})", id));
                obs.push(format!("(1, RRemoved {})", coqfmt::b(ch.close().is_ok())));
            }
        }
    }
    for (_, ch) in open {
        std::mem::forget(ch);
    }
    std::mem::forget(conn);
    let _ = broker.stop();
    Some(format!("({}, [{}], [{}])", max, ops.join("; "), obs.join("; ")))
}

pub fn run(a: &Args) {
    let mut sink = CaseSink::new("C10", "C10", &a.out, 100);
    let mut rng = Rng::new(a.seed ^ 0xC10_2);
    let subs: Vec<u64> = if let Some(pos) = a.rest.iter().position(|x| x == "--line") {
        vec![a.rest[pos + 1].split_whitespace().last().unwrap().parse().unwrap()]
    } else {
        (0..a.n).map(|_| rng.next()).collect()
    };
    for chunk in subs.chunks(8) {
        if crate::l2::timeouts() >= crate::l2::ENOUGH_TIMEOUTS {
            sink.count("stopped-early-after-timeouts");
            break;
        }
        let hs: Vec<_> = chunk.iter().map(|&s| std::thread::spawn(move || (s, crate::l2::watchdog(format!("l2 {}", s), 150, move || scenario(s))))).collect();
        for h in hs {
            match h.join() {
                Ok((s, Some(term))) => {
                    sink.count("scenario");
                    sink.push_line(term, true, format!("l2 {}", s));
                }
                _ => sink.count("setup_failed"),
            }
        }
    }
    sink.finish("");
}
